"""debug helper: print the loader's rejection guards whose function name contains argv[1]"""
import sys
sys.path.insert(0, '/verif'); sys.setrecursionlimit(10000)
from sa.ctx import Ctx
from rules.loaderfacts import LoaderFacts
from sa.canon import f_show
ctx = Ctx()
lf = LoaderFacts(ctx)
pat = sys.argv[1]
for g in lf.guards:
    if pat in g.func:
        print(g.func, g.ev.loc, g.loops)
        print("   F  ", f_show(g.F)[:3000])
        print("   RES", f_show(lf.residual_formula(g))[:800])
