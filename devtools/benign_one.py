"""run selected benign-sweep variants (file, substring of func, substring of description) and print
every failing obligation in full"""
import ast, os, random, sys
sys.path.insert(0, '/verif'); sys.setrecursionlimit(10000)
from sa.model import REPO
from selfval.sweep import FILES
from selfval.benign_sweep import variants_of
from selfval.mut import run_rules, violations

def main():
    rel, fsub, sub = sys.argv[1], sys.argv[2], sys.argv[3]
    pids = sys.argv[4:] or FILES[rel]
    trees = [ast.parse(open(os.path.join(REPO, f)).read()) for f in FILES]
    for v in variants_of(rel, trees, 10000, random.Random(0)):
        if fsub in v["func"] and sub in v["desc"]:
            print("VARIANT", v["func"], v["desc"][:120])
            if os.environ.get("DUMP"):
                open(os.environ["DUMP"], "w").write(v["src"])
            for pid in pids:
                st, chk = run_rules(pid, {v["file"]: v["src"]})
                for x in violations(chk):
                    print("  ", pid, x["rule"], "|", x["construct"][:150], "\n      ", x.get("detail", "")[:1500])
main()
