"""re-evaluate every stored seeded change in memory and bring meta.json's caught_by up to date;
prints what changed.   python devtools/seeded_refresh.py [--write]"""
import glob, json, os, sys
sys.path.insert(0, '/verif'); sys.setrecursionlimit(10000)
import multiprocessing as mp
from devtools.patch_eval import job
from selfval.run import ALL

if __name__ == "__main__":
    dirs = sorted(glob.glob('/verif/seeded/C*'))
    with mp.Pool(16) as pool:
        res = pool.map(job, [(d, p) for d in dirs for p in ALL], chunksize=1)
    silent = []
    for d in dirs:
        now = sorted(p for dd, p, s, t in res if dd == d and s == "violation")
        bad = [(p, s, t) for dd, p, s, t in res if dd == d and s in ("error", "crash", "noapply")]
        mp_ = os.path.join(d, "meta.json")
        m = json.load(open(mp_))
        old = sorted(m.get("caught_by", []))
        if bad:
            print(os.path.basename(d), "PROBLEM", bad[:2])
        if old != now:
            print(os.path.basename(d), old, "->", now)
            if "--write" in sys.argv:
                m["caught_by"] = now
                json.dump(m, open(mp_, "w"), indent=1)
        if not now:
            silent.append(os.path.basename(d))
    print(len(dirs), "seeded changes;", len(dirs) - len(silent), "reported by at least one check; not reported:", silent)
