"""run selected sweep mutants (file, line, substring of description) through given checks"""
import sys
sys.path.insert(0, '/verif'); sys.setrecursionlimit(10000)
from selfval.sweep import mutants_of, FILES
from selfval.mut import run_rules, violations

def main():
    rel, line, sub = sys.argv[1], int(sys.argv[2]), sys.argv[3]
    pids = sys.argv[4:] or FILES[rel]
    for m in mutants_of(rel):
        if m["line"] == line and sub in m["desc"]:
            print("MUTANT", m["func"], m["line"], m["desc"][:120])
            for pid in pids:
                try:
                    st, chk = run_rules(pid, {m["file"]: m["src"]})
                except Exception as e:
                    print("  ", pid, "crash", type(e).__name__, str(e)[:100]); continue
                v = violations(chk)
                und = [o for o in chk.obligations if o["status"] == "undecided"]
                print("  ", pid, st, (v[0]["rule"] + ": " + v[0]["construct"][:90]) if v else "",
                      f"undecided={len(und)}", (und[0]["rule"] + " " + und[0]["detail"][:140]) if und and not v else "",
                      getattr(chk, "error", "")[:120])
main()
