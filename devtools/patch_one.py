"""all obligations of one check on one patch dir (in memory): python devtools/patch_one.py <dir> <PID> [filter]"""
import os, sys
sys.path.insert(0, '/verif'); sys.setrecursionlimit(10000)
from selfval.mut import run_rules, overrides_from_patch
d, pid = os.path.abspath(sys.argv[1]), sys.argv[2]
flt = sys.argv[3] if len(sys.argv) > 3 else ""
st, chk = run_rules(pid, overrides_from_patch(os.path.join(d, "patch.diff")))
print(st, getattr(chk, "error", ""))
for o in chk.obligations:
    if flt in o["rule"] or flt in o["status"]:
        print(o["status"], o["rule"], "|", o["construct"][:160], "|", str(o["detail"])[:300])
