"""evaluate patch directories in memory (nothing is applied to /repo): for each <dir>/patch.diff run
every check on Repo(overrides=patched files) and print violations / errors / engine-undecided.
   python devtools/patch_eval.py <dir> ...        (16 processes)"""
import os, sys
sys.path.insert(0, '/verif'); sys.setrecursionlimit(10000)
import multiprocessing as mp
from selfval.mut import run_rules, violations, overrides_from_patch
from selfval.run import ALL


def job(a):
    d, pid = a
    ov = overrides_from_patch(os.path.join(d, "patch.diff"))
    if ov is None:
        return d, pid, "noapply", ""
    try:
        st, chk = run_rules(pid, ov)
    except Exception as e:
        return d, pid, "crash", f"{type(e).__name__}: {str(e)[:150]}"
    if st == "error":
        return d, pid, "error", getattr(chk, "error", "")[:200]
    v = violations(chk)
    if v:
        return d, pid, "violation", "; ".join(f"{x['rule']}: {x['construct'][:110]}" for x in v[:3])
    und = [o for o in chk.obligations if o["status"] == "undecided"]
    return d, pid, "ok", f"{len(und)} undecided" if und else ""


if __name__ == "__main__":
    dirs = [os.path.abspath(d) for d in sys.argv[1:]]
    with mp.Pool(16) as pool:
        res = pool.map(job, [(d, p) for d in dirs for p in ALL], chunksize=1)
    for d in dirs:
        rs = [r for r in res if r[0] == d]
        bad = [(p, s, t) for _, p, s, t in rs if s != "ok"]
        und = [(p, t) for _, p, s, t in rs if s == "ok" and t]
        print(os.path.basename(d) + ":", "silent" if not bad else "")
        for p, s, t in bad:
            print("    ", p, s, t)
        if und:
            print("     undecided:", ", ".join(f"{p}({t.split()[0]})" for p, t in und))
