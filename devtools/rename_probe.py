"""apply a textual rename across /repo/nasim in memory and run every check on it"""
import sys, os, glob
sys.path.insert(0, '/verif'); sys.setrecursionlimit(10000)
from selfval.mut import run_rules, violations
from selfval.run import ALL
import multiprocessing as mp

def rename(old, new):
    ov = {}
    for p in glob.glob('/repo/nasim/**/*.py', recursive=True):
        s = open(p).read()
        if old in s:
            ov[os.path.relpath(p, '/repo')] = s.replace(old, new)
    return ov

def job(a):
    pid, ov = a
    try:
        st, chk = run_rules(pid, ov)
    except Exception as e:
        return pid, "crash", str(e)[:90]
    if st == "error":
        return pid, "error", getattr(chk, "error", "")[:90]
    v = violations(chk)
    if v:
        return pid, "violation", v[0]["rule"] + ": " + v[0]["construct"][:70]
    und = [o for o in chk.obligations if o["status"] == "undecided" and o["rule"].startswith("engine")]
    return (pid, "undecided", und[0]["construct"][:80]) if und else (pid, "ok", "")

if __name__ == "__main__":
    pairs = [a.split("=") for a in sys.argv[1:]]
    with mp.Pool(16) as pool:
        for old, new in pairs:
            ov = rename(old, new)
            res = pool.map(job, [(p, ov) for p in ALL])
            bad = [r for r in res if r[1] != "ok"]
            print(f"{old} -> {new} ({len(ov)} files):", bad or "all silent")
