#!/venv/bin/python
"""Writes /verif/anchors.json: a fingerprint of every private (underscore) method / function of the
library that a rule module names as an anchor.  The fingerprint is used ONLY to find an anchor again
after a pure rename (same parameters, same body, different name) - never as a verdict: a function
whose body changed is simply not re-identified."""
import json, os, re, sys
HERE = os.path.dirname(os.path.abspath(__file__))
sys.path.insert(0, HERE)
from sa.model import Repo, fingerprint      # noqa: E402

repo = Repo()
names = set()
for f in os.listdir(os.path.join(HERE, "rules")) + ["../sa/layout.py", "../sa/ctx.py"]:
    p = os.path.join(HERE, "rules", f)
    if p.endswith(".py") and os.path.exists(p):
        names |= set(re.findall(r"[\"'.:]((?:_[a-z][a-z0-9_]+))[\"']", open(p).read()))
# ... and every private function named by a known finding (its key must survive a rename)
names |= set(re.findall(r"\.(_[a-z][a-z0-9_]+)", open(os.path.join(HERE, "known_findings.json")).read()))
out = {}
for m in repo.modules.values():
    for ci in m.classes.values():
        for n, fi in ci.methods.items():
            if n in names and n.startswith("_") and not n.startswith("__"):
                out[f"{m.name}:{ci.name}.{n}"] = fingerprint(fi)
    for n, fi in m.functions.items():
        if n in names and n.startswith("_"):
            out[f"{m.name}:{n}"] = fingerprint(fi)
json.dump(out, open(os.path.join(HERE, "anchors.json"), "w"), indent=1, sort_keys=True)
# the private identifiers (attributes, methods, functions, module-level names) of the tree the rules
# were written for: state or helpers under any *other* private name have no model in the rules
from sa.model import private_names          # noqa: E402
json.dump(sorted(private_names(repo)), open(os.path.join(HERE, "private_names.json"), "w"), indent=0)
# the parameter lists of every function of the reference tree: a parameter a later tree adds to one
# of them (necessarily optional, or existing calls would break) is outside the given properties -
# existing calls leave it at its default, which is how the analysis binds it (sa/interp.py)
sigs = {}
for m in repo.modules.values():
    for fi in repo.all_functions():
        a = fi.node.args
        sigs[fi.fq] = [x.arg for x in a.posonlyargs + a.args + a.kwonlyargs] + \
            (["*" + a.vararg.arg] if a.vararg else []) + (["**" + a.kwarg.arg] if a.kwarg else [])
    break
json.dump(sigs, open(os.path.join(HERE, "signatures.json"), "w"), indent=0, sort_keys=True)
# ... and how many `raise` statements each function has: an exception exit a later tree adds (a
# clearer error for a malformed argument, an "unreachable" branch) is not an outcome the rules have
# a model for - whether its condition can hold for valid input is not established (sa/interp.py)
import ast as _ast
raises = {fi.fq: sum(isinstance(n, (_ast.Raise, _ast.Assert)) for n in _ast.walk(fi.node))
          for fi in repo.all_functions()}
# (per module as well: an assert that merely moved into a new helper of the same module is not new)
for m in repo.modules.values():
    raises["module:" + m.path] = sum(isinstance(n, (_ast.Raise, _ast.Assert)) for n in _ast.walk(m.tree))
json.dump({k: v for k, v in raises.items() if v}, open(os.path.join(HERE, "raise_sites.json"), "w"),
          indent=0, sort_keys=True)
print(len(out), "anchor fingerprints written;", len(sigs), "signatures")
