"""Order taint: ORDERED vs HASH_ORDERED (iteration order depends on str hashing, i.e. on
PYTHONHASHSEED).  Flow-insensitive per function, with per-class attribute kinds.

Sources of HASH: set(...), set displays/comprehensions, .copy()/union of a HASH value,
subscripts of a dict whose stored values are HASH.  sorted(...) sanitises; list/tuple/
enumerate/zip/reversed/iteration propagate."""
import ast

ORDERED, HASH, UNKNOWN = "ORDERED", "HASH", "UNKNOWN"
PROPAGATE = {"list", "tuple", "enumerate", "reversed", "iter", "zip"}


class OrderTaint:
    def __init__(self, ctx):
        self.ctx = ctx
        self.attr_kind = {}      # (class, attr) -> kind
        self.attr_vals = {}      # (class, attr) -> kind of the *values* of a dict attribute
        self._fn = {}
        for _ in range(3):
            for fi in ctx.repo.all_functions():
                self._scan(fi)

    def _scan(self, fi):
        env, vals = {}, {}
        for _ in range(3):
            for n in ast.walk(fi.node):
                if isinstance(n, ast.Assign):
                    k = self.kind(fi, n.value, env, vals)
                    vk = self.values_kind(fi, n.value, env, vals)
                    for t in n.targets:
                        self._bind(fi, t, k, vk, env, vals)
                elif isinstance(n, ast.For):
                    k = self.kind(fi, n.iter, env, vals)
                    # elements of an iterable are not themselves sets (unless values are)
                    vk = self.values_kind(fi, n.iter, env, vals)
                    self._bind(fi, n.target, vk if vk == HASH else ORDERED, None, env, vals)
        self._fn[fi.fq] = (env, vals)

    def _bind(self, fi, t, k, vk, env, vals):
        if isinstance(t, ast.Name):
            if k == HASH or env.get(t.id) != HASH:
                env[t.id] = k if env.get(t.id) != HASH else HASH
            if vk == HASH:
                vals[t.id] = HASH
        elif isinstance(t, ast.Attribute) and isinstance(t.value, ast.Name) \
                and t.value.id in ("self", "cls") and fi.cls is not None:
            key = (fi.cls.name, t.attr)
            if k == HASH or self.attr_kind.get(key) != HASH:
                self.attr_kind[key] = k if self.attr_kind.get(key) != HASH else HASH
            if vk == HASH:
                self.attr_vals[key] = HASH
        elif isinstance(t, ast.Subscript):
            # d[k] = <HASH value>  => values of d are HASH
            if k == HASH:
                b = t.value
                if isinstance(b, ast.Name):
                    vals[b.id] = HASH
                elif isinstance(b, ast.Attribute) and isinstance(b.value, ast.Name) \
                        and b.value.id in ("self", "cls") and fi.cls is not None:
                    self.attr_vals[(fi.cls.name, b.attr)] = HASH
        elif isinstance(t, (ast.Tuple, ast.List)):
            for e in t.elts:
                self._bind(fi, e, ORDERED if k != HASH else UNKNOWN, None, env, vals)

    def values_kind(self, fi, e, env, vals):
        if isinstance(e, ast.Name):
            return vals.get(e.id, UNKNOWN)
        if isinstance(e, ast.Attribute) and isinstance(e.value, ast.Name) \
                and e.value.id in ("self", "cls") and fi.cls is not None:
            return self.attr_vals.get((fi.cls.name, e.attr), UNKNOWN)
        if isinstance(e, ast.Call) and isinstance(e.func, ast.Attribute) \
                and e.func.attr in ("values", "copy"):
            return self.values_kind(fi, e.func.value, env, vals)
        return UNKNOWN

    def kind(self, fi, e, env=None, vals=None):
        if env is None:
            env, vals = self._fn.get(fi.fq, ({}, {}))
        if isinstance(e, (ast.Set, ast.SetComp)):
            return HASH
        if isinstance(e, (ast.List, ast.Tuple, ast.ListComp, ast.Dict, ast.DictComp,
                          ast.Constant, ast.JoinedStr)):
            if isinstance(e, ast.ListComp):
                return self.kind(fi, e.generators[0].iter, env, vals) \
                    if self.kind(fi, e.generators[0].iter, env, vals) == HASH else ORDERED
            return ORDERED
        if isinstance(e, ast.Name):
            return env.get(e.id, UNKNOWN)
        if isinstance(e, ast.Attribute):
            if isinstance(e.value, ast.Name) and e.value.id in ("self", "cls") \
                    and fi.cls is not None:
                return self.attr_kind.get((fi.cls.name, e.attr), UNKNOWN)
            return UNKNOWN
        if isinstance(e, ast.Subscript):
            if self.values_kind(fi, e.value, env, vals) == HASH:
                return HASH
            return UNKNOWN
        if isinstance(e, ast.BinOp) and isinstance(e.op, (ast.BitOr, ast.BitAnd, ast.Sub,
                                                         ast.BitXor)):
            if HASH in (self.kind(fi, e.left, env, vals), self.kind(fi, e.right, env, vals)):
                return HASH
            return UNKNOWN
        if isinstance(e, ast.BinOp) and isinstance(e.op, ast.Add):
            a, b = self.kind(fi, e.left, env, vals), self.kind(fi, e.right, env, vals)
            if HASH in (a, b):
                return HASH
            return ORDERED if a == b == ORDERED else UNKNOWN
        if isinstance(e, ast.Call):
            f = e.func
            name = f.id if isinstance(f, ast.Name) else (f.attr if isinstance(f, ast.Attribute)
                                                         else "")
            if isinstance(f, ast.Name):
                if name in ("set", "frozenset"):
                    return HASH
                if name == "sorted":
                    return ORDERED
                if name in PROPAGATE and e.args:
                    ks = [self.kind(fi, a, env, vals) for a in e.args]
                    return HASH if HASH in ks else (ORDERED if all(k == ORDERED for k in ks)
                                                    else UNKNOWN)
                if name == "range":
                    return ORDERED
            if isinstance(f, ast.Attribute):
                if name in ("copy", "union", "intersection", "difference"):
                    return self.kind(fi, f.value, env, vals)
                if name in ("items", "keys", "values"):
                    k = self.kind(fi, f.value, env, vals)
                    return HASH if k == HASH else ORDERED   # dicts are insertion ordered
            return UNKNOWN
        return UNKNOWN


_ot = {}


def taint(ctx):
    cache = ctx.__dict__.setdefault("_rule_cache", {})
    if "order" not in cache:
        cache["order"] = OrderTaint(ctx)
    return cache["order"]


def dict_build_order(ctx, mod, cls, attrs):
    """every loop / comprehension of the module that fills an ordered container (dict item store,
    append, dict / list comprehension) while iterating the declared list self.<attr> of `cls` -
    directly, or through a parameter that a call site binds to self.<attr> - must iterate an ORDERED
    sequence.  The functions are found by what they iterate, not by name."""
    ot = taint(ctx)
    m = ctx.repo.modules[mod]
    funcs = list(m.functions.values())
    for c in m.classes.values():
        funcs += list(c.methods.values())
    by_name = {}
    for fi in funcs:
        by_name.setdefault(fi.name, []).append(fi)
    ci = ctx.repo.cls(mod, cls)

    def is_attr(fi, e, alias):
        """the attribute (one of attrs) that expression e denotes in fi, or None"""
        if isinstance(e, ast.Attribute) and e.attr in attrs and isinstance(e.value, ast.Name) \
                and fi.cls is ci and fi.params and e.value.id == fi.params[0]:
            return {e.attr}
        if isinstance(e, ast.Name):
            return alias.get((fi.fq, e.id))
        return None

    # parameters (and locals) bound to self.<attr>: fixpoint over name-resolved calls
    alias = {}
    for _ in range(4):
        for fi in funcs:
            for n in ast.walk(fi.node):
                if isinstance(n, ast.Assign) and len(n.targets) == 1 \
                        and isinstance(n.targets[0], ast.Name):
                    a = is_attr(fi, n.value, alias)
                    if a:
                        alias.setdefault((fi.fq, n.targets[0].id), set()).update(a)
                if not isinstance(n, ast.Call):
                    continue
                f = n.func
                name = f.attr if isinstance(f, ast.Attribute) else f.id if isinstance(f, ast.Name) \
                    else None
                for callee in by_name.get(name, ()):
                    ps = callee.params
                    off = 1 if (callee.cls is not None and isinstance(f, ast.Attribute)
                                and callee.flavour != "staticmethod") else 0
                    for k, a_ in enumerate(n.args):
                        at = is_attr(fi, a_, alias)
                        if at and not isinstance(a_, ast.Starred) and k + off < len(ps):
                            alias.setdefault((callee.fq, ps[k + off]), set()).update(at)
                    for kw in n.keywords:
                        at = is_attr(fi, kw.value, alias)
                        if at and kw.arg in ps:
                            alias.setdefault((callee.fq, kw.arg), set()).update(at)

    def fills_ordered(n):
        if isinstance(n, ast.comprehension):
            return True            # the caller passes only generators of dict / list comprehensions
        for x in ast.walk(ast.Module(body=n.body, type_ignores=[])):
            if isinstance(x, (ast.Assign, ast.AugAssign)):
                ts = x.targets if isinstance(x, ast.Assign) else [x.target]
                if any(isinstance(t, ast.Subscript) for t in ts):
                    return True
            if isinstance(x, ast.Call) and isinstance(x.func, ast.Attribute) \
                    and x.func.attr in ("append", "extend", "insert", "setdefault", "update"):
                return True
        return False
    out, found = [], set()
    for fi in funcs:
        sites = []
        for n in ast.walk(fi.node):
            if isinstance(n, ast.For):
                sites.append((n, n.iter))
            elif isinstance(n, (ast.DictComp, ast.ListComp)):
                sites += [(g, g.iter) for g in n.generators]
            elif isinstance(n, ast.Call) and isinstance(n.func, ast.Name) \
                    and n.func.id in ("dict", "list", "tuple") and n.args \
                    and isinstance(n.args[0], ast.GeneratorExp):
                sites += [(g, g.iter) for g in n.args[0].generators]
        for n, it in sites:
            base = it
            while isinstance(base, ast.Call) and isinstance(base.func, ast.Name) \
                    and base.func.id in ("zip", "enumerate", "list", "tuple", "iter", "set",
                                         "frozenset", "sorted", "reversed") and base.args:
                base = base.args[0]
            a = is_attr(fi, base, alias)
            if not a or not fills_ordered(n):
                continue
            found |= a
            k = ot.kind(fi, it)
            k2 = {x: ot.attr_kind.get((cls, x), UNKNOWN) for x in sorted(a)}
            ok = k != HASH and HASH not in k2.values()
            out.append({"construct": f"{fi.qualname}: an ordered container is filled by iterating "
                        f"the declared {' / '.join(sorted(a))} list", "ok": ok,
                        "detail": f"iteration kind {k}, attribute kind {k2}",
                        "loc": f"{fi.module.path}:{getattr(n, 'lineno', it.lineno)}"})
    for a in attrs:
        if a not in found:
            out.append({"construct": f"{mod.split('.')[-1]}: loop over {cls}.{a} building the "
                        "per-host dict", "ok": None, "detail": "no iteration over the attribute "
                        "found (recognised: for statements and comprehension generators over "
                        "self.<attr> or a parameter bound to it, possibly inside zip/enumerate/"
                        "list)", "loc": m.path})
    return out
