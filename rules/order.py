"""Order taint: ORDERED vs HASH_ORDERED (iteration order depends on str hashing, i.e. on
PYTHONHASHSEED).  Flow-insensitive per function, with per-class attribute kinds.

Sources of HASH: set(...), set displays/comprehensions, .copy()/union of a HASH value,
subscripts of a dict whose stored values are HASH.  sorted(...) sanitises; list/tuple/
enumerate/zip/reversed/iteration propagate."""
import ast

ORDERED, HASH, UNKNOWN = "ORDERED", "HASH", "UNKNOWN"
PROPAGATE = {"list", "tuple", "enumerate", "reversed", "iter", "zip"}


class OrderTaint:
    def __init__(self, ctx):
        self.ctx = ctx
        self.attr_kind = {}      # (class, attr) -> kind
        self.attr_vals = {}      # (class, attr) -> kind of the *values* of a dict attribute
        self._fn = {}
        for _ in range(3):
            for fi in ctx.repo.all_functions():
                self._scan(fi)

    def _scan(self, fi):
        env, vals = {}, {}
        for _ in range(3):
            for n in ast.walk(fi.node):
                if isinstance(n, ast.Assign):
                    k = self.kind(fi, n.value, env, vals)
                    vk = self.values_kind(fi, n.value, env, vals)
                    for t in n.targets:
                        self._bind(fi, t, k, vk, env, vals)
                elif isinstance(n, ast.For):
                    k = self.kind(fi, n.iter, env, vals)
                    # elements of an iterable are not themselves sets (unless values are)
                    vk = self.values_kind(fi, n.iter, env, vals)
                    self._bind(fi, n.target, vk if vk == HASH else ORDERED, None, env, vals)
        self._fn[fi.fq] = (env, vals)

    def _bind(self, fi, t, k, vk, env, vals):
        if isinstance(t, ast.Name):
            if k == HASH or env.get(t.id) != HASH:
                env[t.id] = k if env.get(t.id) != HASH else HASH
            if vk == HASH:
                vals[t.id] = HASH
        elif isinstance(t, ast.Attribute) and isinstance(t.value, ast.Name) \
                and t.value.id in ("self", "cls") and fi.cls is not None:
            key = (fi.cls.name, t.attr)
            if k == HASH or self.attr_kind.get(key) != HASH:
                self.attr_kind[key] = k if self.attr_kind.get(key) != HASH else HASH
            if vk == HASH:
                self.attr_vals[key] = HASH
        elif isinstance(t, ast.Subscript):
            # d[k] = <HASH value>  => values of d are HASH
            if k == HASH:
                b = t.value
                if isinstance(b, ast.Name):
                    vals[b.id] = HASH
                elif isinstance(b, ast.Attribute) and isinstance(b.value, ast.Name) \
                        and b.value.id in ("self", "cls") and fi.cls is not None:
                    self.attr_vals[(fi.cls.name, b.attr)] = HASH
        elif isinstance(t, (ast.Tuple, ast.List)):
            for e in t.elts:
                self._bind(fi, e, ORDERED if k != HASH else UNKNOWN, None, env, vals)

    def values_kind(self, fi, e, env, vals):
        if isinstance(e, ast.Name):
            return vals.get(e.id, UNKNOWN)
        if isinstance(e, ast.Attribute) and isinstance(e.value, ast.Name) \
                and e.value.id in ("self", "cls") and fi.cls is not None:
            return self.attr_vals.get((fi.cls.name, e.attr), UNKNOWN)
        if isinstance(e, ast.Call) and isinstance(e.func, ast.Attribute) \
                and e.func.attr in ("values", "copy"):
            return self.values_kind(fi, e.func.value, env, vals)
        return UNKNOWN

    def kind(self, fi, e, env=None, vals=None):
        if env is None:
            env, vals = self._fn.get(fi.fq, ({}, {}))
        if isinstance(e, (ast.Set, ast.SetComp)):
            return HASH
        if isinstance(e, (ast.List, ast.Tuple, ast.ListComp, ast.Dict, ast.DictComp,
                          ast.Constant, ast.JoinedStr)):
            if isinstance(e, ast.ListComp):
                return self.kind(fi, e.generators[0].iter, env, vals) \
                    if self.kind(fi, e.generators[0].iter, env, vals) == HASH else ORDERED
            return ORDERED
        if isinstance(e, ast.Name):
            return env.get(e.id, UNKNOWN)
        if isinstance(e, ast.Attribute):
            if isinstance(e.value, ast.Name) and e.value.id in ("self", "cls") \
                    and fi.cls is not None:
                return self.attr_kind.get((fi.cls.name, e.attr), UNKNOWN)
            return UNKNOWN
        if isinstance(e, ast.Subscript):
            if self.values_kind(fi, e.value, env, vals) == HASH:
                return HASH
            return UNKNOWN
        if isinstance(e, ast.BinOp) and isinstance(e.op, (ast.BitOr, ast.BitAnd, ast.Sub,
                                                         ast.BitXor)):
            if HASH in (self.kind(fi, e.left, env, vals), self.kind(fi, e.right, env, vals)):
                return HASH
            return UNKNOWN
        if isinstance(e, ast.BinOp) and isinstance(e.op, ast.Add):
            a, b = self.kind(fi, e.left, env, vals), self.kind(fi, e.right, env, vals)
            if HASH in (a, b):
                return HASH
            return ORDERED if a == b == ORDERED else UNKNOWN
        if isinstance(e, ast.Call):
            f = e.func
            name = f.id if isinstance(f, ast.Name) else (f.attr if isinstance(f, ast.Attribute)
                                                         else "")
            if isinstance(f, ast.Name):
                if name in ("set", "frozenset"):
                    return HASH
                if name == "sorted":
                    return ORDERED
                if name in PROPAGATE and e.args:
                    ks = [self.kind(fi, a, env, vals) for a in e.args]
                    return HASH if HASH in ks else (ORDERED if all(k == ORDERED for k in ks)
                                                    else UNKNOWN)
                if name == "range":
                    return ORDERED
            if isinstance(f, ast.Attribute):
                if name in ("copy", "union", "intersection", "difference"):
                    return self.kind(fi, f.value, env, vals)
                if name in ("items", "keys", "values"):
                    k = self.kind(fi, f.value, env, vals)
                    return HASH if k == HASH else ORDERED   # dicts are insertion ordered
            return UNKNOWN
        return UNKNOWN


_ot = {}


def taint(ctx):
    cache = ctx.__dict__.setdefault("_rule_cache", {})
    if "order" not in cache:
        cache["order"] = OrderTaint(ctx)
    return cache["order"]


def dict_build_order(ctx, mod, cls, fn, attrs):
    """loops `for name in self.<attr>: d[name] = ...` in cls.fn must iterate an ORDERED list"""
    ot = taint(ctx)
    fi = ctx.repo.func(mod, f"{cls}.{fn}", required=False)
    out = []
    if fi is None:
        return [{"construct": f"{cls}.{fn}: dict builder not found", "ok": False,
                 "detail": "anchor function vanished", "loc": mod}]
    found = set()
    for n in ast.walk(fi.node):
        # a for statement or a comprehension generator: both have .iter
        if isinstance(n, (ast.For, ast.comprehension)):
            it = n.iter
            base = it
            while isinstance(base, ast.Call) and isinstance(base.func, ast.Name) \
                    and base.func.id in ("zip", "enumerate", "list", "tuple", "iter", "set",
                                         "frozenset", "sorted", "reversed") and base.args:
                base = base.args[0]
            if isinstance(base, ast.Attribute) and base.attr in attrs:
                found.add(base.attr)
                k = ot.kind(fi, it)
                k2 = ot.attr_kind.get((cls, base.attr), UNKNOWN)
                ok = k != HASH and k2 != HASH
                out.append({"construct": f"{cls}.{fn}: per-host {base.attr} dict is filled by "
                            f"iterating self.{base.attr} (an ordered list)", "ok": ok,
                            "detail": f"iteration kind {k}, attribute kind {k2}",
                            "loc": f"{fi.module.path}:{getattr(n, 'lineno', it.lineno)}"})
    for a in attrs:
        if a not in found:
            out.append({"construct": f"{cls}.{fn}: loop over self.{a} building the per-host dict",
                        "ok": None, "detail": "no iteration over the attribute found (recognised: "
                        "for statements and comprehension generators over self.<attr>, possibly "
                        "inside zip/enumerate/list)", "loc": fi.module.path})
    return out
