"""C12 - observation and action modes do not change the dynamics (non-interference).

  C12.roles       every load of a mode field (fully_obs, flat_obs, flat_actions) in nasim/envs and
                  nasim/scenarios is in a presentation role: r0 initial store / forwarding to a
                  constructor, r1 the fully_obs argument of get_(initial_)observation, r2 the test of
                  an `if` that only chooses numpy_flat()/numpy() or shape_flat()/shape(), r3 the test
                  choosing the action-space class, r4 string formatting
  C12.no-mode-in-dynamics  Network, HostVector, Action*, Scenario*, loader and generator never read a
                  mode field (count 0; the scan itself is validated by a floor on environment.py)
  C12.flow        in the inlined call tree of generative_step, neither the returned next state,
                  reward, terminal flag, info, any path condition, nor any store into the next state
                  mentions a mode field; in step(), reward/done/limit/info and the stored state do not
  C12.obs-confined  inside State the fully_obs parameter only guards stores into the fresh Observation
"""
import ast

from sa.canon import f_show
from sa.ctx import classify_root, ENV_MOD
from . import envfacts
from .c08 import ObsFacts

EXPLANATION = (
    "Flow rule over the three mode fields: AST classification of every load site by syntactic "
    "role, plus a term-level 'mentions' analysis on the abstract interpretation of "
    "generative_step (whole call tree inlined), step and get_observation.")

MODES = ("fully_obs", "flat_obs", "flat_actions")
PRESENT_PAIRS = ({"numpy_flat", "numpy"}, {"shape_flat", "shape"})


_MEMO = {}


def mentions(t, pred):
    if not isinstance(t, tuple):
        return False
    k = id(t)
    r = _MEMO.get(k)
    if r is not None and r[0] is t:
        return r[1]
    if pred(t):
        res = True
    else:
        res = any(mentions(x, pred) for x in t if isinstance(x, tuple))
    _MEMO[k] = (t, res)
    return res


def is_mode_attr(t):
    return len(t) == 3 and t[0] == "attr" and t[2] in MODES


PRES_METHODS = {"numpy_flat", "numpy", "shape_flat", "shape"}
SPACE_CLASSES = {"FlatActionSpace", "ParameterisedActionSpace"}
OBS_CALLS = {"get_observation", "get_initial_observation"}
ENV_MODS = ("nasim.envs.environment", "nasim.envs.gym_env")


def is_mode_term(t):
    """a read of a mode: the attribute, or (inside __init__, after `self.flat_obs = flat_obs`) the
    constructor parameter of the same name"""
    return (len(t) == 3 and t[0] == "attr" and t[2] in MODES) or \
        (len(t) == 2 and t[0] == "param" and t[1] in MODES)


def pure_mode_cond(c):
    while c[0] == "not":
        c = c[1]
    if c[0] in ("and", "or"):
        return all(pure_mode_cond(x) for x in c[1])
    if c[0] == "call" and c[1] == "builtins.bool" and len(c[2]) == 1:
        return pure_mode_cond(c[2][0])
    return is_mode_term(c)


def presentational(t):
    """one of the alternatives a mode may choose between: the flat / structured rendering of an
    observation (or of its shape), or one of the two action-space classes"""
    if t[0] == "attr" and t[2] == "shape":
        return presentational(t[1])           # numpy_flat().shape / numpy().shape
    if t[0] == "mcall" and t[2] in PRES_METHODS:
        return True
    if t[0] == "call" and t[1].split(".")[-1] in PRES_METHODS and ":" in t[1]:
        return True
    if t[0] == "new" and t[1] in SPACE_CLASSES:
        return True
    if t[0] == "classref" and t[1] in SPACE_CLASSES:
        return True
    if t[0] == "call" and t[1].split(":")[-1].split(".")[0] in SPACE_CLASSES:
        return True
    return False


def strip_presentation(t, memo):
    """replace every use of a mode that is presentational by construction with a token, so that what
    is left mentions a mode only where the mode can influence something else:
      - a conditional value whose condition is a pure mode test and whose alternatives are all
        presentational (see above)
      - the fully_obs argument handed to get_observation / get_initial_observation
      - a value interpolated into a string"""
    if not isinstance(t, tuple) or not t:
        return t
    k = id(t)
    r = memo.get(k)
    if r is not None and r[0] is t:
        return r[1]
    out = t
    if t[0] == "phi" and len(t) == 4 and pure_mode_cond(t[1]) \
            and all(presentational(x) or (x[0] == "phi" and strip_presentation(x, memo) == ("PRES",))
                    for x in t[2:4]):
        out = ("PRES",)
    elif t[0] == "cases" and all(all(pure_mode_cond(c) for c in pc if c[0] not in ("fact", "inloop"))
                                 and presentational(x) for pc, x in t[1]):
        out = ("PRES",)
    elif t[0] == "fstr":
        out = ("STR",)
    elif t[0] in ("mcall",) and t[2] in OBS_CALLS:
        args = tuple(("MODE-ARG",) if (is_mode_term(a) and a[-1] == "fully_obs")
                     else strip_presentation(a, memo) for a in t[3])
        kws = tuple((kk, ("MODE-ARG",) if (is_mode_term(v) and v[-1] == "fully_obs"
                                            and kk == "fully_obs")
                     else strip_presentation(v, memo)) for kk, v in t[4])
        out = ("mcall", strip_presentation(t[1], memo), t[2], args, kws)
    elif t[0] == "call" and t[1].split(".")[-1] in OBS_CALLS and ":" in t[1]:
        args = tuple(("MODE-ARG",) if (is_mode_term(a) and a[-1] == "fully_obs")
                     else strip_presentation(a, memo) for a in t[2])
        out = ("call", t[1], args) + tuple(t[3:])
    else:
        out = tuple(strip_presentation(x, memo) if isinstance(x, tuple) else x for x in t)
    memo[k] = (t, out)
    return out


def check_roles(ctx, chk):
    """every function of the environment layer that reads a mode field: the mode reaches nothing but
    presentation.  Decided on the abstract values (callees outside the environment layer are kept
    opaque), so it does not depend on whether the choice is written as if/else, a conditional
    expression, an early-return helper or a renamed local."""
    from sa.interp import Interp
    from sa.canon import Canon
    repo = ctx.repo
    outside = tuple(fi.fq for fi in repo.all_functions() if fi.module.name not in ENV_MODS)
    n_env = 0
    for fi in repo.all_functions():
        if fi.module.name not in ENV_MODS:
            continue
        loads = [n for n in ast.walk(fi.node) if isinstance(n, ast.Attribute) and n.attr in MODES
                 and isinstance(n.ctx, ast.Load)]
        if not loads:
            continue
        n_env += len(loads)
        cls = fi.cls.name if getattr(fi, "cls", None) is not None else None
        pt = {fi.params[0]: cls} if cls and fi.params else {}
        ip = Interp(repo, ctx.types, param_types=pt, no_inline=outside)
        s = ip.run(fi)
        cn = Canon(ip, ctx.layout)
        cn.written = None
        memo = {}
        bad = []

        def m(t):
            return mentions(strip_presentation(t, memo), is_mode_term)

        def mode_conds(pc):
            return [c for c in pc if c[0] not in ("fact", "inloop") and mentions(c, is_mode_term)]
        # ---- returns
        guarded = [(pc, t) for pc, t in s.returns if mode_conds(pc)]
        for pc, t in s.returns:
            if m(t):
                bad.append(f"returned value depends on a mode: {cn.show(t)[:160]}")
        if guarded:
            impure = [c for pc, t in guarded for c in mode_conds(pc) if not pure_mode_cond(c)]
            if impure:
                bad.append(f"a return is guarded by {cn.show(impure[0])[:120]}")
            comps = {}
            for pc, t in guarded:
                parts = t[1] if t[0] == "tuple" else (t,)
                for i, x in enumerate(parts):
                    comps.setdefault((len(parts), i), []).append(x)
            for (n, i), xs in comps.items():
                # (by rendering, not by identity: two `{}` built on two branches are one value)
                distinct = {cn.show(x) for x in xs}
                if len(distinct) > 1 and not all(presentational(x) for x in xs):
                    bad.append(f"the mode selects between returned values "
                               f"{sorted(cn.show(x)[:80] for x in xs)[:3]}")
        # ---- effects and calls
        for ev in s.events:
            if ev.kind not in ("store", "call", "mcall", "new", "raise", "assert"):
                continue
            d = ev.data
            mc = mode_conds(ev.pc)
            what = None
            if ev.kind == "store":
                if d["target"] == "attr" and d.get("fresh"):
                    continue
                if d["target"] == "sub" and d["base"][0] in ("dictobj", "listobj"):
                    continue
                name = d.get("name") if d["target"] == "attr" else cn.show(d.get("idx"))
                if d["target"] == "attr" and name in MODES and d["value"] == ("param", name) \
                        and not mc:
                    continue          # r0: the constructor records the mode
                val_ok = presentational(d["value"]) or not m(d["value"])
                if mc and not (presentational(d["value"]) and all(pure_mode_cond(c) for c in mc)):
                    what = f"store to {name} happens only for some modes"
                elif not val_ok:
                    what = f"value stored to {name} depends on a mode"
            elif ev.kind in ("call", "mcall", "new"):
                t = d.get("result") or d.get("obj")
                fname = d.get("fname") or d.get("name") or d.get("cls") or "?"
                is_pres = t is not None and presentational(t)
                if ev.kind == "new" and d.get("cls") in SPACE_CLASSES:
                    is_pres = True
                leaf = fname.split(":")[-1].split(".")[-1]
                if fname in ("builtins.print", "builtins.str", "builtins.repr", "builtins.format"):
                    continue
                argterms = list(d.get("args", ())) + [v for _, v in (d.get("kwargs") or ())]
                if leaf in OBS_CALLS:
                    argterms = [a for a in argterms if not (is_mode_term(a) and a[-1] == "fully_obs")]
                if leaf in ("__init__",) or leaf in ("NASimEnv", "NASimGymEnv"):
                    argterms = [a for a in argterms if not is_mode_term(a)]   # r0 forwarding
                if mc and not (is_pres and all(pure_mode_cond(c) for c in mc)):
                    what = f"call of {fname} happens only for some modes"
                elif any(m(a) for a in argterms):
                    what = f"an argument of {fname} depends on a mode"
            elif mc:
                what = f"{ev.kind} happens only for some modes"
            if what:
                bad.append(f"{what} ({ev.loc})")
        chk.ob("C12.roles", f"{fi.qualname}: the {len(loads)} read(s) of mode fields reach only "
               "presentation (r0 recorded/forwarded to a constructor, r1 the fully_obs argument of "
               "get_(initial_)observation, r2 the choice numpy_flat()/numpy() or "
               "shape_flat()/shape(), r3 the choice of action-space class, r4 string formatting)",
               not bad, "; ".join(sorted(set(bad))[:4]), f"{fi.module.path}:{fi.node.lineno}")
    chk.floor("C12.roles", n_env, 4, "loads of mode fields in environment.py")


def run(ctx, chk):
    chk.explanation = EXPLANATION
    n_env = 0
    n_dyn = 0
    for m in ctx.repo.modules.values():
        if not (m.name.startswith("nasim.envs") or m.name.startswith("nasim.scenarios")):
            continue
        parents = {}
        for n in ast.walk(m.tree):
            for c in ast.iter_child_nodes(n):
                parents[c] = n
        for n in ast.walk(m.tree):
            if isinstance(n, ast.Attribute) and n.attr in MODES and isinstance(n.ctx, ast.Load):
                fn = n
                while fn is not None and not isinstance(fn, ast.FunctionDef):
                    fn = parents.get(fn)
                fname = fn.name if fn is not None else "<module>"
                is_env = m.name in ("nasim.envs.environment", "nasim.envs.gym_env")
                if not is_env:
                    n_dyn += 1
                    chk.violation("C12.no-mode-in-dynamics",
                                  f"{m.name}:{fname} reads mode field {n.attr}",
                                  "the transition/scenario code must not depend on a presentation "
                                  "mode", f"{m.path}:{n.lineno}")
                    continue
                n_env += 1
    check_roles(ctx, chk)
    chk.ob("C12.no-mode-in-dynamics", "no load of a mode field outside environment.py/gym_env.py",
           n_dyn == 0, f"{n_dyn} load(s)", "nasim/envs, nasim/scenarios")
    # parameter named like the mode inside State: only get_observation / get_initial_observation
    for m in ctx.repo.modules.values():
        if not (m.name.startswith("nasim.envs") or m.name.startswith("nasim.scenarios")):
            continue
        for n in ast.walk(m.tree):
            if isinstance(n, ast.FunctionDef):
                ps = [a.arg for a in n.args.args + n.args.kwonlyargs]
                for p in ps:
                    if p in MODES and not (
                            m.name in ("nasim.envs.environment", "nasim.envs.gym_env")
                            or (m.name == "nasim.envs.state" and p == "fully_obs"
                                and n.name in ("get_observation", "get_initial_observation"))
                            or (m.name == "nasim" or m.name == "nasim.envs")):
                        chk.violation("C12.no-mode-in-dynamics",
                                      f"{m.name}:{n.name} takes a mode parameter {p}",
                                      "a mode flag reaches code outside the presentation layer",
                                      f"{m.path}:{n.lineno}")
    # ---- term-level flow
    d = envfacts.gstep_deep(ctx)
    cn = d.cn
    names = ["next state", "observation", "reward", "terminal flag", "info"]
    for pc, t in d.returns:
        bad_pc = [c for c in pc if mentions(c, is_mode_attr)]
        if t[0] == "tuple" and len(t[1]) == 5:
            for i, x in enumerate(t[1]):
                if i == 1:
                    continue
                x2 = x
                if x2[0] in ("new", "dictobj"):
                    x2 = deref(d.ip, x2)
                okm = not mentions(x2, is_mode_attr)
                chk.ob("C12.flow", f"generative_step: returned {names[i]} does not mention a mode "
                       "field", okm, "" if okm else cn.show(x)[:200], d.fi.module.path,
                       nontrivial=False)
        chk.ob("C12.flow", "generative_step: path condition of the return does not mention a mode "
               "field", not bad_pc, "; ".join(cn.show(c)[:100] for c in bad_pc),
               d.fi.module.path, nontrivial=False)
    nstores = 0
    for ef in d.stores():
        if not isinstance(ef.root, tuple):
            continue
        kind, desc, site = classify_root(cn, ef.root)
        if desc.startswith("copy(") and "state" in desc:
            nstores += 1
            bad = mentions(ef.value, is_mode_attr) or any(mentions(c, is_mode_attr)
                                                           for c in ef.ev.pc)
            chk.ob("C12.flow", f"store into the next state ({desc}.{ef.fam}) is independent of the "
                   "modes", not bad,
                   f"condition {f_show(cn.conj(ef.ev.pc))[:200]}" if bad else "", ef.ev.loc,
                   nontrivial=False)
    chk.floor("C12.flow", nstores, 1, "stores into the next state")
    s = envfacts.step_shallow(ctx)
    if len(s.returns) == 1 and s.returns[0][1][0] == "tuple" and len(s.returns[0][1][1]) == 5:
        t = s.returns[0][1]
        for i, nm in ((1, "reward"), (2, "terminal flag"), (3, "step-limit flag"), (4, "info")):
            okm = not mentions(t[1][i], is_mode_attr)
            chk.ob("C12.flow", f"step: returned {nm} does not mention a mode field",
                   okm, "" if okm else s.show(t[1][i])[:200], s.fi.module.path)
    for ef in s.stores():
        if ef.kind == "attr":
            bad = mentions(ef.value, is_mode_attr) or any(mentions(c, is_mode_attr)
                                                           for c in ef.ev.pc)
            chk.ob("C12.flow", f"step: store self.{ef.fam} is independent of the modes", not bad,
                   s.show(ef.value)[:200] if bad else "", ef.ev.loc)
    # ---- fully_obs inside State only guards writes to the fresh observation
    bad = []
    n = 0
    for K in ctx.action_classes:
        of = ObsFacts(ctx, K)
        for e in of.effects:
            if isinstance(e.root, tuple):
                n += 1
                kind, desc, site = classify_root(of.cn, e.root)
                if kind != "FRESH":
                    bad.append(f"{K}: {kind} {desc}.{e.fam} at {e.ev.loc}")
            elif e.kind == "attr":
                bad.append(f"{K}: attribute {e.root}.{e.fam} at {e.ev.loc}")
    chk.floor("C12.obs-confined", n, 10, "stores in get_observation")
    chk.ob("C12.obs-confined", "State.get_observation writes only into the fresh Observation",
           not bad, "; ".join(bad[:5]), "nasim/envs/state.py")
    chk.assume("that two different encodings of 'the same action' decode to equal Action objects "
               "is C11(c); the decoded action is the only channel from flat_actions to the dynamics")


def deref(ip, t, depth=0):
    """expand heap objects into plain terms for 'mentions' queries"""
    if depth > 4:
        return t
    if t[0] == "new":
        h = ip.heap[t[2]]
        return ("obj*", t[1], tuple((k, deref(ip, v, depth + 1)) for k, v in h["fields"].items()))
    if t[0] == "dictobj":
        h = ip.heap[t[1]]
        return ("dict*", tuple((k, deref(ip, v, depth + 1)) for k, v in h["items"].items()),
                tuple((deref(ip, k, depth + 1), deref(ip, v, depth + 1)) for k, v, _ in h["dyn"]
                      if isinstance(v, tuple) and isinstance(k, tuple)))
    if isinstance(t, tuple):
        return tuple(deref(ip, x, depth + 1) if isinstance(x, tuple) and x and
                     isinstance(x[0], str) and x[0] in ("new", "dictobj") else x for x in t)
    return t
