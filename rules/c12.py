"""C12 - observation and action modes do not change the dynamics (non-interference).

  C12.roles       every load of a mode field (fully_obs, flat_obs, flat_actions) in nasim/envs and
                  nasim/scenarios is in a presentation role: r0 initial store / forwarding to a
                  constructor, r1 the fully_obs argument of get_(initial_)observation, r2 the test of
                  an `if` that only chooses numpy_flat()/numpy() or shape_flat()/shape(), r3 the test
                  choosing the action-space class, r4 string formatting
  C12.no-mode-in-dynamics  Network, HostVector, Action*, Scenario*, loader and generator never read a
                  mode field (count 0; the scan itself is validated by a floor on environment.py)
  C12.flow        in the inlined call tree of generative_step, neither the returned next state,
                  reward, terminal flag, info, any path condition, nor any store into the next state
                  mentions a mode field; in step(), reward/done/limit/info and the stored state do not
  C12.obs-confined  inside State the fully_obs parameter only guards stores into the fresh Observation
"""
import ast

from sa.canon import f_show
from sa.ctx import classify_root, ENV_MOD
from . import envfacts
from .c08 import ObsFacts

EXPLANATION = (
    "Flow rule over the three mode fields: AST classification of every load site by syntactic "
    "role, plus a term-level 'mentions' analysis on the abstract interpretation of "
    "generative_step (whole call tree inlined), step and get_observation.")

MODES = ("fully_obs", "flat_obs", "flat_actions")
PRESENT_PAIRS = ({"numpy_flat", "numpy"}, {"shape_flat", "shape"})


_MEMO = {}


def mentions(t, pred):
    if not isinstance(t, tuple):
        return False
    k = id(t)
    r = _MEMO.get(k)
    if r is not None and r[0] is t:
        return r[1]
    if pred(t):
        res = True
    else:
        res = any(mentions(x, pred) for x in t if isinstance(x, tuple))
    _MEMO[k] = (t, res)
    return res


def is_mode_attr(t):
    return len(t) == 3 and t[0] == "attr" and t[2] in MODES


def role_of(load, parents, ctx_mod):
    """classify one ast.Attribute load of a mode field"""
    p = parents.get(load)
    # r4 string formatting
    q = p
    while q is not None:
        if isinstance(q, ast.JoinedStr):
            return "r4"
        q = parents.get(q)
    # r1 argument of get_(initial_)observation ; r0 forwarded to a constructor / super().__init__
    if isinstance(p, ast.Call) or isinstance(p, ast.keyword):
        call = p if isinstance(p, ast.Call) else parents.get(p)
        if isinstance(call, ast.Call):
            f = call.func
            name = f.attr if isinstance(f, ast.Attribute) else getattr(f, "id", "")
            if name in ("get_observation", "get_initial_observation"):
                return "r1" if load.attr == "fully_obs" else None
            if name in ("__init__", "NASimEnv", "NASimGymEnv"):
                return "r0"
    # r2 / r3: test of an if
    if isinstance(p, ast.If) and p.test is load:
        arms = [p.body, p.orelse]
        if all(len(a) == 1 and isinstance(a[0], ast.Assign) and isinstance(a[0].value, ast.Call)
               for a in arms):
            fns = []
            for a in arms:
                f = a[0].value.func
                fns.append(f.attr if isinstance(f, ast.Attribute) else getattr(f, "id", "?"))
            same_target = ast.unparse(arms[0][0].targets[0]) == ast.unparse(arms[1][0].targets[0])
            if same_target and load.attr == "flat_obs" and set(fns) in PRESENT_PAIRS:
                return "r2"
            if same_target and load.attr == "flat_actions" and \
                    set(fns) == {"FlatActionSpace", "ParameterisedActionSpace"}:
                return "r3"
    return None


def run(ctx, chk):
    chk.explanation = EXPLANATION
    n_env = 0
    n_dyn = 0
    for m in ctx.repo.modules.values():
        if not (m.name.startswith("nasim.envs") or m.name.startswith("nasim.scenarios")):
            continue
        parents = {}
        for n in ast.walk(m.tree):
            for c in ast.iter_child_nodes(n):
                parents[c] = n
        for n in ast.walk(m.tree):
            if isinstance(n, ast.Attribute) and n.attr in MODES and isinstance(n.ctx, ast.Load):
                fn = n
                while fn is not None and not isinstance(fn, ast.FunctionDef):
                    fn = parents.get(fn)
                fname = fn.name if fn is not None else "<module>"
                is_env = m.name in ("nasim.envs.environment", "nasim.envs.gym_env")
                if not is_env:
                    n_dyn += 1
                    chk.violation("C12.no-mode-in-dynamics",
                                  f"{m.name}:{fname} reads mode field {n.attr}",
                                  "the transition/scenario code must not depend on a presentation "
                                  "mode", f"{m.path}:{n.lineno}")
                    continue
                n_env += 1
                role = role_of(n, parents, m)
                chk.ob("C12.roles", f"{fname}: load of {n.attr} is in presentation role "
                       f"{role or '?'}", role is not None,
                       "" if role else "the load is not (r0) a constructor argument, (r1) the "
                       "fully_obs argument of get_(initial_)observation, (r2) an if choosing "
                       "numpy_flat()/numpy() or shape_flat()/shape(), (r3) the if choosing the "
                       "action-space class or (r4) string formatting",
                       f"{m.path}:{n.lineno}", nontrivial=False)
    chk.floor("C12.roles", n_env, 4, "loads of mode fields in environment.py")
    chk.ob("C12.no-mode-in-dynamics", "no load of a mode field outside environment.py/gym_env.py",
           n_dyn == 0, f"{n_dyn} load(s)", "nasim/envs, nasim/scenarios")
    # parameter named like the mode inside State: only get_observation / get_initial_observation
    for m in ctx.repo.modules.values():
        if not (m.name.startswith("nasim.envs") or m.name.startswith("nasim.scenarios")):
            continue
        for n in ast.walk(m.tree):
            if isinstance(n, ast.FunctionDef):
                ps = [a.arg for a in n.args.args + n.args.kwonlyargs]
                for p in ps:
                    if p in MODES and not (
                            m.name in ("nasim.envs.environment", "nasim.envs.gym_env")
                            or (m.name == "nasim.envs.state" and p == "fully_obs"
                                and n.name in ("get_observation", "get_initial_observation"))
                            or (m.name == "nasim" or m.name == "nasim.envs")):
                        chk.violation("C12.no-mode-in-dynamics",
                                      f"{m.name}:{n.name} takes a mode parameter {p}",
                                      "a mode flag reaches code outside the presentation layer",
                                      f"{m.path}:{n.lineno}")
    # ---- term-level flow
    d = envfacts.gstep_deep(ctx)
    cn = d.cn
    names = ["next state", "observation", "reward", "terminal flag", "info"]
    for pc, t in d.returns:
        bad_pc = [c for c in pc if mentions(c, is_mode_attr)]
        if t[0] == "tuple" and len(t[1]) == 5:
            for i, x in enumerate(t[1]):
                if i == 1:
                    continue
                x2 = x
                if x2[0] in ("new", "dictobj"):
                    x2 = deref(d.ip, x2)
                okm = not mentions(x2, is_mode_attr)
                chk.ob("C12.flow", f"generative_step: returned {names[i]} does not mention a mode "
                       "field", okm, "" if okm else cn.show(x)[:200], d.fi.module.path,
                       nontrivial=False)
        chk.ob("C12.flow", "generative_step: path condition of the return does not mention a mode "
               "field", not bad_pc, "; ".join(cn.show(c)[:100] for c in bad_pc),
               d.fi.module.path, nontrivial=False)
    nstores = 0
    for ef in d.stores():
        if not isinstance(ef.root, tuple):
            continue
        kind, desc, site = classify_root(cn, ef.root)
        if desc.startswith("copy(") and "state" in desc:
            nstores += 1
            bad = mentions(ef.value, is_mode_attr) or any(mentions(c, is_mode_attr)
                                                           for c in ef.ev.pc)
            chk.ob("C12.flow", f"store into the next state ({desc}.{ef.fam}) is independent of the "
                   "modes", not bad,
                   f"condition {f_show(cn.conj(ef.ev.pc))[:200]}" if bad else "", ef.ev.loc,
                   nontrivial=False)
    chk.floor("C12.flow", nstores, 1, "stores into the next state")
    s = envfacts.step_shallow(ctx)
    if len(s.returns) == 1 and s.returns[0][1][0] == "tuple" and len(s.returns[0][1][1]) == 5:
        t = s.returns[0][1]
        for i, nm in ((1, "reward"), (2, "terminal flag"), (3, "step-limit flag"), (4, "info")):
            okm = not mentions(t[1][i], is_mode_attr)
            chk.ob("C12.flow", f"step: returned {nm} does not mention a mode field",
                   okm, "" if okm else s.show(t[1][i])[:200], s.fi.module.path)
    for ef in s.stores():
        if ef.kind == "attr":
            bad = mentions(ef.value, is_mode_attr) or any(mentions(c, is_mode_attr)
                                                           for c in ef.ev.pc)
            chk.ob("C12.flow", f"step: store self.{ef.fam} is independent of the modes", not bad,
                   s.show(ef.value)[:200] if bad else "", ef.ev.loc)
    # ---- fully_obs inside State only guards writes to the fresh observation
    bad = []
    n = 0
    for K in ctx.action_classes:
        of = ObsFacts(ctx, K)
        for e in of.effects:
            if isinstance(e.root, tuple):
                n += 1
                kind, desc, site = classify_root(of.cn, e.root)
                if kind != "FRESH":
                    bad.append(f"{K}: {kind} {desc}.{e.fam} at {e.ev.loc}")
            elif e.kind == "attr":
                bad.append(f"{K}: attribute {e.root}.{e.fam} at {e.ev.loc}")
    chk.floor("C12.obs-confined", n, 10, "stores in get_observation")
    chk.ob("C12.obs-confined", "State.get_observation writes only into the fresh Observation",
           not bad, "; ".join(bad[:5]), "nasim/envs/state.py")
    chk.assume("that two different encodings of 'the same action' decode to equal Action objects "
               "is C11(c); the decoded action is the only channel from flat_actions to the dynamics")


def deref(ip, t, depth=0):
    """expand heap objects into plain terms for 'mentions' queries"""
    if depth > 4:
        return t
    if t[0] == "new":
        h = ip.heap[t[2]]
        return ("obj*", t[1], tuple((k, deref(ip, v, depth + 1)) for k, v in h["fields"].items()))
    if t[0] == "dictobj":
        h = ip.heap[t[1]]
        return ("dict*", tuple((k, deref(ip, v, depth + 1)) for k, v in h["items"].items()),
                tuple((deref(ip, k, depth + 1), deref(ip, v, depth + 1)) for k, v, _ in h["dyn"]
                      if isinstance(v, tuple) and isinstance(k, tuple)))
    if isinstance(t, tuple):
        return tuple(deref(ip, x, depth + 1) if isinstance(x, tuple) and x and
                     isinstance(x[0], str) and x[0] in ("new", "dictobj") else x for x in t)
    return t
