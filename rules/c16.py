"""C16 - generated and shipped scenarios are solvable (claimed for the construction's structure and
the shipped files; replaying a plan on the environment is declined).

  C16.phases       generate(): hosts -> _ensure_host_vulnerability -> _generate_firewall ->
                   _construct_scenario, with exploits / escalations / sensitive hosts defined before;
                   nothing after _ensure_host_vulnerability stores into host configurations or the
                   definition tables
  C16.coverage     _ensure_host_vulnerability: every sensitive host is vulnerable at ROOT or patched at
                   ROOT; every non-internet subnet without a vulnerable host gets one patched;
                   _update_host_to_vulnerable returns only after making the host vulnerable (exploit
                   with enough access, or exploit + OS-compatible escalation with the OS fixed) and
                   raises otherwise; _host_is_vulnerable is the matching predicate
  C16.escalation-per-os  os_choices exits only with None in it or every declared OS in it; the short
                   branch starts with None
  C16.firewall     the per-subnet service set is filled under _host_is_vulnerable_to_exploit; every
                   cross-zone rule is that whole set or a set containing a draw from it
  C16.shipped      for each shipped YAML, parsed as data: least fixpoint of the strict attack relation
                   reaches ROOT on every sensitive host
"""
import ast
import glob
import os

from sa.canon import Canon, f_show, f_equiv, f_implies, A, f_and, f_or, f_not
from sa.interp import Interp, C
from sa.model import REPO
from .c15 import method_run, GEN_MOD
from . import yamlfix

EXPLANATION = (
    "Typestate of ScenarioGenerator.generate (ordered phase calls, who-may-write after the "
    "vulnerability phase), abstract interpretation of the vulnerability helpers (exit "
    "classification, quantified predicate), and a data-file fixpoint over the nine shipped YAML "
    "scenarios under the strict gate semantics required of the code by C01/C02.")

PHASES = ["_generate_exploits", "_generate_privescs", "_generate_sensitive_hosts",
          "HOSTS", "_ensure_host_vulnerability", "_generate_firewall", "_construct_scenario"]


def run(ctx, chk):
    chk.explanation = EXPLANATION
    G = f"{GEN_MOD}:ScenarioGenerator."
    helpers = ["_generate_subnets", "_generate_topology", "_generate_address_space_bounds",
               "_generate_os", "_generate_services", "_generate_processes", "_generate_exploits",
               "_generate_privescs", "_generate_sensitive_hosts", "_generate_uniform_hosts",
               "_generate_correlated_hosts", "_ensure_host_vulnerability", "_generate_firewall",
               "_construct_scenario"]
    fi, ip, s, cn = method_run(ctx, "generate", no_inline=helpers)
    calls = [(ev.data["fname"].split(".")[-1], ev) for ev in s.events if ev.kind == "call"
             and ev.data["fname"].startswith(G)]
    order = []
    for name, ev in calls:
        order.append("HOSTS" if name in ("_generate_uniform_hosts", "_generate_correlated_hosts")
                     else name)
    seq = [p for p in order if p in PHASES]
    dedup = [p for i, p in enumerate(seq) if i == 0 or seq[i - 1] != p]
    chk.ob("C16.phases", "generate: exploits, escalations, sensitive hosts -> hosts -> "
           "_ensure_host_vulnerability -> _generate_firewall -> _construct_scenario",
           dedup == PHASES, f"phase order {dedup}", fi.module.path)
    cond_bad = [name for name, ev in calls
                if name in ("_ensure_host_vulnerability", "_generate_firewall",
                            "_construct_scenario")
                and [c for c in ev.pc if c[0] not in ("fact",)]]
    chk.ob("C16.phases", "the vulnerability, firewall and construction phases are unconditional",
           not cond_bad, str(cond_bad), fi.module.path)
    hosts_calls = [(n, ev) for n, ev in calls if n in ("_generate_uniform_hosts",
                                                       "_generate_correlated_hosts")]
    ok = len(hosts_calls) == 2
    if ok:
        c0 = cn.conj(tuple(c for c in hosts_calls[0][1].pc if c[0] != "fact"))
        c1 = cn.conj(tuple(c for c in hosts_calls[1][1].pc if c[0] != "fact"))
        ok = f_equiv(c0, f_not(c1))
    chk.ob("C16.phases", "hosts are created on every path (uniform or correlated)", ok, "",
           fi.module.path)
    # nothing after the vulnerability phase undoes it
    for meth in ("_generate_firewall", "_construct_scenario"):
        f2, ip2, s2, cn2 = method_run(ctx, meth)
        bad = []
        for ev in s2.events:
            if ev.kind != "store":
                continue
            if ev.data["target"] == "attr" and ev.data["name"] in (
                    "exploits", "privescs", "sensitive_hosts", "hosts", "os", "services",
                    "processes") and not ev.data.get("fresh"):
                bad.append(f"self.{ev.data['name']} at {ev.loc}")
            if ev.data["target"] == "sub":
                t = cn2.norm(ev.data["base"])
                if t[0] == "attr" and t[2] in ("services", "processes", "os") \
                        and cn2.show(t[1]) != "G":
                    bad.append(f"{cn2.show(t)[:60]}[...] at {ev.loc}")
                if t[0] == "attr" and cn2.show(t[1]) == "G" and t[2] in (
                        "exploits", "privescs", "sensitive_hosts", "hosts"):
                    bad.append(f"{cn2.show(t)}[...] at {ev.loc}")
        chk.ob("C16.phases", f"{meth} (after the vulnerability phase) stores into no host "
               "configuration and no definition table", not bad, "; ".join(bad), f2.module.path)
    check_coverage(ctx, chk)
    check_patching(ctx, chk)
    check_own_config(ctx, chk)
    check_os_choices(ctx, chk)
    check_firewall(ctx, chk)
    check_shipped(ctx, chk)
    chk.assume("NOT decided (declined): for generated scenarios the argument is over the "
               "construction, not over each seed's output; 'replaying the plan on the real "
               "environment ends with the terminal flag' is a run-time observation")
    chk.assume("strict semantics only removes attacker options: solvable under the strict model "
               "implies solvable under any laxer gate semantics")


def check_coverage(ctx, chk):
    fi, ip, s, cn = method_run(ctx, "_ensure_host_vulnerability", no_inline=(
        "_host_is_vulnerable", "_update_host_to_vulnerable"))
    G = f"{GEN_MOD}:ScenarioGenerator."
    upd = [ev for ev in s.events if ev.kind == "call"
           and ev.data["fname"] == G + "_update_host_to_vulnerable"]
    HK, HV = "each(G.hosts)", "G.hosts[each(G.hosts)]"
    SENS = f"{HK} in G.sensitive_hosts"     # (a helper that says so is inlined)
    VUL2 = f"{G}_host_is_vulnerable(G, {HV}, 2)"
    sens_upd = [ev for ev in upd if len(ev.data["args"]) >= 3 and ev.data["args"][2] == C(2)]
    ok = len(sens_upd) == 1
    detail = f"{len(sens_upd)} ROOT patch call(s)"
    if ok:
        ev = sens_upd[0]
        loops = [cn.show(ip.loops[c[1]]["iter"]) for c in ev.pc if c[0] == "inloop"]
        F = cn.conj(tuple(c for c in ev.pc if c[0] not in ("inloop", "fact")))
        want = f_and([A(SENS), f_not(A(VUL2))])
        ok = loops == ["G.hosts"] and f_equiv(F, want) and \
            cn.show(ev.data["args"][1]) == HV
        detail = f"called under {f_show(F)[:300]} in loops {loops}"
    chk.ob("C16.coverage", "every sensitive host that is not vulnerable at ROOT is patched at ROOT "
           "(loop over all hosts)", ok, detail, fi.module.path)
    sub_upd = [ev for ev in upd if ev not in sens_upd]
    ok = len(sub_upd) == 1
    detail = f"{len(sub_upd)} subnet patch call(s)"
    if ok:
        ev = sub_upd[0]
        loops = [cn.show(ip.loops[c[1]]["iter"]) for c in ev.pc if c[0] == "inloop"]
        Ff = cn.conj(tuple(c for c in ev.pc if c[0] not in ("inloop", "fact")))
        F = f_show(Ff)
        E = "each(enumerate(G.subnets))"
        arg = cn.show(ev.data["args"][1])
        # exactly: not the internet, and not in the set of subnets known vulnerable
        from sa.canon import f_atoms
        mem = [a for a in f_atoms(Ff) if a.startswith(f"{E}[0] in ")]
        ok = loops == ["enumerate(G.subnets)"] and len(mem) == 1 and \
            f_equiv(Ff, f_and([f_not(A(f"0=={E}[0]")), f_not(A(mem[0]))])) and \
            arg == f"G.hosts[({E}[0], np.random.randint({E}[1]))]"
        detail = f"patches {arg} under {F[:200]} in loops {loops}"
    chk.ob("C16.coverage", "every non-internet subnet not yet known vulnerable gets one of its hosts "
           "patched (loop over all subnets)", ok, detail, fi.module.path)
    # what is recorded as "this subnet has a vulnerable host": the subnet component of the address
    # of the host at hand (first pass) / the subnet being patched (second pass) - nothing else
    adds = [ev for ev in s.events if ev.kind == "mcall" and ev.data["name"] == "add"
            and ev.data["recv"][0] == "call" and ev.data["recv"][1] == "builtins.set"
            and len(ev.data["args"]) == 1]
    desc_a = ("only the subnet of a host known / made vulnerable is recorded as vulnerable (first "
              "pass: the host's own subnet, second pass: the subnet being patched)")
    if not adds:
        chk.undecided("C16.coverage", desc_a, "no `.add(...)` into a local set found in "
                      "_ensure_host_vulnerability", fi.module.path)
    else:
        bad = []
        for ev in adds:
            loops = [cn.show(ip.loops[c[1]]["iter"]) for c in ev.pc if c[0] == "inloop"]
            arg = cn.show(ev.data["args"][0])
            want_arg = {("G.hosts",): f"{HK}[0]",
                        ("enumerate(G.subnets)",): "each(enumerate(G.subnets))[0]"}.get(tuple(loops))
            if want_arg is None or arg != want_arg:
                bad.append(f"{arg} in loops {loops} at {ev.loc}")
        chk.ob("C16.coverage", desc_a, not bad, "; ".join(bad), fi.module.path)
    # _update_host_to_vulnerable exits
    fi, ip, s, cn = method_run(ctx, "_update_host_to_vulnerable", no_inline=(
        "_update_host_exploit_vulnerability", "_update_host_privesc_vulnerability"))
    ex = [ev for ev in s.events if ev.kind == "call"
          and ev.data["fname"].endswith("_update_host_exploit_vulnerability")]
    pe = [ev for ev in s.events if ev.kind == "call"
          and ev.data["fname"].endswith("_update_host_privesc_vulnerability")]
    rs = [ev for ev in s.events if ev.kind == "raise"]
    # the ways out of the retry loop that are not the final raise: `return` inside the loop, or a
    # `break` (followed by falling off the end; the raise then sits in the loop's else / after a
    # flag test) - compared as one condition, per iteration
    brk = [ev for ev in s.events if ev.kind == "break"]
    exits = [pc for pc, _ in s.returns] + [ev.pc for ev in brk]
    ok = len(ex) == 1 and len(pe) == 1 and len(rs) == 1 and len(exits) >= 1
    detail = f"{len(ex)} exploit patch, {len(pe)} escalation patch, {len(rs)} raise, " \
             f"{len(s.returns)} return(s), {len(brk)} break(s)"
    if ok:
        host, lvl = fi.rparams[1], fi.rparams[2]
        a_ex = [cn.show(a) for a in ex[0].data["args"][1:]]
        a_pe = [cn.show(a) for a in pe[0].data["args"][1:]]
        r_ex = cn.show(ex[0].data["result"])
        r_pe = cn.show(pe[0].data["result"])
        conds = sorted(f_show(cn.conj(tuple(c for c in pc if c[0] not in ("inloop", "fact"))))
                       for pc in exits)
        F_exit = f_or([cn.conj(tuple(c for c in pc if c[0] not in ("inloop", "fact")))
                       for pc in exits])
        low = A(f"{r_ex}[1]['access']<{lvl}")
        want = f_or([f_not(low), f_and([low, A(f"{r_pe}[0]")])])
        # the escalation is attempted only when the exploit's access is not enough
        pe_cond = cn.conj(tuple(c for c in pe[0].pc if c[0] not in ("inloop", "fact")))
        ok = a_ex == [host, "False"] and a_pe == [host, "True"] and bool(f_equiv(F_exit, want)) \
            and pe[0].seq > ex[0].seq and bool(f_equiv(pe_cond, low))
        detail = (f"exploit patch{tuple(a_ex)}, escalation patch{tuple(a_pe)} under "
                  f"{f_show(pe_cond)[:80]}; leaves the loop under {conds}")
    desc = ("_update_host_to_vulnerable returns only once the chosen exploit grants enough access, "
            "or after an OS-compatible escalation was enabled (os_constraint=True, after the OS was "
            "fixed); otherwise it raises")
    if not ex or not pe:
        # the two patching helpers are private: under other names / signatures the rule has nothing
        # to compare the exits with
        chk.undecided("C16.coverage", desc, "the patching helpers _update_host_exploit_vulnerability"
                      " / _update_host_privesc_vulnerability are not called under these names: "
                      + detail, fi.module.path)
    else:
        chk.ob("C16.coverage", desc, ok, detail[:500], fi.module.path)
    # _host_is_vulnerable predicate
    fi, ip, s, cn = method_run(ctx, "_host_is_vulnerable", no_inline=(
        "_host_is_vulnerable_to_exploit", "_host_is_vulnerable_to_privesc"))
    host, lvl = fi.rparams[1], fi.rparams[2]
    G_ = f"{GEN_MOD}:ScenarioGenerator."
    E, P = "G.exploits[each(G.exploits)]", "G.privescs[each(G.privescs)]"
    from .shapes import truth_of_returns
    true_f = truth_of_returns(cn, s.returns)
    vul_e = A(f"{G_}_host_is_vulnerable_to_exploit(G, {host}, {E})")
    vul_p = A(f"{G_}_host_is_vulnerable_to_privesc(G, {host}, {P})")
    want = ("exists", "G.exploits", f_and([
        vul_e, f_or([f_not(A(f"{E}['access']<{lvl}")),
                     ("exists", "G.privescs", vul_p)])]))
    chk.ob("C16.coverage", "_host_is_vulnerable(host, level): some matching exploit with access >= "
           "level, or a matching exploit and a matching escalation", f_equiv(true_f, want),
           f"derived {f_show(true_f)[:400]}", fi.module.path)
    for meth, tab, key in (("_host_is_vulnerable_to_exploit", "services", "service"),
                           ("_host_is_vulnerable_to_privesc", "processes", "process")):
        fi, ip, s, cn = method_run(ctx, meth)
        h, d = fi.rparams[1], fi.rparams[2]
        true_f = f_or([f_and([cn.conj(pc), cn.formula(t)]) for pc, t in s.returns])
        want = f_and([A(f"{h}.{tab}[{d}['{key}']]"),
                      f_or([A(f"None is {d}['os']"), A(f"{h}.os[{d}['os']]")])])
        chk.ob("C16.coverage", f"{meth}: host runs the {key} and (definition OS is None or host "
               "runs it)", f_equiv(true_f, want), f_show(true_f)[:300], fi.module.path)


def check_patching(ctx, chk):
    """what "patch the host" does: the helpers that make a host vulnerable must really leave it
    running the drawn definition's service / process (and OS), the definition must be drawn from
    the ones that can apply, and the sensitive-host test must be membership in sensitive_hosts"""
    G_ = f"{GEN_MOD}:ScenarioGenerator."
    for meth, table, fld, hostattr in (
            ("_update_host_exploit_vulnerability", "exploits", "service", "services"),
            ("_update_host_privesc_vulnerability", "privescs", "process", "processes")):
        what = f"{meth}: "
        try:
            fi, ip, s, cn = method_run(ctx, meth, no_inline=("_update_host_os",))
        except Exception as e:       # anchor renamed: not decided
            chk.undecided("C16.patch", what + "helper found", str(e)[:120])
            continue
        host, oc = fi.rparams[1], fi.rparams[2]
        D = f"G.{table}[each(G.{table})]"
        FILT = f"[{D} for each(G.{table}) if ({D}['os'] is None | {host}.os[{D}['os']])]"
        ALL = f"list(G.{table}.values())"
        draws = [ev for ev in s.events if ev.kind == "call"
                 and ev.data["fname"] == "numpy.random.choice"]
        if len(draws) != 1:
            chk.undecided("C16.patch", what + "one definition is drawn from the applicable ones",
                          f"{len(draws)} np.random.choice call(s); only the single-draw form is "
                          "decoded", fi.module.path)
            continue
        pool = cn.show(draws[0].data["args"][0]) if draws[0].data["args"] else "?"
        want_pool = (f"({oc} ? {FILT} : {ALL})", f"({oc} ? {FILT} : list(G.{table}))")
        chk.ob("C16.patch", what + "the definition is drawn from all definitions, or - when the "
               "host's OS must be kept - from those whose OS is None or the host's",
               pool in want_pool, f"pool {pool[:300]}", draws[0].loc)
        DR = cn.show(draws[0].data["result"])
        sts = [ev for ev in s.events if ev.kind == "store" and ev.data["target"] == "sub"
               and cn.show(ev.data["base"]) == f"{host}.{hostattr}"]
        # "unconditionally": on every path that ends in the success result (True, definition) -
        # an early `return False, None` before the draw is not a path of the store
        succ_pcs = [pc for pc, t in s.returns
                    if t[0] == "tuple" and t[1] and t[1][0] in (C(True), C(1))]
        from sa.canon import f_implies
        ok = len(sts) == 1 and cn.show(sts[0].data["idx"]) == f"{DR}['{fld}']" \
            and sts[0].data["value"] in (C(True), C(1)) \
            and bool(succ_pcs) and all(f_implies(cn.conj(pc), cn.conj(sts[0].pc))
                                       for pc in succ_pcs) \
            and sts[0].seq > draws[0].seq
        chk.ob("C16.patch", what + f"the host is left running the drawn definition's {fld} "
               f"({host}.{hostattr}[drawn['{fld}']] := True, unconditionally)", ok,
               str([(cn.show(e.data['idx'])[:80], cn.show(e.data['value'])) for e in sts]),
               fi.module.path)
        osc = [ev for ev in s.events if ev.kind == "call"
               and ev.data["fname"] == G_ + "_update_host_os"]
        ok = len(osc) == 1
        detail = f"{len(osc)} _update_host_os call(s)"
        if ok:
            F = cn.conj(tuple(c for c in osc[0].pc if c[0] not in ("fact", "inloop")))
            want = f_and([f_not(A(f"None is {DR}['os']")), f_not(A(oc))])
            args = [cn.show(a) for a in osc[0].data["args"]]
            # (relative to the draw having taken place: the early "nothing applicable" exit is
            # not part of the condition)
            Fd = cn.conj(tuple(c for c in draws[0].pc if c[0] not in ("fact", "inloop")))
            ok = (f_equiv(F, want) or f_equiv(F, f_and([Fd, want]))) \
                and args[-2:] == [host, f"{DR}['os']"]
            detail = f"_update_host_os({', '.join(a[:60] for a in args)}) under {f_show(F)[:200]}"
        chk.ob("C16.patch", what + "unless the OS must be kept, the host is switched to the drawn "
               "definition's OS when it names one", ok, detail, fi.module.path)
        rets = {(f_show(cn.conj(tuple(c for c in pc if c[0] != "fact"))), cn.show(t))
                for pc, t in s.returns}
        succ = [r for r in rets if r[1] == f"(True, {DR})"]
        chk.ob("C16.patch", what + "reports success together with the drawn definition",
               len(succ) == 1 and all(r[1] in (f"(True, {DR})", "(False, None)") for r in rets),
               str(sorted(rets))[:300], fi.module.path, nontrivial=False)
    # _update_host_os: exactly the given OS afterwards
    try:
        fi, ip, s, cn = method_run(ctx, "_update_host_os")
        host, osn = fi.rparams[1], fi.rparams[2]
        sts = [ev for ev in s.events if ev.kind == "store" and ev.data["target"] == "sub"
               and cn.show(ev.data["base"]) == f"{host}.os"]
        clear = [ev for ev in sts if ev.data["value"] in (C(False), C(0))
                 and cn.show(ev.data["idx"]) == f"each({host}.os)"
                 and not [c for c in ev.pc if c[0] not in ("fact", "inloop")]]
        setv = [ev for ev in sts if ev.data["value"] in (C(True), C(1))
                and cn.show(ev.data["idx"]) == osn
                and not [c for c in ev.pc if c[0] != "fact"]]
        ok = len(clear) == 1 and len(setv) == 1 and len(sts) == 2 and clear[0].seq < setv[0].seq
        chk.ob("C16.patch", "_update_host_os: every OS flag is cleared, then exactly the given OS is "
               "set (the host keeps exactly one OS)", ok,
               str([(cn.show(e.data['idx']), cn.show(e.data['value'])) for e in sts]),
               fi.module.path)
    except Exception as e:
        chk.undecided("C16.patch", "_update_host_os: helper found", str(e)[:120])
    try:
        fi, ip, s, cn = method_run(ctx, "_is_sensitive_host")
        txt = [cn.show(t) for _, t in s.returns]
        chk.ob("C16.patch", "_is_sensitive_host(addr) = addr in sensitive_hosts",
               txt == [f"{fi.rparams[1]} in G.sensitive_hosts"], str(txt), fi.module.path)
    except Exception as e:
        chk.undecided("C16.patch", "_is_sensitive_host: helper found", str(e)[:120])


def check_own_config(ctx, chk):
    """the vulnerability phase patches a host's os/services/processes dicts *in place*; that only
    affects the intended host if every Host owns its own dict objects: each dict handed to Host(...)
    must be a fresh copy / display, or be created inside the loop iteration that builds the host"""
    n = 0
    for meth in ("_generate_uniform_hosts", "_generate_correlated_hosts"):
        fi, ip, s, cn = method_run(ctx, meth, no_inline=("_possible_host_configs",
                                                         "_get_host_config", "_get_host_value"))
        for ev in s.events:
            if ev.kind != "new" or ev.data["cls"] != "Host":
                continue
            host_loops = [c for c in ev.pc if c[0] == "inloop"]
            kw = dict(ev.data["kwargs"])
            for arg in ("os", "services", "processes"):
                t = kw.get(arg)
                n += 1
                fresh, why = owned(ip, cn, t, host_loops)
                chk.ob("C16.own-config", f"{meth}: Host({arg}=...) receives a dict owned by that "
                       "host alone (fresh copy, or built inside the host's loop iteration)", fresh,
                       why, ev.loc)
    chk.floor("C16.own-config", n, 6, "Host configuration arguments")
    # ... and the patching helpers mutate in place (item assignment), which is why ownership matters
    gcls = ctx.repo.cls(GEN_MOD, "ScenarioGenerator")
    inplace = 0
    for name in ("_update_host_exploit_vulnerability", "_update_host_privesc_vulnerability",
                 "_update_host_os"):
        m = gcls.methods.get(name)
        if m is None:
            continue
        for node in ast.walk(m.node):
            if isinstance(node, ast.Subscript) and isinstance(node.ctx, ast.Store) \
                    and isinstance(node.value, ast.Attribute) \
                    and node.value.attr in ("os", "services", "processes"):
                inplace += 1
    chk.extra["inplace_patch_sites"] = inplace


def owned(ip, cn, t, host_loops):
    if t is None:
        return False, "argument missing"
    if t[0] == "mcall" and t[2] == "copy":
        return True, ""
    if t[0] == "call" and t[1] in ("builtins.dict", "copy.copy", "copy.deepcopy"):
        return True, ""
    if t[0] == "comp" and t[1] == "dict":
        return True, ""
    if t[0] == "dictobj":
        pc0 = ip.heap[t[1]].get("pc0", ())
        if all(l in pc0 for l in host_loops) and host_loops:
            return True, ""
        return False, (f"the dict {cn.show(t)[:80]} is created outside the loop iteration that builds "
                       "the host and passed without a copy: all hosts built from it share one object, "
                       "so patching one host's configuration silently changes the others")
    return False, (f"{cn.show(t)[:100]} is not a fresh dict (no copy): hosts may share it, so patching "
                   "one host's configuration in place changes others and can undo established "
                   "vulnerabilities")


def check_os_choices(ctx, chk):
    gcls = ctx.repo.cls(GEN_MOD, "ScenarioGenerator")
    m = gcls.methods["_generate_privescs"]
    ok_short = ok_exit = False
    for n in ast.walk(m.node):
        if isinstance(n, ast.Assign) and isinstance(n.targets[0], ast.Name) \
                and n.targets[0].id == "os_choices" and isinstance(n.value, ast.List):
            ok_short = len(n.value.elts) == 1 and isinstance(n.value.elts[0], ast.Constant) \
                and n.value.elts[0].value is None
        if isinstance(n, ast.While) and isinstance(n.test, ast.Constant) and n.test.value is True:
            for x in ast.walk(n):
                if isinstance(x, ast.If) and any(isinstance(b, ast.Break) for b in x.body):
                    t = ast.unparse(x.test).replace("\n", " ")
                    ok_exit = t in (
                        "None in os_choices or all([os in os_choices for os in self.os])",
                        "None in os_choices or all((os in os_choices for os in self.os))")
    # semantic variant through the interpreter: formula of the break condition
    fi, ip, s, cn = method_run(ctx, "_generate_privescs", no_inline=("_get_action_probs",))
    br = [ev for ev in s.events if ev.kind == "break"]
    sem = False
    if len(br) == 1:
        F = cn.conj(tuple(c for c in br[0].pc if c[0] not in ("inloop", "fact")))
        txt = f_show(F)
        # exactly: the list contains None, or every declared OS occurs in it (conditions that
        # only select the branch, e.g. the number of escalations, aside)
        from sa.canon import f_atoms, f_subst
        none_atoms = [a for a in f_atoms(F) if a.startswith("None in ")]
        sem = False
        if len(none_atoms) == 1:
            OC = none_atoms[0][len("None in "):]
            want = f_or([A(f"None in {OC}"),
                         f_not(("exists", "G.os", f_not(A(f"each(G.os) in {OC}"))))])
            branch = [a for a in f_atoms(F) if "num_privesc" in a and "in " not in a]
            F2 = f_subst(F, lambda a: ("true",) if a in branch else None)
            F3 = f_subst(F, lambda a: ("false",) if a in branch else None)
            sem = bool(f_equiv(F2, want) or f_equiv(F3, want))
        ok_exit = sem
    whiles = [n for n in ast.walk(m.node) if isinstance(n, ast.While)
              and isinstance(n.test, ast.Constant) and n.test.value is True]
    if not br or not whiles:
        # the resampling is not written as `while True: ...; if <accept>: break`: the acceptance
        # condition of another loop shape is not extracted
        chk.undecided("C16.escalation-per-os", "os_choices is accepted only if it contains None or "
                      "every declared OS", "no `while True` ... `break` resampling loop found in "
                      "_generate_privescs; other loop shapes are not modelled", m.module.path)
    elif not ok_exit and len(br) == 1 and any(q in f_show(F) for q in ("set(", "issubset",
                                                                         "issuperset")):
        # coverage written as a subset test between sets: `<=` on sets is not the order relation
        # the comparison normal form assumes - not decoded
        chk.undecided("C16.escalation-per-os", "os_choices is accepted only if it contains None or "
                      "every declared OS", "the acceptance test compares sets (subset / superset): "
                      + f_show(F)[:300], m.module.path)
    else:
        chk.ob("C16.escalation-per-os", "os_choices is accepted only if it contains None or every "
               "declared OS", ok_exit, f_show(F)[:300], m.module.path)
    # the short list: some assignment / construction of os_choices starts with a literal None
    starts_none = ok_short
    seen_short = ok_short
    for n in ast.walk(m.node):
        if isinstance(n, ast.Assign) and isinstance(n.targets[0], ast.Name) \
                and n.targets[0].id == "os_choices":
            v = n.value
            while isinstance(v, ast.BinOp) and isinstance(v.op, ast.Add):
                v = v.left
            if isinstance(v, ast.List) and v.elts:
                seen_short = True
                if isinstance(v.elts[0], ast.Constant) and v.elts[0].value is None:
                    starts_none = True
    if not seen_short:
        chk.undecided("C16.escalation-per-os", "with fewer escalations than OSs the list starts "
                      "with None (OS-agnostic escalation)", "no literal-list construction of "
                      "os_choices found", m.module.path)
    else:
        chk.ob("C16.escalation-per-os", "with fewer escalations than OSs the list starts with None "
               "(OS-agnostic escalation)", starts_none, "", m.module.path)


def check_firewall(ctx, chk):
    fi, ip, s, cn = method_run(ctx, "_generate_firewall",
                               no_inline=("_host_is_vulnerable_to_exploit",))
    G_ = f"{GEN_MOD}:ScenarioGenerator."
    # every site that puts a service into the per-subnet table (a local dict of sets), whichever
    # way: table[subnet].add(x) in loops, or table.setdefault(subnet, set()).update(<generator>)
    def into_table(recv):
        r = recv
        if r[0] == "mcall" and r[2] in ("setdefault", "get") and r[1][0] == "dictobj":
            return True
        return r[0] == "sub" and r[1][0] == "dictobj"
    sites = []
    for ev in s.events:
        if ev.kind != "mcall" or not ev.data["args"] or not into_table(ev.data["recv"]):
            continue
        loops = [cn.show(ip.loops[c[1]]["iter"]) for c in ev.pc if c[0] == "inloop"]
        conds = [c for c in ev.pc if c[0] not in ("inloop", "fact")]
        if ev.data["name"] == "add":
            sites.append((ev.data["args"][0], loops, conds, ev))
        elif ev.data["name"] == "update":
            c = ev.data["args"][0]
            if c[0] == "comp" and len(c[2]) == 1:
                sites.append((c[2][0], loops + [cn.show(it) for _, it, _ in c[3]],
                              conds + [x for _, _, cs in c[3] for x in cs], ev))
            else:
                sites.append((c, loops, conds, ev))
    # (the `set()` initialisation sites add nothing)
    sites = [x for x in sites if not (x[0][0] == "call" and x[0][1] == "builtins.set")]
    ok = len(sites) == 1
    detail = f"{len(sites)} site(s) adding to the per-subnet table"
    if ok:
        arg, loops, conds, ev = sites[0]
        Ff = cn.conj(tuple(conds))
        HK, HV, E = "each(G.hosts)", "G.hosts[each(G.hosts)]", "G.exploits[each(G.exploits)]"
        want = A(f"{G_}_host_is_vulnerable_to_exploit(G, {HV}, {E})")
        # ... or the predicate's own definition written out (C16.coverage decides that
        # _host_is_vulnerable_to_exploit is exactly this)
        want_def = f_and([A(f"{HV}.services[{E}['service']]"),
                          f_or([A(" is ".join(sorted(["None", f"{E}['os']"]))),
                                A(f"{HV}.os[{E}['os']]")])])
        recv = cn.show(ev.data["recv"])
        ok = (f_equiv(Ff, want) or f_equiv(Ff, want_def)) and loops == ["G.hosts", "G.exploits"] and \
            cn.show(arg) == f"{E}['service']" and (f"[{HK}[0]]" in recv or f"({HK}[0], " in recv)
        detail = (f"{recv[-60:]} receives {cn.show(arg)[:80]} under {f_show(Ff)[:200]} in loops "
                  f"{loops}")
    if len(sites) != 1:
        chk.undecided("C16.firewall", "subnet_services[subnet] collects the service of every "
                      "exploit some host of the subnet is vulnerable to (all hosts x all exploits)",
                      f"{detail}; only a single collecting site is decoded", fi.module.path)
    else:
        chk.ob("C16.firewall", "subnet_services[subnet] collects the service of every exploit some "
               "host of the subnet is vulnerable to (all hosts x all exploits)", ok, detail,
               fi.module.path)
    # cross-zone branches
    N = "range(len(G.subnets))"
    SRC, DST = f"each({N})", f"each({N})'"
    stores = [ev for ev in s.events if ev.kind == "store" and ev.data["target"] == "sub"
              and cn.show(ev.data["idx"]) == f"({SRC}, {DST})"]
    from .c15 import is_all_services
    cross = [ev for ev in stores if not is_all_services(cn.show(ev.data["value"]))]
    ok = len(cross) == 2
    detail = f"{len(cross)} cross-zone store(s)"
    if ok:
        vals = [cn.show(ev.data["value"]) for ev in cross]
        whole = [v for v in vals if v.endswith("].copy().copy()") or v.endswith("].copy()")]
        # sampling branch: the stored set had a draw from dest_avail added first
        draws = [ev for ev in s.events if ev.kind == "call"
                 and ev.data["fname"] == "numpy.random.choice"]
        first_add = [ev for ev in s.events if ev.kind == "mcall" and ev.data["name"] == "add"
                     and ev.data["args"] and ev.data["args"][0][0] == "call"
                     and ev.data["args"][0][1] == "numpy.random.choice"]
        from_dst = all(f"[{DST}]" in cn.show(d.data["args"][0]) for d in draws)
        ok = len(whole) == 1 and len(first_add) >= 1 and from_dst and len(draws) >= 1
        detail = f"values {[v[-50:] for v in vals]}; draws from the destination's set: {from_dst}"
    if len(cross) != 2:
        chk.undecided("C16.firewall", "every cross-zone rule is the destination subnet's whole "
                      "vulnerable-service set, or a set holding a draw from it",
                      f"{detail}; only the form with one store per branch is decoded",
                      fi.module.path)
    else:
        chk.ob("C16.firewall", "every cross-zone rule is the destination subnet's whole vulnerable-"
               "service set, or a set holding a draw from it", ok, detail, fi.module.path)


def check_shipped(ctx, chk):
    d = os.path.join(ctx.repo.root, "nasim", "scenarios", "benchmark")
    files = sorted(glob.glob(os.path.join(d, "*.yaml")))
    chk.floor("C16.shipped", len(files), 9, "shipped YAML scenarios")
    for f in files:
        name = os.path.basename(f)
        try:
            r = yamlfix.solve(f)
        except Exception as e:
            chk.undecided("C16.shipped", f"{name}: not analysable as data", f"{type(e).__name__}: {e}",
                          f)
            continue
        bad = {str(a): lv for a, lv in r["sensitive"].items() if lv < 2}
        chk.ob("C16.shipped", f"{name}: every sensitive host reaches ROOT in the least fixpoint of "
               "the strict attack relation", r["solvable"],
               f"sensitive hosts stuck below ROOT: {bad}", f"nasim/scenarios/benchmark/{name}")
        chk.sample({"file": name, "hosts": r["hosts"],
                    "plan": [f"{k} {n} on {t} -> level {lv}" for k, n, t, lv in r["plan"]][:12]})
    chk.trusted.append("PyYAML safe_load for the nine data files")
