"""C16 - generated and shipped scenarios are solvable (claimed for the construction's structure and
the shipped files; replaying a plan on the environment is declined).

  C16.phases       generate(): hosts -> _ensure_host_vulnerability -> _generate_firewall ->
                   _construct_scenario, with exploits / escalations / sensitive hosts defined before;
                   nothing after _ensure_host_vulnerability stores into host configurations or the
                   definition tables
  C16.coverage     _ensure_host_vulnerability: every sensitive host is vulnerable at ROOT or patched at
                   ROOT; every non-internet subnet without a vulnerable host gets one patched;
                   _update_host_to_vulnerable returns only after making the host vulnerable (exploit
                   with enough access, or exploit + OS-compatible escalation with the OS fixed) and
                   raises otherwise; _host_is_vulnerable is the matching predicate
  C16.escalation-per-os  os_choices exits only with None in it or every declared OS in it; the short
                   branch starts with None
  C16.firewall     the per-subnet service set is filled under _host_is_vulnerable_to_exploit; every
                   cross-zone rule is that whole set or a set containing a draw from it
  C16.shipped      for each shipped YAML, parsed as data: least fixpoint of the strict attack relation
                   reaches ROOT on every sensitive host
"""
import ast
import glob
import os

from sa.canon import Canon, f_show, f_equiv, f_implies, A, f_and, f_or, f_not
from sa.interp import Interp, C
from sa.model import REPO
from .c15 import method_run, GEN_MOD
from . import yamlfix

EXPLANATION = (
    "Typestate of ScenarioGenerator.generate (ordered phase calls, who-may-write after the "
    "vulnerability phase), abstract interpretation of the vulnerability helpers (exit "
    "classification, quantified predicate), and a data-file fixpoint over the nine shipped YAML "
    "scenarios under the strict gate semantics required of the code by C01/C02.")

PHASES = ["_generate_exploits", "_generate_privescs", "_generate_sensitive_hosts",
          "HOSTS", "_ensure_host_vulnerability", "_generate_firewall", "_construct_scenario"]


def run(ctx, chk):
    chk.explanation = EXPLANATION
    G = f"{GEN_MOD}:ScenarioGenerator."
    helpers = ["_generate_subnets", "_generate_topology", "_generate_address_space_bounds",
               "_generate_os", "_generate_services", "_generate_processes", "_generate_exploits",
               "_generate_privescs", "_generate_sensitive_hosts", "_generate_uniform_hosts",
               "_generate_correlated_hosts", "_ensure_host_vulnerability", "_generate_firewall",
               "_construct_scenario"]
    fi, ip, s, cn = method_run(ctx, "generate", no_inline=helpers)
    calls = [(ev.data["fname"].split(".")[-1], ev) for ev in s.events if ev.kind == "call"
             and ev.data["fname"].startswith(G)]
    order = []
    for name, ev in calls:
        order.append("HOSTS" if name in ("_generate_uniform_hosts", "_generate_correlated_hosts")
                     else name)
    seq = [p for p in order if p in PHASES]
    dedup = [p for i, p in enumerate(seq) if i == 0 or seq[i - 1] != p]
    chk.ob("C16.phases", "generate: exploits, escalations, sensitive hosts -> hosts -> "
           "_ensure_host_vulnerability -> _generate_firewall -> _construct_scenario",
           dedup == PHASES, f"phase order {dedup}", fi.module.path)
    cond_bad = [name for name, ev in calls
                if name in ("_ensure_host_vulnerability", "_generate_firewall",
                            "_construct_scenario")
                and [c for c in ev.pc if c[0] not in ("fact",)]]
    chk.ob("C16.phases", "the vulnerability, firewall and construction phases are unconditional",
           not cond_bad, str(cond_bad), fi.module.path)
    hosts_calls = [(n, ev) for n, ev in calls if n in ("_generate_uniform_hosts",
                                                       "_generate_correlated_hosts")]
    ok = len(hosts_calls) == 2
    if ok:
        c0 = cn.conj(tuple(c for c in hosts_calls[0][1].pc if c[0] != "fact"))
        c1 = cn.conj(tuple(c for c in hosts_calls[1][1].pc if c[0] != "fact"))
        ok = f_equiv(c0, f_not(c1))
    chk.ob("C16.phases", "hosts are created on every path (uniform or correlated)", ok, "",
           fi.module.path)
    # nothing after the vulnerability phase undoes it
    for meth in ("_generate_firewall", "_construct_scenario"):
        f2, ip2, s2, cn2 = method_run(ctx, meth)
        bad = []
        for ev in s2.events:
            if ev.kind != "store":
                continue
            if ev.data["target"] == "attr" and ev.data["name"] in (
                    "exploits", "privescs", "sensitive_hosts", "hosts", "os", "services",
                    "processes") and not ev.data.get("fresh"):
                bad.append(f"self.{ev.data['name']} at {ev.loc}")
            if ev.data["target"] == "sub":
                t = cn2.norm(ev.data["base"])
                if t[0] == "attr" and t[2] in ("services", "processes", "os") \
                        and cn2.show(t[1]) != "G":
                    bad.append(f"{cn2.show(t)[:60]}[...] at {ev.loc}")
                if t[0] == "attr" and cn2.show(t[1]) == "G" and t[2] in (
                        "exploits", "privescs", "sensitive_hosts", "hosts"):
                    bad.append(f"{cn2.show(t)}[...] at {ev.loc}")
        chk.ob("C16.phases", f"{meth} (after the vulnerability phase) stores into no host "
               "configuration and no definition table", not bad, "; ".join(bad), f2.module.path)
    check_coverage(ctx, chk)
    check_patching(ctx, chk)
    check_own_config(ctx, chk)
    check_os_choices(ctx, chk)
    check_firewall(ctx, chk)
    check_shipped(ctx, chk)
    chk.assume("NOT decided (declined): for generated scenarios the argument is over the "
               "construction, not over each seed's output; 'replaying the plan on the real "
               "environment ends with the terminal flag' is a run-time observation")
    chk.assume("strict semantics only removes attacker options: solvable under the strict model "
               "implies solvable under any laxer gate semantics")


def check_coverage(ctx, chk):
    fi, ip, s, cn = method_run(ctx, "_ensure_host_vulnerability", no_inline=(
        "_host_is_vulnerable", "_update_host_to_vulnerable"))
    G = f"{GEN_MOD}:ScenarioGenerator."
    upd = [ev for ev in s.events if ev.kind == "call"
           and ev.data["fname"] == G + "_update_host_to_vulnerable"]
    HK, HV = "each(G.hosts)", "G.hosts[each(G.hosts)]"
    SENS = f"{HK} in G.sensitive_hosts"     # (a helper that says so is inlined)
    VUL2 = f"{G}_host_is_vulnerable(G, {HV}, 2)"
    sens_upd = [ev for ev in upd if len(ev.data["args"]) >= 3 and ev.data["args"][2] == C(2)]
    ok = len(sens_upd) == 1
    detail = f"{len(sens_upd)} ROOT patch call(s)"
    if ok:
        ev = sens_upd[0]
        loops = [cn.show(ip.loops[c[1]]["iter"]) for c in ev.pc if c[0] == "inloop"]
        F = cn.conj(tuple(c for c in ev.pc if c[0] not in ("inloop", "fact")))
        want = f_and([A(SENS), f_not(A(VUL2))])
        ok = loops == ["G.hosts"] and f_equiv(F, want) and \
            cn.show(ev.data["args"][1]) == HV
        detail = f"called under {f_show(F)[:300]} in loops {loops}"
    chk.ob("C16.coverage", "every sensitive host that is not vulnerable at ROOT is patched at ROOT "
           "(loop over all hosts)", ok, detail, fi.module.path)
    sub_upd = [ev for ev in upd if ev not in sens_upd]
    ok = len(sub_upd) == 1
    detail = f"{len(sub_upd)} subnet patch call(s)"
    if ok:
        ev = sub_upd[0]
        loops = [cn.show(ip.loops[c[1]]["iter"]) for c in ev.pc if c[0] == "inloop"]
        Ff = cn.conj(tuple(c for c in ev.pc if c[0] not in ("inloop", "fact")))
        F = f_show(Ff)
        E = "each(enumerate(G.subnets))"
        arg = cn.show(ev.data["args"][1])
        # exactly: not the internet, and not in the set of subnets known vulnerable
        from sa.canon import f_atoms
        mem = [a for a in f_atoms(Ff) if a.startswith(f"{E}[0] in ")]
        ok = loops == ["enumerate(G.subnets)"] and len(mem) == 1 and \
            f_equiv(Ff, f_and([f_not(A(f"0=={E}[0]")), f_not(A(mem[0]))])) and \
            arg == f"G.hosts[({E}[0], np.random.randint({E}[1]))]"
        detail = f"patches {arg} under {F[:200]} in loops {loops}"
    chk.ob("C16.coverage", "every non-internet subnet not yet known vulnerable gets one of its hosts "
           "patched (loop over all subnets)", ok, detail, fi.module.path)
    # what is recorded as "this subnet has a vulnerable host": the subnet component of the address
    # of the host at hand (first pass) / the subnet being patched (second pass) - nothing else
    adds = [ev for ev in s.events if ev.kind == "mcall" and ev.data["name"] == "add"
            and ev.data["recv"][0] == "call" and ev.data["recv"][1] == "builtins.set"
            and len(ev.data["args"]) == 1]
    desc_a = ("only the subnet of a host known / made vulnerable is recorded as vulnerable (first "
              "pass: the host's own subnet, second pass: the subnet being patched)")
    if not adds:
        chk.undecided("C16.coverage", desc_a, "no `.add(...)` into a local set found in "
                      "_ensure_host_vulnerability", fi.module.path)
    else:
        bad = []
        for ev in adds:
            loops = [cn.show(ip.loops[c[1]]["iter"]) for c in ev.pc if c[0] == "inloop"]
            arg = cn.show(ev.data["args"][0])
            want_arg = {("G.hosts",): f"{HK}[0]",
                        ("enumerate(G.subnets)",): "each(enumerate(G.subnets))[0]"}.get(tuple(loops))
            if want_arg is None or arg != want_arg:
                bad.append(f"{arg} in loops {loops} at {ev.loc}")
        chk.ob("C16.coverage", desc_a, not bad, "; ".join(bad), fi.module.path)
    check_patch_one_host(ctx, chk)
    # _host_is_vulnerable predicate
    fi, ip, s, cn = method_run(ctx, "_host_is_vulnerable", no_inline=(
        "_host_is_vulnerable_to_exploit", "_host_is_vulnerable_to_privesc"))
    host, lvl = fi.rparams[1], fi.rparams[2]
    G_ = f"{GEN_MOD}:ScenarioGenerator."
    E, P = "G.exploits[each(G.exploits)]", "G.privescs[each(G.privescs)]"
    from .shapes import truth_of_returns
    true_f = truth_of_returns(cn, s.returns)
    vul_e = A(f"{G_}_host_is_vulnerable_to_exploit(G, {host}, {E})")
    vul_p = A(f"{G_}_host_is_vulnerable_to_privesc(G, {host}, {P})")
    want = ("exists", "G.exploits", f_and([
        vul_e, f_or([f_not(A(f"{E}['access']<{lvl}")),
                     ("exists", "G.privescs", vul_p)])]))
    chk.ob("C16.coverage", "_host_is_vulnerable(host, level): some matching exploit with access >= "
           "level, or a matching exploit and a matching escalation", f_equiv(true_f, want),
           f"derived {f_show(true_f)[:400]}", fi.module.path)
    for meth, tab, key in (("_host_is_vulnerable_to_exploit", "services", "service"),
                           ("_host_is_vulnerable_to_privesc", "processes", "process")):
        fi, ip, s, cn = method_run(ctx, meth)
        true_f = f_or([f_and([cn.conj(pc), cn.formula(t)]) for pc, t in s.returns])
        # (which of the two parameters is the host and which the definition is not an interface:
        # the one whose .services / .os is read is the host)
        ok = False
        for h, d in ((fi.rparams[1], fi.rparams[2]), (fi.rparams[2], fi.rparams[1])):
            want = f_and([A(f"{h}.{tab}[{d}['{key}']]"),
                          f_or([A(f"None is {d}['os']"), A(f"{h}.os[{d}['os']]")])])
            ok = ok or bool(f_equiv(true_f, want))
        chk.ob("C16.coverage", f"{meth}: host runs the {key} and (definition OS is None or host "
               "runs it)", ok, f_show(true_f)[:300], fi.module.path)


def check_patch_one_host(ctx, chk):
    """_update_host_to_vulnerable(host, level), read with its private helpers inlined (their names,
    signatures and return conventions are not part of the rule): per try, an exploit is drawn from
    *all* exploits and the host is made to run its service and OS; the loop is left when that
    exploit gives enough access, or after an escalation was drawn from those the host's (now fixed)
    OS admits and the host was made to run its process; otherwise the method raises"""
    from sa.canon import f_subst
    G_ = f"{GEN_MOD}:ScenarioGenerator."
    fi, ip, s, cn = method_run(ctx, "_update_host_to_vulnerable", no_inline=("_update_host_os",),
                               trace_reads=("os",))
    host, lvl = fi.rparams[1], fi.rparams[2]
    what = "_update_host_to_vulnerable: "
    strip = lambda pc: tuple(c for c in pc if c[0] not in ("inloop", "fact"))     # noqa: E731
    draws = [ev for ev in s.events if ev.kind == "call"
             and ev.data["fname"] == "numpy.random.choice" and ev.data["args"]]
    if len(draws) != 2:
        chk.undecided("C16.patch", what + "one exploit and at most one escalation are drawn per try",
                      f"{len(draws)} np.random.choice call(s); only the two-draw form is decoded",
                      fi.module.path)
        return
    d_e, d_p = draws
    E, P = cn.show(d_e.data["result"]), cn.show(d_p.data["result"])
    DP = "G.privescs[each(G.privescs)]"
    FILT = f"[{DP} for each(G.privescs) if ({DP}['os'] is None | {host}.os[{DP}['os']])]"
    low = A(f"{E}['access']<{lvl}")
    some = A(f"0<len({FILT})")

    def clean(F):
        # a drawn definition is an entry of the table (a dict): `None is <draw>` is false;
        # the truth value of the filtered list is "it has an element"
        return f_subst(F, lambda a: f_or([]) if a in (f"None is {P}", f"None is {E}")
                       else some if a == FILT else None)

    pool_e = cn.show(d_e.data["args"][0])
    if pool_e in ("[G.exploits[each(G.exploits)] for each(G.exploits) if True]",
                  "[G.exploits[each(G.exploits)] for each(G.exploits)]"):
        pool_e = "list(G.exploits.values())"          # the same list, spelt as a comprehension
    chk.ob("C16.patch", what + "the exploit is drawn from all exploits, on every try",
           pool_e in ("list(G.exploits.values())",) and f_equiv(cn.conj(strip(d_e.pc)), f_and([])),
           f"pool {pool_e[:200]} under {f_show(cn.conj(strip(d_e.pc)))[:120]}", d_e.loc)
    pool_p = cn.show(d_p.data["args"][0])
    Fp = clean(cn.conj(strip(d_p.pc)))
    chk.ob("C16.patch", what + "the escalation is drawn - only when the exploit's access is not "
           "enough - from the escalations whose OS is None or the host's",
           pool_p == FILT and bool(f_equiv(Fp, f_and([low, some]))),
           f"pool {pool_p[:300]} under {f_show(Fp)[:200]}", d_p.loc)
    sts = [ev for ev in s.events if ev.kind == "store" and ev.data["target"] == "sub"]
    for tab, key, D, dr in (("services", "service", E, d_e), ("processes", "process", P, d_p)):
        mine = [ev for ev in sts if cn.show(ev.data["base"]) == f"{host}.{tab}"]
        ok = len(mine) == 1 and cn.show(mine[0].data["idx"]) == f"{D}['{key}']" \
            and mine[0].data["value"] in (C(True), C(1)) and mine[0].seq > dr.seq \
            and bool(f_equiv(clean(cn.conj(strip(mine[0].pc))), clean(cn.conj(strip(dr.pc)))))
        chk.ob("C16.patch", what + f"the host is left running the drawn definition's {key} "
               f"({host}.{tab}[drawn['{key}']] := True whenever one was drawn)", ok,
               str([(cn.show(e.data['idx'])[:80], cn.show(e.data['value']),
                     f_show(cn.conj(strip(e.pc)))[:80]) for e in mine]), fi.module.path)
    other = [ev for ev in sts if cn.show(ev.data["base"]).startswith(f"{host}.")
             and cn.show(ev.data["base"]) not in (f"{host}.services", f"{host}.processes",
                                                   f"{host}.os")]
    os_sts = [ev for ev in sts if cn.show(ev.data["base"]) == f"{host}.os"]
    osc = [ev for ev in s.events if ev.kind == "call"
           and ev.data["fname"] == G_ + "_update_host_os"]
    desc_os = what + ("the host is switched to the exploit's OS when it names one - before the "
                      "escalations its OS admits are listed - and its OS is not touched afterwards")
    # the escalations the host's OS admits are listed after the OS was fixed
    reads_os = [ev.seq for ev in s.events if ev.kind == "read"
                and cn.show(ev.data["base"]) == f"{host}.os"
                and "G.privescs[" in cn.show(ev.data["idx"])]
    named = f_not(A(f"None is {E}['os']"))
    switch = None            # (first seq, last seq, condition, detail) of the OS switch
    if len(osc) == 1 and not os_sts and not other:
        args = [cn.show(a) for a in osc[0].data["args"]]
        F = clean(cn.conj(strip(osc[0].pc)))
        if args[-2:] == [host, f"{E}['os']"]:
            switch = (osc[0].seq, osc[0].seq, F)
        detail = f"_update_host_os({', '.join(a[:60] for a in args)}) under {f_show(F)[:200]}"
        if switch is None:
            chk.ob("C16.patch", desc_os, False, detail, fi.module.path)
    elif not osc and not other and os_sts:
        # the switch written in place (or in a helper of another name, inlined here): every OS
        # flag cleared, then the exploit's OS set
        clear = [ev for ev in os_sts if ev.data["value"] in (C(False), C(0))
                 and cn.show(ev.data["idx"]) == f"each({host}.os)"]
        setv = [ev for ev in os_sts if ev.data["value"] in (C(True), C(1))
                and cn.show(ev.data["idx"]) == f"{E}['os']"]
        detail = str([(cn.show(e.data["idx"])[:60], cn.show(e.data["value"]),
                       f_show(clean(cn.conj(strip(e.pc))))[:80]) for e in os_sts])
        if len(clear) == 1 and len(setv) == 1 and len(os_sts) == 2 \
                and clear[0].seq < setv[0].seq \
                and f_equiv(clean(cn.conj(strip(clear[0].pc))), clean(cn.conj(strip(setv[0].pc)))):
            switch = (clear[0].seq, setv[0].seq, clean(cn.conj(strip(setv[0].pc))))
        else:
            chk.undecided("C16.patch", desc_os, "the host's OS flags are written in a form the "
                          "rule does not decode: " + detail, fi.module.path)
    elif not osc and not os_sts and not other:
        chk.ob("C16.patch", desc_os, False, "the host's OS is never switched: an exploit drawn from "
               "all exploits may name an OS the host does not run", fi.module.path)
        detail = ""
    else:
        detail = f"{len(osc)} _update_host_os call(s), {len(os_sts)} store(s) into the host's OS " \
                 f"flags, {len(other)} other store(s) into the host"
        chk.undecided("C16.patch", desc_os, "not decoded: " + detail, fi.module.path)
    if switch is not None:
        first, last, F = switch
        ok = bool(f_equiv(F, named)) and first > d_e.seq and last < d_p.seq \
            and all(q > last for q in reads_os)
        if [q for q in reads_os if q < last]:
            detail += "; the host's OS flags are read before that (a list of OS-compatible " \
                      "escalations computed then describes the host's old OS)"
        chk.ob("C16.patch", desc_os, ok, detail, fi.module.path)
    rs = [ev for ev in s.events if ev.kind == "raise"]
    brk = [ev for ev in s.events if ev.kind == "break"]
    exits = [pc for pc, _ in s.returns] + [ev.pc for ev in brk]
    F_exit = clean(f_or([cn.conj(strip(pc)) for pc in exits]))
    want = f_or([f_not(low), f_and([low, some])])
    chk.ob("C16.coverage", what + "the retry loop is left only once the chosen exploit grants enough "
           "access, or after an OS-compatible escalation was enabled; otherwise the method raises",
           len(rs) == 1 and bool(exits) and bool(f_equiv(F_exit, want)),
           f"{len(rs)} raise(s); leaves the loop under {f_show(F_exit)[:300]}", fi.module.path)


def check_patching(ctx, chk):
    """what "patch the host" does: the helpers that make a host vulnerable must really leave it
    running the drawn definition's service / process (and OS), the definition must be drawn from
    the ones that can apply, and the sensitive-host test must be membership in sensitive_hosts"""
    # _update_host_os: exactly the given OS afterwards
    try:
        fi, ip, s, cn = method_run(ctx, "_update_host_os")
        host, osn = fi.rparams[1], fi.rparams[2]
        if not any(ev.kind == "store" and ev.data["target"] == "sub"
                   and cn.show(ev.data["base"]) == f"{host}.os" for ev in s.events):
            host, osn = osn, host         # (parameter order is not an interface)
        sts = [ev for ev in s.events if ev.kind == "store" and ev.data["target"] == "sub"
               and cn.show(ev.data["base"]) == f"{host}.os"]
        clear = [ev for ev in sts if ev.data["value"] in (C(False), C(0))
                 and cn.show(ev.data["idx"]) == f"each({host}.os)"
                 and not [c for c in ev.pc if c[0] not in ("fact", "inloop")]]
        setv = [ev for ev in sts if ev.data["value"] in (C(True), C(1))
                and cn.show(ev.data["idx"]) == osn
                and not [c for c in ev.pc if c[0] != "fact"]]
        ok = len(clear) == 1 and len(setv) == 1 and len(sts) == 2 and clear[0].seq < setv[0].seq
        chk.ob("C16.patch", "_update_host_os: every OS flag is cleared, then exactly the given OS is "
               "set (the host keeps exactly one OS)", ok,
               str([(cn.show(e.data['idx']), cn.show(e.data['value'])) for e in sts]),
               fi.module.path)
    except Exception as e:
        chk.undecided("C16.patch", "_update_host_os: helper found", str(e)[:120])
    try:
        fi, ip, s, cn = method_run(ctx, "_is_sensitive_host")
        txt = [cn.show(t) for _, t in s.returns]
        chk.ob("C16.patch", "_is_sensitive_host(addr) = addr in sensitive_hosts",
               txt == [f"{fi.rparams[1]} in G.sensitive_hosts"], str(txt), fi.module.path)
    except Exception as e:
        chk.undecided("C16.patch", "_is_sensitive_host: helper found", str(e)[:120])


def check_own_config(ctx, chk):
    """the vulnerability phase patches a host's os/services/processes dicts *in place*; that only
    affects the intended host if every Host owns its own dict objects: each dict handed to Host(...)
    must be a fresh copy / display, or be created inside the loop iteration that builds the host"""
    n = 0
    for meth in ("_generate_uniform_hosts", "_generate_correlated_hosts"):
        fi, ip, s, cn = method_run(ctx, meth, no_inline=("_possible_host_configs",
                                                         "_get_host_config", "_get_host_value"))
        for ev in s.events:
            if ev.kind != "new" or ev.data["cls"] != "Host":
                continue
            host_loops = [c for c in ev.pc if c[0] == "inloop"]
            kw = dict(ev.data["kwargs"])
            for arg in ("os", "services", "processes"):
                t = kw.get(arg)
                n += 1
                fresh, why = owned(ip, cn, t, host_loops)
                chk.ob("C16.own-config", f"{meth}: Host({arg}=...) receives a dict owned by that "
                       "host alone (fresh copy, or built inside the host's loop iteration)", fresh,
                       why, ev.loc)
    chk.floor("C16.own-config", n, 6, "Host configuration arguments")
    # ... and the patching helpers mutate in place (item assignment), which is why ownership matters
    gcls = ctx.repo.cls(GEN_MOD, "ScenarioGenerator")
    inplace = 0
    for name in ("_update_host_exploit_vulnerability", "_update_host_privesc_vulnerability",
                 "_update_host_os"):
        m = gcls.methods.get(name)
        if m is None:
            continue
        for node in ast.walk(m.node):
            if isinstance(node, ast.Subscript) and isinstance(node.ctx, ast.Store) \
                    and isinstance(node.value, ast.Attribute) \
                    and node.value.attr in ("os", "services", "processes"):
                inplace += 1
    chk.extra["inplace_patch_sites"] = inplace


def owned(ip, cn, t, host_loops):
    if t is None:
        return False, "argument missing"
    if t[0] == "mcall" and t[2] == "copy":
        return True, ""
    if t[0] == "call" and t[1] in ("builtins.dict", "copy.copy", "copy.deepcopy"):
        return True, ""
    if t[0] == "comp" and t[1] == "dict":
        return True, ""
    if t[0] == "dictobj":
        pc0 = ip.heap[t[1]].get("pc0", ())
        if all(l in pc0 for l in host_loops) and host_loops:
            return True, ""
        return False, (f"the dict {cn.show(t)[:80]} is created outside the loop iteration that builds "
                       "the host and passed without a copy: all hosts built from it share one object, "
                       "so patching one host's configuration silently changes the others")
    return False, (f"{cn.show(t)[:100]} is not a fresh dict (no copy): hosts may share it, so patching "
                   "one host's configuration in place changes others and can undo established "
                   "vulnerabilities")


def check_os_choices(ctx, chk):
    gcls = ctx.repo.cls(GEN_MOD, "ScenarioGenerator")
    m = gcls.methods["_generate_privescs"]
    ok_short = ok_exit = False
    for n in ast.walk(m.node):
        if isinstance(n, ast.Assign) and isinstance(n.targets[0], ast.Name) \
                and n.targets[0].id == "os_choices" and isinstance(n.value, ast.List):
            ok_short = len(n.value.elts) == 1 and isinstance(n.value.elts[0], ast.Constant) \
                and n.value.elts[0].value is None
        if isinstance(n, ast.While) and isinstance(n.test, ast.Constant) and n.test.value is True:
            for x in ast.walk(n):
                if isinstance(x, ast.If) and any(isinstance(b, ast.Break) for b in x.body):
                    t = ast.unparse(x.test).replace("\n", " ")
                    ok_exit = t in (
                        "None in os_choices or all([os in os_choices for os in self.os])",
                        "None in os_choices or all((os in os_choices for os in self.os))")
    # semantic variant through the interpreter: formula of the break condition
    fi, ip, s, cn = method_run(ctx, "_generate_privescs", no_inline=("_get_action_probs",))
    br = [ev for ev in s.events if ev.kind == "break"]
    sem = False
    if len(br) == 1:
        F = cn.conj(tuple(c for c in br[0].pc if c[0] not in ("inloop", "fact")))
        txt = f_show(F)
        # exactly: the list contains None, or every declared OS occurs in it (conditions that
        # only select the branch, e.g. the number of escalations, aside)
        from sa.canon import f_atoms, f_subst
        none_atoms = [a for a in f_atoms(F) if a.startswith("None in ")]
        sem = False
        if len(none_atoms) == 1:
            OC = none_atoms[0][len("None in "):]
            want = f_or([A(f"None in {OC}"),
                         f_not(("exists", "G.os", f_not(A(f"each(G.os) in {OC}"))))])
            branch = [a for a in f_atoms(F) if "num_privesc" in a and "in " not in a]
            F2 = f_subst(F, lambda a: ("true",) if a in branch else None)
            F3 = f_subst(F, lambda a: ("false",) if a in branch else None)
            sem = bool(f_equiv(F2, want) or f_equiv(F3, want))
        ok_exit = sem
    whiles = [n for n in ast.walk(m.node) if isinstance(n, ast.While)
              and isinstance(n.test, ast.Constant) and n.test.value is True]
    if not br or not whiles:
        # the resampling is not written as `while True: ...; if <accept>: break`: the acceptance
        # condition of another loop shape is not extracted
        chk.undecided("C16.escalation-per-os", "os_choices is accepted only if it contains None or "
                      "every declared OS", "no `while True` ... `break` resampling loop found in "
                      "_generate_privescs; other loop shapes are not modelled", m.module.path)
    elif not ok_exit and len(br) == 1 and any(q in f_show(F) for q in ("set(", "issubset",
                                                                         "issuperset")):
        # coverage written as a subset test between sets: `<=` on sets is not the order relation
        # the comparison normal form assumes - not decoded
        chk.undecided("C16.escalation-per-os", "os_choices is accepted only if it contains None or "
                      "every declared OS", "the acceptance test compares sets (subset / superset): "
                      + f_show(F)[:300], m.module.path)
    else:
        chk.ob("C16.escalation-per-os", "os_choices is accepted only if it contains None or every "
               "declared OS", ok_exit, f_show(F)[:300], m.module.path)
    # the short list: some assignment / construction of os_choices starts with a literal None
    starts_none = ok_short
    seen_short = ok_short
    for n in ast.walk(m.node):
        if isinstance(n, ast.Assign) and isinstance(n.targets[0], ast.Name) \
                and n.targets[0].id == "os_choices":
            v = n.value
            while isinstance(v, ast.BinOp) and isinstance(v.op, ast.Add):
                v = v.left
            if isinstance(v, ast.List) and v.elts:
                seen_short = True
                if isinstance(v.elts[0], ast.Constant) and v.elts[0].value is None:
                    starts_none = True
    if not seen_short:
        chk.undecided("C16.escalation-per-os", "with fewer escalations than OSs the list starts "
                      "with None (OS-agnostic escalation)", "no literal-list construction of "
                      "os_choices found", m.module.path)
    else:
        chk.ob("C16.escalation-per-os", "with fewer escalations than OSs the list starts with None "
               "(OS-agnostic escalation)", starts_none, "", m.module.path)


def check_firewall(ctx, chk):
    fi, ip, s, cn = method_run(ctx, "_generate_firewall",
                               no_inline=("_host_is_vulnerable_to_exploit",))
    G_ = f"{GEN_MOD}:ScenarioGenerator."
    # every site that puts a service into the per-subnet table (a local dict of sets), whichever
    # way: table[subnet].add(x) in loops, or table.setdefault(subnet, set()).update(<generator>)
    def into_table(recv):
        r = recv
        if r[0] == "mcall" and r[2] in ("setdefault", "get") and r[1][0] == "dictobj":
            return True
        return r[0] == "sub" and r[1][0] == "dictobj"
    sites = []
    for ev in s.events:
        if ev.kind != "mcall" or not ev.data["args"] or not into_table(ev.data["recv"]):
            continue
        loops = [cn.show(ip.loops[c[1]]["iter"]) for c in ev.pc if c[0] == "inloop"]
        conds = [c for c in ev.pc if c[0] not in ("inloop", "fact")]
        if ev.data["name"] == "add":
            sites.append((ev.data["args"][0], loops, conds, ev))
        elif ev.data["name"] == "update":
            c = ev.data["args"][0]
            if c[0] == "comp" and len(c[2]) == 1:
                sites.append((c[2][0], loops + [cn.show(it) for _, it, _ in c[3]],
                              conds + [x for _, _, cs in c[3] for x in cs], ev))
            else:
                sites.append((c, loops, conds, ev))
    # (the `set()` initialisation sites add nothing)
    sites = [x for x in sites if not (x[0][0] == "call" and x[0][1] == "builtins.set")]
    ok = len(sites) == 1
    detail = f"{len(sites)} site(s) adding to the per-subnet table"
    if ok:
        arg, loops, conds, ev = sites[0]
        Ff = cn.conj(tuple(conds))
        HK, HV, E = "each(G.hosts)", "G.hosts[each(G.hosts)]", "G.exploits[each(G.exploits)]"
        want = A(f"{G_}_host_is_vulnerable_to_exploit(G, {HV}, {E})")
        # ... or the predicate's own definition written out (C16.coverage decides that
        # _host_is_vulnerable_to_exploit is exactly this)
        want_def = f_and([A(f"{HV}.services[{E}['service']]"),
                          f_or([A(" is ".join(sorted(["None", f"{E}['os']"]))),
                                A(f"{HV}.os[{E}['os']]")])])
        recv = cn.show(ev.data["recv"])
        ok = (f_equiv(Ff, want) or f_equiv(Ff, want_def)) and loops == ["G.hosts", "G.exploits"] and \
            cn.show(arg) == f"{E}['service']" and (f"[{HK}[0]]" in recv or f"({HK}[0], " in recv)
        detail = (f"{recv[-60:]} receives {cn.show(arg)[:80]} under {f_show(Ff)[:200]} in loops "
                  f"{loops}")
    if len(sites) != 1:
        chk.undecided("C16.firewall", "subnet_services[subnet] collects the service of every "
                      "exploit some host of the subnet is vulnerable to (all hosts x all exploits)",
                      f"{detail}; only a single collecting site is decoded", fi.module.path)
    else:
        chk.ob("C16.firewall", "subnet_services[subnet] collects the service of every exploit some "
               "host of the subnet is vulnerable to (all hosts x all exploits)", ok, detail,
               fi.module.path)
    # cross-zone branches
    N = "range(len(G.subnets))"
    SRC, DST = f"each({N})", f"each({N})'"
    stores = [ev for ev in s.events if ev.kind == "store" and ev.data["target"] == "sub"
              and cn.show(ev.data["idx"]) == f"({SRC}, {DST})"]
    from .c15 import is_all_services
    cross = [ev for ev in stores if not is_all_services(cn.show(ev.data["value"]))]
    ok = len(cross) == 2
    detail = f"{len(cross)} cross-zone store(s)"
    if ok:
        vals = [cn.show(ev.data["value"]) for ev in cross]
        whole = [v for v in vals if v.endswith("].copy().copy()") or v.endswith("].copy()")]
        # sampling branch: the stored set had a draw from dest_avail added first
        draws = [ev for ev in s.events if ev.kind == "call"
                 and ev.data["fname"] == "numpy.random.choice"]
        first_add = [ev for ev in s.events if ev.kind == "mcall" and ev.data["name"] == "add"
                     and ev.data["args"] and ev.data["args"][0][0] == "call"
                     and ev.data["args"][0][1] == "numpy.random.choice"]
        from_dst = all(f"[{DST}]" in cn.show(d.data["args"][0]) for d in draws)
        ok = len(whole) == 1 and len(first_add) >= 1 and from_dst and len(draws) >= 1
        detail = f"values {[v[-50:] for v in vals]}; draws from the destination's set: {from_dst}"
    if len(cross) != 2:
        chk.undecided("C16.firewall", "every cross-zone rule is the destination subnet's whole "
                      "vulnerable-service set, or a set holding a draw from it",
                      f"{detail}; only the form with one store per branch is decoded",
                      fi.module.path)
    else:
        chk.ob("C16.firewall", "every cross-zone rule is the destination subnet's whole vulnerable-"
               "service set, or a set holding a draw from it", ok, detail, fi.module.path)


def check_shipped(ctx, chk):
    d = os.path.join(ctx.repo.root, "nasim", "scenarios", "benchmark")
    files = sorted(glob.glob(os.path.join(d, "*.yaml")))
    chk.floor("C16.shipped", len(files), 9, "shipped YAML scenarios")
    for f in files:
        name = os.path.basename(f)
        try:
            r = yamlfix.solve(f)
        except Exception as e:
            chk.undecided("C16.shipped", f"{name}: not analysable as data", f"{type(e).__name__}: {e}",
                          f)
            continue
        bad = {str(a): lv for a, lv in r["sensitive"].items() if lv < 2}
        chk.ob("C16.shipped", f"{name}: every sensitive host reaches ROOT in the least fixpoint of "
               "the strict attack relation", r["solvable"],
               f"sensitive hosts stuck below ROOT: {bad}", f"nasim/scenarios/benchmark/{name}")
        chk.sample({"file": name, "hosts": r["hosts"],
                    "plan": [f"{k} {n} on {t} -> level {lv}" for k, n, t, lv in r["plan"]][:12]})
    chk.trusted.append("PyYAML safe_load for the nine data files")
