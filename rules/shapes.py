"""Shape-independent views of containers built by the analysed code: the same mapping / list can
be written as a loop with stores / appends, as a comprehension, through `extend`, through a helper
that returns a list ... - rules compare these normal forms, not the spelling."""
from sa.interp import C


def _loops_of(ip, cn, pc, pc0=()):
    rel = pc[len(pc0):] if pc[:len(pc0)] == pc0 else pc
    loops, conds = [], []
    for c in rel:
        if c[0] == "inloop":
            info = ip.loops.get(c[1], {})
            loops.append(cn.show(info["iter"]) if info.get("iter") is not None else "while")
        elif c[0] != "fact":
            conds.append(c)
    return loops, conds


def as_mapping(ip, cn, term):
    """(key string, value string, [iterables], condition formula) of a dict built uniformly from
    iterables: one store inside loops, or a dict comprehension.  None if it is not of that kind."""
    if term is None:
        return None
    if term[0] == "dictobj":
        h = ip.heap[term[1]]
        if h["items"] or len(h["dyn"]) != 1:
            return None
        k, v, pc = h["dyn"][0]
        if not isinstance(k, tuple) or k[0] == "unknown":
            return None
        loops, conds = _loops_of(ip, cn, pc, h.get("pc0", ()))
        return cn.show(k), cn.show(v), loops, cn.conj(tuple(conds))
    if term[0] == "comp" and term[1] == "dict":
        loops, conds = [], []
        for lid, it, cs in term[3]:
            loops.append(cn.show(it))
            conds.extend(cs)
        return cn.show(term[2][0]), cn.show(term[2][1]), loops, cn.conj(tuple(conds))
    return None


def mapping_value_term(ip, term):
    if term[0] == "dictobj":
        return ip.heap[term[1]]["dyn"][0][1]
    return term[2][1]


def mapping_key_term(ip, term):
    if term[0] == "dictobj":
        return ip.heap[term[1]]["dyn"][0][0]
    return term[2][0]


def list_elements(ip, cn, term, _depth=0):
    """flatten a list-valued term into element generators:
       [(element term, [iterables it is produced in], [condition terms])]
    handles literal elements, append / extend / += in loops, list comprehensions, concatenation
    and lists returned by inlined helpers.  Returns None when some part is not understood."""
    if _depth > 6:
        return None
    k = term[0]
    if k == "listobj":
        h = ip.heap[term[1]]
        out = [(e, [], []) for e in h["elts"]]
        pc0 = h.get("pc0", ())
        for d in h["dyn"]:
            op, args, pc = d
            loops, conds = _loops_of(ip, cn, pc, pc0)
            if op == "append" and len(args) == 1:
                out.append((args[0], loops, conds))
            elif op == "extend" and len(args) == 1:
                sub = list_elements(ip, cn, args[0], _depth + 1)
                if sub is None:
                    return None
                out.extend((e, loops + l2, conds + c2) for e, l2, c2 in sub)
            else:
                return None
        return out
    if k in ("tuple", "list"):
        return [(e, [], []) for e in term[1]]
    if k == "comp" and term[1] in ("list", "gen"):
        loops, conds = [], []
        for lid, it, cs in term[3]:
            loops.append(cn.show(it))
            conds.extend(cs)
        return [(term[2][0], loops, conds)]
    if k == "bin" and term[1] == "+":
        a = list_elements(ip, cn, term[2], _depth + 1)
        b = list_elements(ip, cn, term[3], _depth + 1)
        if a is None or b is None:
            return None
        return a + b
    if k == "call" and term[1] in ("builtins.list", "builtins.tuple") and len(term[2]) == 1:
        return list_elements(ip, cn, term[2][0], _depth + 1)
    if k == "loopout":
        # a list variable extended with `+=` inside a loop: final value's structure
        return list_elements(ip, cn, term[4], _depth + 1) if term[4][0] != "undef" else None
    return None
