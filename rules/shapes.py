"""Shape-independent views of containers built by the analysed code: the same mapping / list can
be written as a loop with stores / appends, as a comprehension, through `extend`, through a helper
that returns a list ... - rules compare these normal forms, not the spelling."""
from sa.interp import C


def _loops_of(ip, cn, pc, pc0=()):
    rel = pc[len(pc0):] if pc[:len(pc0)] == pc0 else pc
    loops, conds = [], []
    for c in rel:
        if c[0] == "inloop":
            info = ip.loops.get(c[1], {})
            loops.append(cn.show(info["iter"]) if info.get("iter") is not None else "while")
        elif c[0] != "fact":
            conds.append(c)
    return loops, conds


def as_mapping(ip, cn, term):
    """(key string, value string, [iterables], condition formula) of a dict built uniformly from
    iterables: one store inside loops, or a dict comprehension.  None if it is not of that kind."""
    if term is None:
        return None
    if term[0] == "dictobj":
        h = ip.heap[term[1]]
        if h["items"] or len(h["dyn"]) != 1:
            return None
        k, v, pc = h["dyn"][0]
        if not isinstance(k, tuple) or k[0] == "unknown":
            return None
        loops, conds = _loops_of(ip, cn, pc, h.get("pc0", ()))
        return cn.show(k), cn.show(v), loops, cn.conj(tuple(conds))
    if term[0] == "comp" and term[1] == "dict":
        loops, conds = [], []
        for lid, it, cs in term[3]:
            loops.append(cn.show(it))
            conds.extend(cs)
        return cn.show(term[2][0]), cn.show(term[2][1]), loops, cn.conj(tuple(conds))
    return None


def mapping_value_term(ip, term):
    if term[0] == "dictobj":
        return ip.heap[term[1]]["dyn"][0][1]
    return term[2][1]


def mapping_key_term(ip, term):
    if term[0] == "dictobj":
        return ip.heap[term[1]]["dyn"][0][0]
    return term[2][0]


def list_elements(ip, cn, term, _depth=0):
    """flatten a list-valued term into element generators:
       [(element term, [iterables it is produced in], [condition terms])]
    handles literal elements, append / extend / += in loops, list comprehensions, concatenation
    and lists returned by inlined helpers.  Returns None when some part is not understood."""
    if _depth > 6:
        return None
    k = term[0]
    if k == "listobj":
        h = ip.heap[term[1]]
        out = [(e, [], []) for e in h["elts"]]
        pc0 = h.get("pc0", ())
        for d in h["dyn"]:
            op, args, pc = d
            loops, conds = _loops_of(ip, cn, pc, pc0)
            if op == "append" and len(args) == 1:
                out.append((args[0], loops, conds))
            elif op == "extend" and len(args) == 1:
                sub = list_elements(ip, cn, args[0], _depth + 1)
                if sub is None:
                    return None
                out.extend((e, loops + l2, conds + c2) for e, l2, c2 in sub)
            else:
                return None
        return out
    if k in ("tuple", "list"):
        return [(e, [], []) for e in term[1]]
    if k == "comp" and term[1] in ("list", "gen"):
        loops, conds = [], []
        for lid, it, cs in term[3]:
            loops.append(cn.show(it))
            conds.extend(cs)
        return [(term[2][0], loops, conds)]
    if k == "bin" and term[1] == "+":
        a = list_elements(ip, cn, term[2], _depth + 1)
        b = list_elements(ip, cn, term[3], _depth + 1)
        if a is None or b is None:
            return None
        return a + b
    if k == "call" and term[1] in ("builtins.list", "builtins.tuple") and len(term[2]) == 1:
        return list_elements(ip, cn, term[2][0], _depth + 1)
    if k == "loopout":
        # a list variable extended with `+=` inside a loop: final value's structure
        return list_elements(ip, cn, term[4], _depth + 1) if term[4][0] != "undef" else None
    return None


def extremum_candidates(ip, cn, term, fn, _depth=0):
    """the set of values `term` is the minimum (fn='min') / maximum (fn='max') of, as strings;
    quantified candidates read `X` with X mentioning each(ITER) (taken over the whole iterable).
    Understands nested min()/max() calls, running-extremum loops (`m = min(m, x)` in a for),
    min()/max() over a list / generator / comprehension / starred sequence, and drops the identity
    (inf for min, -inf for max).  A part that is not understood is returned as a leaf (its own text),
    so the answer is always a superset description, never a guess."""
    full = "builtins." + fn
    ident = "math.inf" if fn == "min" else "-math.inf"
    out = set()
    if _depth > 8:
        return {cn.show(term)}
    k = term[0]
    if k == "call" and term[1] in (full, "numpy." + fn, "numpy.a" + fn) and term[2] and not any(
            kk in ("key", "default") for kk, _ in term[3]):
        args = term[2]
        if len(args) == 1:
            elems = _seq_elements(ip, cn, args[0])
            if elems is None:
                return {cn.show(term)}
            for e, conds in elems:
                if conds:
                    out.add(cn.show(e) + " if " + " & ".join(cn.show(c) for c in conds))
                else:
                    out |= extremum_candidates(ip, cn, e, fn, _depth + 1)
        else:
            for a in args:
                if a[0] == "starred":
                    elems = _seq_elements(ip, cn, a[1])
                    if elems is None:
                        out.add(cn.show(a))
                        continue
                    for e, conds in elems:
                        if conds:
                            out.add(cn.show(e) + " if " + " & ".join(cn.show(c) for c in conds))
                        else:
                            out |= extremum_candidates(ip, cn, e, fn, _depth + 1)
                else:
                    out |= extremum_candidates(ip, cn, a, fn, _depth + 1)
        out.discard(ident)
        return out
    if k == "loopout":
        name, lid, init, final = term[1], term[2], term[3], term[4]
        carried = ("loopcarried", name, lid)
        if final[0] == "call" and final[1] == full and carried in final[2]:
            out |= extremum_candidates(ip, cn, init, fn, _depth + 1)
            for a in final[2]:
                if a != carried:
                    out |= extremum_candidates(ip, cn, a, fn, _depth + 1)
            out.discard(ident)
            return out
        def carried_in(t):
            if isinstance(t, tuple):
                if len(t) == 3 and t[0] == "loopcarried" and t[2] == lid:
                    return [t]
                return [x for y in t for x in carried_in(y)]
            return []
        others = [c for c in carried_in(final) if c != carried]
        if final[0] == "call" and final[1] == full and carried not in carried_in(final) and others:
            # `m = min(OTHER_ACCUMULATOR, x)`: each iteration discards the previous value of m - after
            # the loop m is min(that accumulator, last x), not an extremum over the sequence
            oth = others[0]
            return {f"the {fn} of the last element and the loop's other accumulator `{oth[1]}` "
                    f"(the running value of `{name}` is not carried from one iteration to the next)"}
        other = "builtins." + ("max" if fn == "min" else "min")
        if final[0] == "call" and final[1] == other and carried in final[2]:
            # a running maximum inside a minimum (or the reverse): understood, and not a candidate
            # set of this extremum - described without the unsummarised-loop spelling
            inner = extremum_candidates(ip, cn, term, "max" if fn == "min" else "min", _depth + 1)
            return {f"the {'maximum' if fn == 'min' else 'minimum'} of {{" + ", ".join(sorted(inner))
                    + "}"}
        return {cn.show(term)}
    s = cn.show(term)
    return {s}


def _seq_elements(ip, cn, t):
    """elements of a sequence-valued term: [(element, [conditions])] or None"""
    if t[0] == "starred":
        return _seq_elements(ip, cn, t[1])
    els = list_elements(ip, cn, t)
    if els is None:
        if t[0] == "comp" and t[1] in ("list", "gen", "set"):
            conds = [c for _, _, cs in t[3] for c in cs]
            return [(t[2][0], conds)]
        return None
    out = []
    for e, loops, conds in els:
        if e[0] == "starred":
            sub = _seq_elements(ip, cn, e[1])
            if sub is None:
                return None
            out.extend((x, list(conds) + list(c2)) for x, c2 in sub)
        else:
            out.append((e, [c for c in conds if c[0] not in ("inloop", "fact")]))
    return out


def truth_of_returns(cn, returns):
    """formula of "the function returns a true value", whichever way the result is produced:
    `return True` on some paths (inside loops: for some iteration), a returned boolean
    expression, `any(...)` / `all(...)`, a flag variable"""
    from sa.canon import f_or, f_and
    out = []
    for pc, t in returns:
        items = [c for c in pc if c[0] != "fact"]
        if t[0] == "const":
            if t[1]:
                out.append(cn._conj_exists(items, {}))
            continue
        # the value is itself a condition: conjoin it inside the innermost loop of the path
        out.append(cn._conj_exists(items + [t], {}))
    return f_or(out) if out else ("false",)


def summation(ip, cn, events, v):
    """a value that is a running sum, however it is written: (initial term, [(added term, [loop
    iterables], [condition terms inside the loops])]) for `x = 0; for ..: if ..: x += t` and for
    `sum(t for .. in .. if ..)`; None when `v` is neither"""
    if v is None:
        return None
    if v[0] == "loopout":
        name = v[1]
        parts = []
        for ev in events:
            if ev.kind == "accum" and ev.data["name"] == name:
                if ev.data["op"] != "+":
                    return None
                loops, inside, seen = [], [], False
                for c in ev.pc:
                    if c[0] == "inloop":
                        seen = True
                        info = ip.loops.get(c[1], {})
                        loops.append(cn.show(info["iter"]) if info.get("iter") is not None
                                     else "while")
                    elif seen and c[0] != "fact":
                        inside.append(c)
                parts.append((ev.data["value"], loops, inside, ev))
        return v[3], parts
    if v[0] == "call" and v[1] == "builtins.sum" and v[2]:
        c = v[2][0]
        init = v[2][1] if len(v[2]) > 1 else C(0)
        if c[0] == "comp" and c[1] in ("list", "gen"):
            loops, conds = [], []
            for lid, it, cs in c[3]:
                loops.append(cn.show(it))
                conds.extend(x for x in cs if x[0] not in ("inloop", "fact"))
            return init, [(c[2][0], loops, conds, None)]
        # sum(L) with L filled by one append inside loops: the same sum, term by term
        src = ip._iter_source(c) if c[0] in ("listobj", "call") else None
        if src is not None and any(x[0] == "inloop" for x in src[1]):
            loops, conds = [], []
            for x in src[1]:
                if x[0] == "inloop":
                    info = ip.loops.get(x[1], {})
                    loops.append(cn.show(info["iter"]) if info.get("iter") is not None
                                 else "while")
                elif x[0] != "fact" and loops:
                    conds.append(x)
            return init, [(src[0], loops, conds, None)]
    return None


# ------------------------------------------------------------------ one-shot iterators
ONE_SHOT_CALLS = {"map", "filter", "zip"}


def exhausted_iterators(fn):
    """[(name, assign node, second consumer node)]: a local bound to a one-shot iterator
    (map / filter / zip object, generator expression) that is consumed at two places which can
    both execute (not the two arms of one `if`), or inside a loop that does not contain the
    binding.  The second consumer sees an exhausted stream - it ranges over nothing.  `next(x)`
    / `iter(x)` uses are deliberate partial consumption and not counted."""
    import ast
    out = []
    parents = {}
    for n in ast.walk(fn):
        for c in ast.iter_child_nodes(n):
            parents[c] = n

    def arms(node):
        """[(if node, arm)] from the function body down to node"""
        path, c = [], node
        while c in parents:
            p = parents[c]
            if isinstance(p, ast.If):
                if any(c is x for x in p.body):
                    path.append((p, "body"))
                elif any(c is x for x in p.orelse):
                    path.append((p, "orelse"))
            c = p
        return path

    def loops_of(node):
        ls, c = [], node
        while c in parents:
            c = parents[c]
            if isinstance(c, (ast.For, ast.While, ast.ListComp, ast.SetComp, ast.DictComp,
                              ast.GeneratorExp)):
                ls.append(c)
        return ls

    binds = {}
    for n in ast.walk(fn):
        if isinstance(n, ast.Assign) and len(n.targets) == 1 and isinstance(n.targets[0], ast.Name):
            v = n.value
            one = isinstance(v, ast.GeneratorExp) or (
                isinstance(v, ast.Call) and isinstance(v.func, ast.Name)
                and v.func.id in ONE_SHOT_CALLS)
            binds.setdefault(n.targets[0].id, []).append((n, one))
    for name, bs in binds.items():
        if len(bs) != 1 or not bs[0][1]:
            continue                      # re-bound names: not judged
        bind = bs[0][0]
        uses = []
        for n in ast.walk(fn):
            if isinstance(n, ast.Name) and n.id == name and isinstance(n.ctx, ast.Load):
                p = parents.get(n)
                if isinstance(p, ast.Call) and isinstance(p.func, ast.Name) \
                        and p.func.id in ("next", "iter", "isinstance", "type", "id"):
                    continue
                uses.append(n)
        uses.sort(key=lambda n: (n.lineno, n.col_offset))
        bl = set(map(id, loops_of(bind)))
        hit = None
        for u in uses:
            if any(id(l) not in bl for l in loops_of(u)):
                hit = u                   # consumed again on every iteration
                break
        if hit is None:
            for i, a in enumerate(uses):
                for b in uses[i + 1:]:
                    pa, pb = dict((id(k), v) for k, v in arms(a)), arms(b)
                    if not any(id(k) in pa and pa[id(k)] != v for k, v in pb):
                        hit = b
                        break
                if hit is not None:
                    break
        if hit is not None:
            out.append((name, bind, hit))
    return out


# ------------------------------------------------------------------ arguments the reference has not
def new_args(repo, fq, args, kwargs, bound_receiver=True):
    """split the arguments of a call of `fq` into those of the reference signature and those for
    parameters the reference tree's function does not have (sa.interp.REF_SIGNATURES):
    (reference args, reference kwargs, status) with status
      "exact"    - no additional argument,
      "default"  - every additional argument is the parameter's own constant default (the call is
                   the reference call),
      "extended" - an additional argument carries something else: the callee runs a path the
                   properties do not speak about"""
    import ast
    from sa import interp as _ip
    ref = (_ip.REF_SIGNATURES or {}).get(fq)
    args, kwargs = list(args), dict(kwargs)
    if ref is None:
        return args, kwargs, "exact"
    try:
        mod, qual = fq.split(":")
        fi = repo.func(mod, qual)
    except Exception:
        return args, kwargs, "exact"
    a = fi.node.args
    pos = [x.arg for x in a.posonlyargs + a.args]
    dflt = dict(zip(pos[len(pos) - len(a.defaults):], a.defaults))
    dflt.update({k.arg: d for k, d in zip(a.kwonlyargs, a.kw_defaults) if d is not None})
    extra = [(pos[i], v) for i, v in enumerate(args) if i < len(pos) and pos[i] not in ref]
    extra += [(k, v) for k, v in kwargs.items() if k not in ref]
    if not extra:
        return args, kwargs, "exact"
    keep_a = [v for i, v in enumerate(args) if i >= len(pos) or pos[i] in ref]
    keep_k = {k: v for k, v in kwargs.items() if k in ref}
    status = "default"
    for name, v in extra:
        d = dflt.get(name)
        if not (isinstance(d, ast.Constant) and v == _ip.C(d.value)):
            status = "extended"
    return keep_a, keep_k, status
