"""Oracle gate table (DESIGN.md Appendix A.1) and the derived per-class facts shared
by C01, C02, C03, C04, C05, C07, C13.

The expected formulas are written from the *text* of properties C01/C02/C07 and the
Action docstrings, over canonical atom strings (see sa/canon.py)."""
import re

from sa.canon import (A, f_and, f_or, f_not, f_atoms, f_show, f_implies, f_equiv,
                      f_counterexample, f_subst, f_eval, f_key)
from sa.ctx import classify_root, sat
from sa.model import AnalysisError

T = "action.target"
SRC = "each(scenario.address_space)"
AS = "scenario.address_space"


def cell(s, addr, fam):
    return A(f"{s}[{addr}].{fam}")


reach = cell("state", T, "reachable")
disc = cell("state", T, "discovered")
comp_t = cell("state", T, "compromised")
acc_t = f_not(A(f"state[{T}].access<action.req_access"))
public_t = A(f"1==scenario.topology[{T}[0]][0]")
connected = A(f"1==scenario.topology[{SRC}[0]][{T}[0]]")
same_subnet = A(f"{T}[0]=={SRC}[0]")
fw_allows = A(f"action.service in scenario.firewall[({SRC}[0], {T}[0])]")
# (an address without an entry in the host's firewall denies nothing: `.get(src, [])`, or a
# membership test followed by the subscript - one normal form, sa/canon.py)
host_denies = f_and([A(f"{SRC} in scenario.hosts[{T}].firewall"),
                     A(f"action.service in scenario.hosts[{T}].firewall[{SRC}]")])
inet_fw_allows = A(f"action.service in scenario.firewall[(0, {T}[0])]")
src_comp = cell("state", SRC, "compromised")
src_acc = f_not(A(f"state[{SRC}].access<action.req_access"))
draw_fail = A("action.prob<np.random.rand()")
draw_ok = f_not(draw_fail)
runs_srv = A(f"state[{T}].services[HostVector.service_idx_map[action.service]]")
runs_os = A(f"state[{T}].os[HostVector.os_idx_map[action.os]]")
runs_proc = A(f"state[{T}].processes[HostVector.process_idx_map[action.process]]")
os_none = A("None is action.os")
proc_none = A("None is action.process")

subnet_traffic = f_or([same_subnet, f_and([connected, fw_allows])])


def EX(body):
    return ("exists", AS, body)


# named gates (A.1).  Each maps to the formula that must hold for success.
GATES = {
    "G1": f_and([reach, disc]),
    "G2.scan": f_or([public_t, EX(f_and([src_comp, connected, src_acc]))]),
    "G2.exploit": f_or([public_t, EX(f_and([src_comp, subnet_traffic, src_acc]))]),
    # strict reading of C02: from the internet (public subnet, rule (internet, subnet)) or
    # from a compromised host (subnet rule in that direction, not denied by the host firewall)
    "G3": f_or([f_and([public_t, inet_fw_allows]),
                EX(f_and([src_comp, subnet_traffic, f_not(host_denies)]))]),
    "G4": comp_t,
    "G5": f_and([comp_t, acc_t]),
    "G6": f_and([comp_t, acc_t]),
    "G7": f_and([runs_srv, f_or([os_none, runs_os])]),
    "G8": f_and([f_or([proc_none, runs_proc]), f_or([os_none, runs_os])]),
    "D": draw_ok,
    "D.exploit": f_or([comp_t, draw_ok]),
}

REQUIRED = {
    "NoOp": [],
    "ServiceScan": ["G1", "G2.scan", "D"],
    "OSScan": ["G1", "G2.scan", "D"],
    "Exploit": ["G1", "G2.exploit", "G3", "G7", "D.exploit"],
    "PrivilegeEscalation": ["G1", "G4", "G6", "G8", "D"],
    "SubnetScan": ["G1", "G5", "D"],
    "ProcessScan": ["G1", "G6", "D"],
}
# gates that are network-level (must precede the draw: C07.c) vs host-level (C07.e)
NETWORK_GATES = ("G1", "G2.scan", "G2.exploit", "G3", "G4")
HOST_GATES = ("G5", "G6", "G7", "G8")

ASSUME_RE = re.compile(
    r"^(\d+|action\.target\[\d\]|len\(scenario\.subnets\)|scenario\.subnets\[action\.target\[0\]\])"
    r"(<|==)"
    r"(\d+|action\.target\[\d\]|len\(scenario\.subnets\)|scenario\.subnets\[action\.target\[0\]\])$")


def expected_success(K):
    return f_and([GATES[g] for g in REQUIRED[K]])


class ClassFacts:
    """derived facts for one action class"""

    def __init__(self, ctx, K):
        self.K = K
        self.d = ctx.dispatch(K)
        d = self.d
        self.cn = d.cn
        if d.malformed:
            raise AnalysisError(f"perform_action({K}) returns something that is not "
                                f"(state, ActionResult(...)): {d.cn.show(d.malformed[0][1])}")
        self.assumed = set()
        for ev in d.summary.events:
            if ev.kind == "assert" and ev.depth == 0:
                for a in f_atoms(d.cn.formula(ev.data["test"])):
                    if ASSUME_RE.match(a):
                        self.assumed.add(a)
        # well-formedness of the target address is an assumption (the asserts raise otherwise)
        wf = {a for a in self.assumed}

        def strip(F):
            def fn(a):
                if a in wf:
                    # truth value of the asserted atom: find polarity from the assert tests
                    return None
                return None
            return F
        self._pol = {}
        if K == "Exploit":
            # an Exploit always names a service (positional constructor parameter; the loader and
            # the generator only build definitions with one - C18.exploit.*, C15.definitions)
            self._pol["None is action.service"] = False
        for ev in d.summary.events:
            if ev.kind == "assert" and ev.depth == 0:
                F = d.cn.formula(ev.data["test"])
                self._collect_polarity(F, True)
            elif ev.kind == "raise" and ev.depth == 0:
                # `if not <well-formed>: raise ...` is the same domain restriction as the assert:
                # the path condition of the raise, simplified by the restrictions collected so far,
                # is excluded - provided it speaks about the target address only
                F = self.strip(d.conj(tuple(c for c in ev.pc if c[0] not in ("fact", "inloop"))))
                if f_atoms(F) and all(ASSUME_RE.match(a) for a in f_atoms(F)):
                    self._collect_polarity(F, False)
        self.outcomes = d.outcomes
        for o in self.outcomes:
            o.G = self.strip(o.F)
        self.success = [o for o in self.outcomes if o.flag("success") is True]
        self.failure = [o for o in self.outcomes if o.flag("success") is False]
        self.odd = [o for o in self.outcomes if o.flag("success") not in (True, False)]
        self.success_F = f_or([o.G for o in self.success])

    def _collect_polarity(self, F, pos):
        k = F[0]
        if k == "atom" and ASSUME_RE.match(F[1]):
            self._pol[F[1]] = pos
        elif k == "not":
            self._collect_polarity(F[1], not pos)
        elif k == "and" and pos:
            for x in F[1]:
                self._collect_polarity(x, pos)
        elif k == "or" and not pos:
            for x in F[1]:
                self._collect_polarity(x, pos)

    def strip(self, F):
        pol = self._pol

        def fn(a):
            if a in pol:
                return ("true",) if pol[a] else ("false",)
            return None
        return f_subst(F, fn)

    # ------------------------------------------------------------ net effects
    def net_effects(self, outcome):
        """changes of the returned state relative to the input state on the paths of
        this outcome: list of dicts(kind, addr, fam, elem, value, cond, loc, foreign)"""
        d, cn = self.d, self.cn
        effs = d.effects_under(outcome)
        out = []
        # vector copies that are stored back as whole rows
        rowstores = [e for e in effs if e.kind == "row"]
        stored_vec_sites = {}
        for rs in rowstores:
            v = cn.norm(rs.value)
            kind, desc, site = classify_root(cn, rs.root)
            rec = {"kind": "row", "root": kind, "rootdesc": desc, "addr": cn.show(rs.addr),
                   "loc": rs.ev.loc, "value": cn.show(v), "ok": False, "ev": rs.ev}
            if v[0] == "copy" and v[1][0] == "row":
                src_root = v[1][1]
                same_addr = cn.show(v[1][2]) == cn.show(rs.addr)
                src_is_input = src_root[0] == "tensor" and \
                    cn.show(src_root[1]) == cn.show(d.state_param)
                if same_addr and src_is_input:
                    rec["ok"] = True
                    stored_vec_sites[v[2]] = cn.show(rs.addr)
            out.append(rec)
        for e in effs:
            if e.kind == "row":
                continue
            if e.kind == "cell":
                kind, desc, site = classify_root(cn, e.root)
                base = e.root
                via = None
                if base[0] == "copy" and base[1][0] == "row":
                    # store into a host-vector copy: reaches the state only via a row store
                    if base[2] in stored_vec_sites:
                        via = stored_vec_sites[base[2]]
                    else:
                        continue   # private scratch vector, never written back
                cond = self.strip(d.conj(e.ev.pc))
                out.append({"kind": "cell", "root": kind, "rootdesc": desc,
                            "addr": via or (cn.show(e.addr) if e.addr is not None else "?"),
                            "fam": e.fam, "elem": cn.show(e.elem) if isinstance(e.elem, tuple)
                            else e.elem, "value": cn.show(e.value), "value_t": e.value,
                            "cond": cond, "loc": e.ev.loc, "ev": e.ev})
            elif e.kind in ("attr", "other"):
                # stores into objects other than the state's array storage (action, network,
                # scenario attributes, auxiliary dicts) do not change the returned *state*; they
                # are judged by C13 (purity) / C19 (shared state), not by the state-transition rules
                self.side_effects = getattr(self, "side_effects", [])
                self.side_effects.append(e)
            else:
                kind = "attr" if e.kind == "attr" else e.kind
                out.append({"kind": kind, "root": "OTHER",
                            "rootdesc": e.root if isinstance(e.root, str) else cn.show(e.root),
                            "addr": None, "fam": e.fam, "value": cn.show(e.value),
                            "loc": e.ev.loc, "ev": e.ev,
                            "cond": self.strip(d.conj(e.ev.pc))})
        return out

    def returned_state_kind(self, outcome):
        """FRESH copy of the input state's storage?"""
        cn, d = self.cn, self.d
        st = outcome.state_t
        if st[0] == "new" and st[1] == "State":
            tens = cn.norm(d.ip.heap[st[2]]["fields"].get(cn.tensor_attr, ("unknown", "?")))
            if tens[0] == "copy" and tens[1][0] == "tensor" \
                    and cn.show(tens[1][1]) == cn.show(d.state_param):
                return "FRESH-COPY", cn.show(tens)
            return "OTHER", cn.show(tens)
        return "ALIAS", cn.show(st)


_cache = {}


def facts(ctx, K):
    cache = ctx.__dict__.setdefault("_rule_cache", {})
    key = ("gates", K)
    if key not in cache:
        cache[key] = ClassFacts(ctx, K)
    return cache[key]


def failing_gates(K, valuation):
    out = []
    for g in REQUIRED[K]:
        F = GATES[g]
        atoms = f_atoms(F)
        v = {a: valuation.get(a, False) for a in atoms}
        if not f_eval(F, v):
            out.append(g)
    return out
