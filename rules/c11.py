"""C11 - action spaces enumerate exactly the scenario's actions.

  C11.enumeration  load_action_list: one loop over the complete address list appending, unconditionally,
                   one ServiceScan/OSScan/SubnetScan/ProcessScan and, in nested loops over
                   scenario.exploits.items() / scenario.privescs.items(), one Exploit /
                   PrivilegeEscalation per definition; symbolic count per address 4+|E|+|P|
  C11.size         Scenario.get_action_space_size() = #hosts * (|E| + |P| + 4)
  C11.costs        scan class <-> scenario cost pairing in load_action_list and _get_scan_action_def
  C11.definition   Exploit / PrivilegeEscalation built from a definition take every field from the
                   definition's key of the same name; lookup maps copy every field under the
                   definition's own (service|process, os) pair; first definition wins
  C11.decode       parameterised decode per action type (partial evaluation over the 6 type codes):
                   documented type order, target = (v1+1, v2 % subnet size), OS 0 -> None else os[v3-1],
                   service services[v4], process processes[v5]; missing definition -> zero-cost NoOp
  C11.nvec         nvec = [6, #subnets-1, max subnet size, #os+1, #services, #processes]
  C11.mask         mask has one entry per flat action, set iff the action's target is discovered in the
                   current state
  C11.order        no hash-ordered container between scenario and index->action mapping
"""
import ast

from sa.canon import Canon, f_show, f_equiv, A, f_and, f_not, f_or, f_implies, respell
from sa.ctx import ACT_MOD, ENV_MOD
from sa.interp import Interp, C
from sa.model import AnalysisError
from .c08 import lin
from .order import taint, HASH

EXPLANATION = (
    "Abstract interpretation of load_action_list (append events with loop context), of the "
    "parameterised decoder specialised per action-type code, of the lookup-map builders and of "
    "get_action_mask; linear-form comparison of the advertised action count.")

SCAN_COST = {"ServiceScan": "service_scan_cost", "OSScan": "os_scan_cost",
             "SubnetScan": "subnet_scan_cost", "ProcessScan": "process_scan_cost"}
DOC_TYPES = ["Exploit", "PrivilegeEscalation", "ServiceScan", "OSScan", "SubnetScan",
             "ProcessScan"]
EXPLOIT_FIELDS = ["cost", "service", "os", "access", "prob"]
PRIVESC_FIELDS = ["cost", "access", "process", "os", "prob"]


def fields_of(ip, obj):
    return ip.heap[obj[2]]["fields"]


def run(ctx, chk):
    chk.explanation = EXPLANATION
    repo = ctx.repo
    # ------------------------------------------------------------------ enumeration
    fi = repo.func(ACT_MOD, "load_action_list")
    SP = fi.params[0]
    ip = Interp(repo, ctx.types, param_types={SP: "Scenario"})
    s = ip.run(fi)
    cn = Canon(ip, ctx.layout, names={("param", SP): "scenario"})
    # (several exits handing out the same list object - e.g. an early return for an empty
    # address space - are one list)
    ok_ret = len(s.returns) >= 1 and s.returns[0][1][0] == "listobj" and \
        all(t == s.returns[0][1] for _, t in s.returns)
    chk.ob("C11.enumeration", "load_action_list returns one locally built list", ok_ret,
           str([cn.show(t) for _, t in s.returns]), fi.module.path, nontrivial=False)
    # the produced sequence, whatever way it is written (append / extend / comprehension / helper
    # returning a list): generators of (element, enclosing iterables, conditions), in order
    from .shapes import list_elements
    per_addr = {}
    if ok_ret:
        lst = s.returns[0][1]
        others = [ev for ev in s.events if ev.kind == "mcall" and ev.data["recv"] == lst
                  and ev.data["name"] not in ("append", "extend")]
        chk.ob("C11.enumeration", "the action list is only appended to", not others,
               str([ev.data["name"] for ev in others]), fi.module.path, nontrivial=False)
        gens = list_elements(ip, cn, lst)
        if gens is None:
            chk.undecided("C11.enumeration", "load_action_list builds its list in a way the "
                          "analysis does not model (neither append, extend, comprehension, "
                          "concatenation nor a helper returning such a list)", "", fi.module.path)
            gens = []
        locs = {}
        for ev in s.events:
            if ev.kind == "new":
                locs[ev.data["obj"]] = ev
        for obj, iters, conds in gens:
            cls = obj[1] if obj[0] == "new" else cn.show(obj)
            conds = [c for c in conds if c[0] not in ("inloop", "fact")]
            # "the iterated collection is not empty" holds in every iteration over it
            conds = [c for c in conds
                     if f_show(cn.formula(c)) not in {f"0<len({it_})" for it_ in iters}
                     | {f"0<len(list({it_}))" for it_ in iters}]
            ev = locs.get(obj)
            per_addr.setdefault(cls, []).append((iters, conds, obj, ev if ev is not None
                                                 else s.events[0]))
    AS = "scenario.scenario_dict['host']"      # (iterating list(D) is iterating D)
    want_iters = {"ServiceScan": [AS], "OSScan": [AS], "SubnetScan": [AS], "ProcessScan": [AS],
                  "Exploit": [AS, "scenario.scenario_dict['exploits']"],
                  "PrivilegeEscalation": [AS, "scenario.scenario_dict['privilege_escalation']"]}
    for cls, wi in want_iters.items():
        got = per_addr.get(cls, [])
        ok = len(got) == 1 and got[0][0] == wi and not got[0][1]
        chk.ob("C11.enumeration", f"exactly one unconditional append of {cls} per "
               f"{'address' if len(wi) == 1 else 'address and definition'}", ok,
               f"{len(got)} append site(s): " + "; ".join(
                   f"loops {g[0]} cond {f_show(cn.conj(tuple(g[1])))}" for g in got),
               fi.module.path)
        for iters, conds, obj, ev in got[:1]:
            if obj[0] != "new":
                continue
            f = fields_of(ip, obj)
            tgt = cn.show(f.get("target", C(None)))
            if tgt == f"tuple(each({AS}))":
                tgt = f"each({AS})"          # host addresses are tuples: tuple(addr) is addr
            chk.ob("C11.enumeration", f"{cls}: target is the loop's address", tgt == f"each({AS})",
                   tgt, ev.loc, nontrivial=False)
            if cls in SCAN_COST:
                cost = cn.show(f.get("cost", C(None)))
                chk.ob("C11.costs", f"load_action_list: {cls} costs scenario.{SCAN_COST[cls]}",
                       cost == f"scenario.scenario_dict['{SCAN_COST[cls]}']", cost, ev.loc)
            else:
                src = "exploits" if cls == "Exploit" else "privilege_escalation"
                D = respell(f"each(scenario.scenario_dict['{src}'].items())[1]")
                check_def_fields(chk, cn, f, cls, D, ev.loc, "load_action_list")
    extra = set(per_addr) - set(want_iters)
    chk.ob("C11.enumeration", "nothing else is appended to the action list", not extra,
           str(extra), fi.module.path)
    # ------------------------------------------------------------------ advertised size
    sc = repo.func("nasim.scenarios.scenario", "Scenario.get_action_space_size")
    ip2 = Interp(repo, ctx.types, param_types={sc.params[0]: "Scenario"})
    s2 = ip2.run(sc)
    cn2 = Canon(ip2, ctx.layout)
    ok = False
    detail = ""
    if len(s2.returns) == 1:
        t = cn2.norm(s2.returns[0][1])
        detail = cn2.show(t)
        if t[0] == "bin" and t[1] == "*":
            for a, b in ((t[2], t[3]), (t[3], t[2])):
                if cn2.show(a) == "len(self.scenario_dict['host'])":
                    ok = lin(cn2, b) == {"len(self.scenario_dict['exploits'])": 1,
                                         "len(self.scenario_dict['privilege_escalation'])": 1,
                                         "1": 4}
    chk.ob("C11.size", "Scenario.get_action_space_size() = #hosts * (#exploits + #escalations + 4)",
           ok, detail, sc.module.path)
    # Flat space: n = len(actions), index -> actions[idx]
    check_flat(ctx, chk)
    from .rowprov import check_positions
    check_positions(ctx, chk, "C11.blocks", {"nasim.envs.action", "nasim.envs.environment"},
                    {"actions"}, "the flat action list")
    check_maps(ctx, chk)
    check_decode(ctx, chk)
    check_decode_lookup(ctx, chk)
    check_nvec(ctx, chk)
    check_mask(ctx, chk)
    check_definition_maps(ctx, chk)
    check_order(ctx, chk)
    chk.note("documentation disagreement (informational): the class docstring gives parameter 5 as "
             "[0, #processes] with 0=None while the code uses #processes values without a None slot; "
             "scenario definitions never have process=None")


def check_def_fields(chk, cn, f, cls, D, loc, where):
    names = EXPLOIT_FIELDS if cls == "Exploit" else PRIVESC_FIELDS
    for n in names:
        v = f.get(n)
        sv = cn.show(v) if v is not None else "missing"
        ok = sv in (f"{D}['{n}']", f"{D}.get('{n}', None)", f"{D}.get('{n}', 1.0)",
                    f"{D}.get('{n}', 0)")
        chk.ob("C11.definition", f"{where}: {cls}.{n} comes from the definition's '{n}'", ok, sv,
               loc, nontrivial=False)


def check_flat(ctx, chk):
    repo = ctx.repo
    ci = repo.cls(ACT_MOD, "FlatActionSpace")
    init = ci.methods["__init__"]
    ip = Interp(repo, ctx.types, param_types={init.params[1]: "Scenario"},
                no_inline=("nasim.envs.action:load_action_list",))
    obj = ("obj", "FlatActionSpace", "F")
    s = ip.run(init, {init.params[0]: obj})
    cn = Canon(ip, ctx.layout)
    sup = [ev for ev in s.events if ev.kind == "call" and ev.data["fname"] == "super().__init__"]
    st = [ev for ev in s.events if ev.kind == "store" and ev.data.get("name") == "actions"]
    LAL = f"nasim.envs.action:load_action_list({init.params[1]})"
    ok = len(sup) == 1 and len(st) == 1 and cn.show(st[0].data["value"]) == LAL and \
        [cn.show(a) for a in sup[0].data["args"]] == [f"len({LAL})"]
    lal_calls = [ev for ev in s.events if ev.kind == "call"
                 and ev.data["fname"] == "nasim.envs.action:load_action_list"]
    if not ok and lal_calls and all(len(ev.data["args"]) + len(ev.data.get("kwargs", ())) > 1
                                    for ev in lal_calls):
        # the list is requested with an argument the documented load_action_list(scenario) does
        # not have: what that call returns is outside what the enumeration rule establishes
        chk.undecided("C11.size", "FlatActionSpace: actions = load_action_list(scenario), n = "
                      "len(actions)", "load_action_list is called with additional argument(s): "
                      + str([cn.show(a)[:60] for a in lal_calls[0].data["args"]]), ci.module.path)
    else:
        chk.ob("C11.size", "FlatActionSpace: actions = load_action_list(scenario), n = "
               "len(actions)", ok,
               str([cn.show(a) for ev in sup for a in ev.data["args"]]), ci.module.path)
    ga = ci.methods["get_action"]
    ip = Interp(repo, ctx.types, param_types={ga.params[0]: "FlatActionSpace"})
    s = ip.run(ga)
    cn = Canon(ip, ctx.layout)
    txt = [cn.show(t) for _, t in s.returns]
    chk.ob("C11.enumeration", "FlatActionSpace.get_action(i) = actions[i]",
           txt == [f"{ga.params[0]}.actions[{ga.params[1]}]"], str(txt), ci.module.path)


def check_maps(ctx, chk):
    repo = ctx.repo
    for prop, src, key1, fields in (("exploit_map", "exploits", "service", EXPLOIT_FIELDS),
                                    ("privesc_map", "privilege_escalation", "process",
                                     PRIVESC_FIELDS)):
        fi = repo.func("nasim.scenarios.scenario", f"Scenario.{prop}")
        ip = Interp(repo, ctx.types, param_types={fi.params[0]: "Scenario"})
        s = ip.run(fi)
        cn = Canon(ip, ctx.layout)
        DD = f"self.scenario_dict['{src}']"
        DK, DV = f"each({DD})", f"{DD}[each({DD})]"
        # inner definition dicts
        inner = [ev for ev in s.events if ev.kind == "store" and ev.data["target"] == "sub"
                 and ev.data["value"][0] == "dictobj"
                 and ip.heap[ev.data["value"][1]]["items"]]
        ok = len(inner) == 1
        detail = f"{len(inner)} definition store(s)"
        if ok:
            ev = inner[0]
            items = ip.heap[ev.data["value"][1]]["items"]
            got = {k: cn.show(v) for k, v in items.items()}
            want = {n: f"{DV}['{n}']" for n in fields}
            want["name"] = DK
            idx = cn.show(ev.data["idx"])
            base = cn.show(ev.data["base"])
            cond = cn.conj(tuple(c for c in ev.pc if c[0] not in ("inloop", "fact")))
            # the inner map is the outer map's entry for the definition's own service / process:
            # outer[key] or outer.setdefault(key, {})
            bt = ev.data["base"]

            def outer_keys(t, depth=0):
                """the key(s) of the outer map under which the inner map `t` sits, over every
                alternative of a conditional value; None when some alternative is not decoded"""
                if depth > 6:
                    return None
                if t[0] == "sub":
                    return {cn.show(t[2])}
                if t[0] == "mcall" and t[2] in ("setdefault", "get") and t[3]:
                    return {cn.show(t[3][0])}
                if t[0] == "const" and t[1] is None:
                    return set()             # the alternative the `is None` test replaces
                if t[0] == "dictobj":
                    # a fresh inner map: where was it put?
                    puts = [e2 for e2 in s.events if e2.kind == "store"
                            and e2.data["target"] == "sub" and e2.data["value"] == t]
                    return {cn.show(e2.data["idx"]) for e2 in puts} if puts else None
                if t[0] == "phi":
                    a_, b_ = outer_keys(t[2], depth + 1), outer_keys(t[3], depth + 1)
                    return None if a_ is None or b_ is None else a_ | b_
                if t[0] == "cases":
                    out = set()
                    for _, x in t[1]:
                        k_ = outer_keys(x, depth + 1)
                        if k_ is None:
                            return None
                        out |= k_
                    return out
                return None
            okeys = outer_keys(bt)
            ok = got == want and idx == f"{DV}['os']" and okeys == {f"{DV}['{key1}']"}
            detail = f"stored under [{base[-60:]}][{idx}] fields {got} when {f_show(cond)[:200]}"
            if okeys is None and got == want and idx == f"{DV}['os']":
                chk.undecided("C11.definition", f"Scenario.{prop}: every field copied from the "
                              f"definition, indexed by the definition's own ({key1}, os)",
                              "how the inner map is obtained from the outer one is not decoded: "
                              + detail, fi.module.path)
                continue
        chk.ob("C11.definition", f"Scenario.{prop}: every field copied from the definition, indexed "
               f"by the definition's own ({key1}, os)", ok, detail, fi.module.path)


def check_decode(ctx, chk):
    repo = ctx.repo
    ci = repo.cls(ACT_MOD, "ParameterisedActionSpace")
    ok, types = repo.class_const(ci, "action_types")
    names = [t.ci.name if hasattr(t, "ci") else str(t) for t in (types or [])] if ok else []
    chk.ob("C11.decode", "action_types order is the documented one "
           "(0=Exploit,1=PrivilegeEscalation,2=ServiceScan,3=OSScan,4=SubnetScan,5=ProcessScan)",
           names == DOC_TYPES, str(names), ci.module.path)
    ga = ci.methods["get_action"]
    V = ga.params[1]
    SCN = "self.scenario.scenario_dict"
    for code, cls in enumerate(DOC_TYPES):
        ip = Interp(repo, ctx.types, param_types={ga.params[0]: "ParameterisedActionSpace"})
        vec = ("tuple", (C(code),) + tuple(("param", f"v{i}") for i in range(1, 6)))
        s = ip.run(ga, {V: vec})
        cn = Canon(ip, ctx.layout)
        objs = [(pc, t) for pc, t in s.returns]
        kinds = sorted({t[1] if t[0] == "new" else cn.show(t)[:40] for _, t in objs})
        want_kinds = [cls] if cls in SCAN_COST else sorted([cls, "NoOp"])
        chk.ob("C11.decode", f"type code {code} decodes to {' or '.join(want_kinds)}",
               kinds == want_kinds, str(kinds), ci.module.path)
        raises = [ev for ev in s.events if ev.kind == "raise"]
        chk.ob("C11.decode", f"type code {code}: decoding raises nowhere", not raises,
               "; ".join(ev.loc for ev in raises), ci.module.path, nontrivial=False)
        for pc, t in objs:
            if t[0] != "new":
                continue
            f = fields_of(ip, t)
            if t[1] == "NoOp":
                chk.ob("C11.decode", f"type code {code}: undefined combination -> NoOp with cost 0",
                       f.get("cost") in (C(0), C(0.0)), cn.show(f.get("cost", C(None))),
                       ci.module.path, nontrivial=False)
                continue
            tgt = cn.show(f.get("target", C(None)))
            want_t = f"((v1+1), (v2%{SCN}['subnets'][(v1+1)]))"
            chk.ob("C11.decode", f"type code {code}: target = (v1+1, v2 % subnet size)",
                   tgt == want_t, tgt, ci.module.path)
            if cls in SCAN_COST:
                cost = cn.show(f.get("cost", C(None)))
                chk.ob("C11.costs", f"_get_scan_action_def: {cls} costs scenario.{SCAN_COST[cls]}",
                       cost == f"{SCN}['{SCAN_COST[cls]}']", cost, ci.module.path)
                continue
            # definition lookup: map[service|process][os]
            OS = f"(v3==0 ? None : {SCN}['os'][(v3-1)])"
            if cls == "Exploit":
                mp, key = "exploit_map", f"{SCN}['services'][v4]"
                fields = EXPLOIT_FIELDS
            else:
                mp, key = "privesc_map", f"{SCN}['processes'][v5]"
                fields = PRIVESC_FIELDS
            for n in fields:
                sv = cn.show(f.get(n, C(None)))
                okf = key in sv and OS in sv and (f"['{n}']" in sv or f"'{n}'" in sv)
                chk.ob("C11.decode", f"type code {code}: {cls}.{n} comes from "
                       f"{mp}[{'service' if cls == 'Exploit' else 'process'}][os]['{n}']", okf,
                       sv[:200], ci.module.path, nontrivial=False)
            # not-found conditions
            noop = [pc for pc, tt in objs if tt[0] == "new" and tt[1] == "NoOp"]
            chk.ob("C11.decode", f"type code {code}: exactly one NoOp fallback exit",
                   len(noop) == 1, f"{len(noop)}", ci.module.path, nontrivial=False)


def check_decode_lookup(ctx, chk):
    """the definition used for an exploit / escalation vector is exactly map[service|process][os],
    and the no-op fallback is taken exactly when that entry does not exist.  Decided with the OS
    code fixed (0 = None, 1 = first OS) so that the conditions are small formulas; the maps
    themselves are kept opaque here (their construction is C11.definition)."""
    import re
    repo = ctx.repo
    ci = repo.cls(ACT_MOD, "ParameterisedActionSpace")
    ga = ci.methods["get_action"]
    V = ga.params[1]
    SCN = "self.scenario.scenario_dict"
    EM = "nasim.scenarios.scenario:Scenario.exploit_map"
    PM = "nasim.scenarios.scenario:Scenario.privesc_map"
    for code, cls, mp, key, fields in (
            (0, "Exploit", f"{EM}(self.scenario)", f"{SCN}['services'][v4]", EXPLOIT_FIELDS),
            (1, "PrivilegeEscalation", f"{PM}(self.scenario)", f"{SCN}['processes'][v5]",
             PRIVESC_FIELDS)):
        for v3, osv in ((0, "None"), (1, f"{SCN}['os'][0]")):
            ip = Interp(repo, ctx.types, param_types={ga.params[0]: "ParameterisedActionSpace"},
                        no_inline=(EM, PM))
            vec = ("tuple", (C(code), ("param", "v1"), ("param", "v2"), C(v3), ("param", "v4"),
                             ("param", "v5")))
            s = ip.run(ga, {V: vec})
            cn = Canon(ip, ctx.layout)
            what = f"type code {code}, OS code {v3}"
            noop = [pc for pc, t in s.returns if t[0] == "new" and t[1] == "NoOp"]
            objs = [(pc, t) for pc, t in s.returns if t[0] == "new" and t[1] == cls]
            if not noop or not objs or len(noop) + len(objs) != len(s.returns):
                chk.undecided("C11.decode", f"{what}: no-op exactly when {mp.split(':')[1]}"
                              "[key][os] is undefined", "exits are not (NoOp | " + cls + "): "
                              + str([cn.show(t)[:40] for _, t in s.returns]), ci.module.path)
                continue
            from sa.canon import f_subst
            from sa.ctx import sat
            F = f_or([cn.conj(tuple(c for c in pc if c[0] != "fact")) for pc in noop])
            # the maps hold definition dicts (C11.definition), never None
            none_prefix = f"None is {mp}["

            def nn(a):
                return ("false",) if a.startswith(none_prefix) else None
            F = f_subst(F, nn)
            want = f_or([f_not(A(f"{key} in {mp}")), f_not(A(f"{osv} in {mp}[{key}]"))])

            def under(t, pc):
                """the alternative of a conditional value that is consistent with the path"""
                if t[0] == "cases":
                    P = cn.conj(tuple(c for c in pc if c[0] != "fact"))
                    P = f_subst(P, nn)
                    live = [x for cpc, x in t[1]
                            if sat(f_and([P, cn.conj(tuple(c for c in cpc if c[0] != "fact"))]))]
                    live = [x for x in live if x != C(None)] or live
                    if len({cn.show(x) for x in live}) == 1:
                        return under(live[0], pc)
                    return t
                if t[0] == "phi":
                    P = cn.conj(tuple(c for c in pc if c[0] != "fact"))
                    P = f_subst(P, nn)
                    c_ = f_subst(cn.formula(t[1]), nn)
                    if f_implies(P, c_):
                        return under(t[2], pc)
                    if f_implies(P, f_not(c_)):
                        return under(t[3], pc)
                    return t
                if t[0] == "sub":
                    return ("sub", under(t[1], pc), t[2])
                if t[0] == "kwget":
                    return ("kwget", under(t[1], pc), t[2], t[3])
                if t[0] == "mcall" and t[2] == "get":
                    return ("mcall", under(t[1], pc), t[2], t[3], t[4])
                return t
            chk.ob("C11.decode", f"{what}: no-op exactly when {cls} definition [key][os] is missing",
                   f_equiv(F, want), f"no-op under {f_show(F)[:300]}", ci.module.path)
            base = re.escape(f"{mp}[{key}][{osv}]")
            for pc, t in objs:
                f = fields_of(ip, t)
                for n in fields:
                    sv = cn.show(under(f.get(n, C(None)), pc))
                    okf = re.fullmatch(base + r"(\['" + n + r"'\]|\.get\('" + n + r"', [^()]*\))",
                                       sv) is not None
                    chk.ob("C11.decode", f"{what}: {cls}.{n} is {mp.split(':')[1].split('(')[0]}"
                           f"[key][os]['{n}']", okf, sv[:200], ci.module.path, nontrivial=False)


def check_nvec(ctx, chk):
    repo = ctx.repo
    ci = repo.cls(ACT_MOD, "ParameterisedActionSpace")
    init = ci.methods["__init__"]
    SP = init.params[1]
    ip = Interp(repo, ctx.types, param_types={SP: "Scenario"},
                no_inline=("nasim.envs.action:load_action_list",))
    s = ip.run(init, {init.params[0]: ("obj", "ParameterisedActionSpace", "P")})
    cn = Canon(ip, ctx.layout)
    sup = [ev for ev in s.events if ev.kind == "call" and ev.data["fname"] == "super().__init__"]
    ok = False
    detail = "no MultiDiscrete initialisation found"
    if len(sup) == 1 and sup[0].data["args"] and sup[0].data["args"][0][0] == "listobj":
        elts = ip.heap[sup[0].data["args"][0][1]]["elts"]
        got = [lin(cn, e) for e in elts]
        D = f"{SP}.scenario_dict"
        want = [{"1": 6}, {f"len({D}['subnets'])": 1, "1": -1}, {f"max({D}['subnets'])": 1},
                {f"len({D}['os'])": 1, "1": 1}, {f"len({D}['services'])": 1},
                {f"len({D}['processes'])": 1}]
        ok = got == want
        detail = str(got)
    chk.ob("C11.nvec", "nvec = [6, #subnets-1, max subnet size, #os+1, #services, #processes] "
           "(every component in range of what it indexes)", ok, detail, ci.module.path)


def check_definition_maps(ctx, chk):
    """the {target: {os: definition}} maps the parameterised space decodes through contain every
    definition's own (target, os) pair: the entry is stored unconditionally, or exactly when that
    pair is not in the map yet (keep-first) - never depending on *other* entries of the map"""
    from sa.canon import f_subst, f_atoms
    sc = ctx.repo.cls("nasim.scenarios.scenario", "Scenario")
    for prop, what in (("exploit_map", "exploit"), ("privesc_map", "escalation")):
        m = sc.methods.get(prop)
        desc = (f"Scenario.{prop}: every {what} definition is entered under its own (target, os) "
                "pair unless that pair is taken")
        if m is None:
            chk.undecided("C11.decode", desc, f"Scenario.{prop} not found")
            continue
        ip = Interp(ctx.repo, ctx.types, param_types={m.params[0]: "Scenario"})
        s = ip.run(m)
        cn = Canon(ip, ctx.layout)
        sts = [ev for ev in s.events if ev.kind == "store" and ev.data["target"] == "sub"
               and ev.data["value"][0] == "dictobj" and ip.heap[ev.data["value"][1]]["items"]
               and any(c[0] == "inloop" for c in ev.pc)]
        if len(sts) != 1:
            chk.undecided("C11.decode", desc, f"{len(sts)} definition store(s) inside a loop: only "
                          "the single-store form is decoded", sc.module.path)
            continue
        ev = sts[0]
        F = cn.conj(tuple(c for c in ev.pc if c[0] not in ("inloop", "fact")))
        base = cn.show(ev.data["base"])
        fresh = f"{cn.show(ev.data['idx'])} in {base}"
        rest = f_subst(F, lambda a: ("false",) if a == fresh else None)
        others = sorted(a for a in f_atoms(rest) if a.endswith(" in " + base))
        ok = not others and bool(f_equiv(F, rest) or f_equiv(F, f_and([f_not(A(fresh)), rest])))
        chk.ob("C11.decode", desc, ok,
               "the entry is also skipped depending on other entries of the same target's map: "
               + "; ".join(o[:40] + " ... in the target's map" for o in others) if others
               else "the store condition does not have the keep-first form", ev.loc, firm=bool(others))


def check_mask(ctx, chk):
    repo = ctx.repo
    fi = repo.func(ENV_MOD, "NASimEnv.get_action_mask")
    ip = Interp(repo, ctx.types, param_types={fi.params[0]: "NASimEnv"})
    s = ip.run(fi)
    cn = Canon(ip, ctx.layout)
    cn.written = None
    for ev in s.events:
        if ev.kind == "unresolved-member":
            chk.violation("C11.mask", f"get_action_mask calls {ev.data['cls']}.{ev.data['name']}, "
                          "which does not exist", "every call of get_action_mask raises "
                          "AttributeError", ev.loc)
    I = "each(range(self.action_space.n))"
    want = A(f"self.current_state[self.action_space.actions[{I}].target].discovered")
    sem = mask_semantics(ip, cn, s)
    if sem is None:
        chk.ob("C11.mask", "mask has action_space.n entries", False,
               "the returned value is neither a zeros(n) array filled in a loop nor an array built "
               f"from a per-index comprehension: {[cn.show(t)[:200] for _, t in s.returns]}",
               fi.module.path)
        return
    n_s, it, idx, cond, one, detail = sem
    from sa.canon import f_subst
    # the flat-space type test is the function's precondition, not part of the mask predicate
    cond = f_subst(cond, lambda a: ("true",) if a.startswith("isinstance(self.action_space, ")
                   else None)
    # two equivalent enumerations of the flat actions (C11.size: n = len(actions); C11.enumeration:
    # get_action(i) = actions[i]): by index, or by enumerate(actions)
    EN = "enumerate(self.action_space.actions)"
    forms = {
        "range(self.action_space.n)": (I, want),
        "range(len(self.action_space.actions))": (
            "each(range(len(self.action_space.actions)))",
            A("self.current_state[self.action_space.actions[each(range(len("
              "self.action_space.actions)))].target].discovered")),
        EN: (f"each({EN})[0]", A(f"self.current_state[each({EN})[1].target].discovered")),
    }
    known = it in forms and n_s in ("self.action_space.n", "len(self.action_space.actions)")
    w_idx, w_cond = forms.get(it, (I, want))
    chk.ob("C11.mask", "mask has action_space.n entries", known and idx == w_idx,
           f"length {n_s}, filled over {it} at index {idx}", fi.module.path)
    chk.ob("C11.mask", "mask[i] = 1 exactly when get_action(i).target is discovered in the current "
           "state", one and idx == w_idx and f_equiv(cond, w_cond), detail, fi.module.path)
    # "for every i": the loop that fills the mask visits every index - no break, no return inside
    early = [ev for ev in s.events if ev.kind in ("break", "return")
             and any(c[0] == "inloop" for c in ev.pc)]
    early += [1 for pc, _ in s.returns if any(c[0] == "inloop" for c in pc)]
    chk.ob("C11.mask", "the loop that fills the mask visits every action (no break / return inside "
           "it)", not early, f"{len(early)} early exit(s) inside the loop: entries after the first "
           "one that takes it stay 0" if early else "", fi.module.path, firm=True)


def mask_semantics(ip, cn, s):
    """(length, iterable, index, formula of `entry is 1`, the non-zero value is 1?, description) of the
    mask returned by get_action_mask, for the two ways of writing it: zeros(n) with a guarded store of
    1 inside a loop over the indices, or np.array / np.asarray of a per-index comprehension."""
    rets = s.returns
    if len(rets) > 1 and all(t == rets[0][1] for _, t in rets):
        rets = rets[:1]              # an early `return mask` for an empty space: the same array
    if len(rets) != 1:
        return None
    t = s.returns[0][1]
    # ---- comprehension form
    u = t
    while u[0] == "mcall" and u[2] in ("reshape", "astype", "copy", "flatten", "ravel"):
        u = u[1]
    if u[0] == "call" and u[1] in ("numpy.array", "numpy.asarray", "numpy.fromiter") and u[2]:
        c = u[2][0]
        if c[0] == "call" and c[1] in ("builtins.list", "builtins.tuple") and c[2]:
            c = c[2][0]
        if c[0] == "comp" and c[1] in ("list", "gen") and len(c[3]) == 1 and not c[3][0][2]:
            lid, itr, _ = c[3][0]
            el = c[2][0]
            it_s = cn.show(itr)
            n_s = cn.show(itr[2][0]) if itr[0] == "call" and itr[1] == "builtins.range" \
                and len(itr[2]) == 1 else "?"
            idx = f"each({it_s})"
            if el[0] == "call" and el[1] in ("builtins.int", "builtins.bool") and len(el[2]) == 1:
                cond, one = cn.formula(el[2][0]), True
            elif el[0] == "phi" and el[2] in (C(1), C(True)) and el[3] in (C(0), C(False)):
                cond, one = cn.formula(el[1]), True
            elif el[0] == "phi" and el[3] in (C(1), C(True)) and el[2] in (C(0), C(False)):
                cond, one = f_not(cn.formula(el[1])), True
            else:
                return None
            return n_s, it_s, idx, cond, one, f"array of [{cn.show(el)[:200]} for {it_s}]"
        return None
    # ---- zeros + guarded store form
    zs = [ev for ev in s.events if ev.kind == "call" and ev.data["fname"] == "numpy.zeros"]
    if len(zs) != 1 or cn.norm(t)[0] != "zeros":
        return None
    n_s = cn.show(zs[0].data["args"][0])
    sets = [ev for ev in s.events if ev.kind == "store" and ev.data["target"] == "sub"
            and cn.norm(ev.data["base"])[0] == "zeros"]
    if len(sets) != 1:
        return n_s, "?", "?", ("false",), False, f"{len(sets)} store(s) into the mask"
    ev = sets[0]
    loops = [c[1] for c in ev.pc if c[0] == "inloop"]
    if not loops:
        # one vectorised store: mask[<list of the valid indices>] = 1 or mask[<boolean array>] = 1
        ix = ev.data["idx"]
        one = ev.data["value"] in (C(1), C(True))
        if ix[0] == "call" and ix[1] in ("builtins.list", "builtins.tuple") and len(ix[2]) == 1:
            ix = ix[2][0]
        if ix[0] == "comp" and ix[1] in ("list", "gen") and len(ix[3]) == 1:
            lid, itr, conds = ix[3][0]
            if ix[2][0] == ("elem", itr, lid):
                it_s = cn.show(itr)
                return n_s, it_s, f"each({it_s})", cn.conj(tuple(conds)), one, \
                    f"mask[[i for i in {it_s} if {f_show(cn.conj(tuple(conds)))[:200]}]] := 1"
        if ix[0] == "call" and ix[1] in ("numpy.fromiter", "numpy.array", "numpy.asarray") \
                and ix[2] and dict(ix[3]).get("dtype") in (("ext", "builtins.bool"),
                                                           ("ext", "numpy.bool_")):
            c = ix[2][0]
            if c[0] == "comp" and c[1] in ("list", "gen") and len(c[3]) == 1 and not c[3][0][2]:
                lid, itr, _ = c[3][0]
                it_s = cn.show(itr)
                cond = cn.formula(c[2][0])
                return n_s, it_s, f"each({it_s})", cond, one, \
                    f"mask[bool array of ({f_show(cond)[:200]}) for {it_s}] := 1"
        return None
    it = cn.show(ip.loops[loops[0]]["iter"]) if len(loops) == 1 else "?"
    idx = cn.show(ev.data["idx"])
    conds = [c for c in ev.pc if c[0] not in ("inloop", "fact") and c[0] != "istype"
             and not (c[0] == "call" and c[1] == "builtins.isinstance")]
    cond = cn.conj(tuple(conds))
    return n_s, it, idx, cond, ev.data["value"] in (C(1), C(True)), \
        f"mask[{idx}] := {cn.show(ev.data['value'])} over {it} when {f_show(cond)[:300]}"


def check_order(ctx, chk):
    ot = taint(ctx)
    fi = ctx.repo.func(ACT_MOD, "load_action_list")
    bad = []
    for n in ast.walk(fi.node):
        if isinstance(n, ast.For) and ot.kind(fi, n.iter) == HASH:
            bad.append(n.lineno)
    for attr in ("address_space", "exploits", "privescs", "hosts"):
        m = ctx.repo.func("nasim.scenarios.scenario", f"Scenario.{attr}")
        for n in ast.walk(m.node):
            if isinstance(n, ast.Return) and n.value is not None and ot.kind(m, n.value) == HASH:
                bad.append(f"Scenario.{attr}")
    chk.ob("C11.order", "index->action mapping depends on ordered containers only", not bad,
           str(bad), fi.module.path)
