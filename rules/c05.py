"""C05 - reward is value gained minus action cost and every value is paid once.

  C05.reward       in generative_step the returned reward is  +1*result.value -1*action.cost  with
                   `result` the second value of network.perform_action(state, action) and `action`
                   the (decoded) action passed to it
  C05.fail-zero    every ActionResult built with success=False has literal value 0 (16 sites)
  C05.noop         NoOp: success result with default value 0, constructor passes cost literal 0
  C05.value-root   exploit / escalation results carry the host's value exactly when ROOT is newly
                   obtained (enumeration over previous x granted), literal 0 otherwise; on the same
                   path the access store makes it ROOT (pay => mark)
  C05.discovery    subnet scan: discovery value added exactly for addresses that are connected and
                   not yet discovered, and on the same path discovered := True is stored
"""
from sa.canon import f_show, f_equiv, f_and, f_not, A
from sa.evalterm import eval_term, Undecidable
from sa.interp import C
from . import envfacts
from .envfacts import PERFORM
from .gates import REQUIRED, facts, T
from .c01 import access_levels
from .c03 import CONNECTED, EACH

EXPLANATION = (
    "Def-use resolution of the reward expression in NASimEnv.generative_step (abstract "
    "interpretation with perform_action kept opaque); literal reading of the constructor "
    "arguments of all ActionResult sites in the per-class gate tables; exact enumeration of the "
    "value expression over access levels; pairing of the discovery-reward accumulation with "
    "the store that marks the host discovered (same path condition).")


def linear(t, sign=1, acc=None):
    if acc is None:
        acc = {}
    if t[0] == "bin" and t[1] in ("+", "-"):
        linear(t[2], sign, acc)
        linear(t[3], sign if t[1] == "+" else -sign, acc)
    elif t[0] == "neg":
        linear(t[1], -sign, acc)
    else:
        acc[t] = acc.get(t, 0) + sign
    return acc


def run(ctx, chk):
    chk.explanation = EXPLANATION
    r = envfacts.gstep_shallow(ctx)
    cn = r.cn
    calls = r.calls(PERFORM)
    ok = len(r.returns) == 1 and len(calls) == 1
    detail = f"{len(r.returns)} return(s), {len(calls)} perform_action call(s)"
    if ok:
        ret = r.returns[0][1]
        call = calls[0]
        res = call.data["result"]
        act_arg = call.data["args"][2] if len(call.data["args"]) >= 3 else None
        ok = ret[0] == "tuple" and len(ret[1]) == 5
        if ok:
            lin = linear(cn.norm(ret[1][2]))
            lin_s = {cn.show(k): v for k, v in lin.items()}
            want = {cn.show(("attr", ("proj", res, 1), "value")): 1}
            # cost of the decoded action (possibly a phi over the isinstance test)
            from sa.interp import _State, _Activation
            cost = cn.show(r.ip._getattr(act_arg, "cost", _State({}, ()),
                                         _Activation(r.fi, (), 0), r.fi.node))
            want[cost] = -1
            ok = lin_s == want
            detail = f"reward = {cn.show(ret[1][2])[:300]}"
    chk.ob("C05.reward", "generative_step: reward = result.value - action.cost "
           "(result/action of the same perform_action call)", ok, detail, r.fi.module.path)
    chk.sample({"rule": "C05.reward", "derived": detail[:400]})
    # ------------------------------------------------------------- result sites
    lv = access_levels(ctx)
    seen = set()
    nsites = 0
    for K in ctx.action_classes:
        if K not in REQUIRED:
            continue
        cf = facts(ctx, K)
        cn = cf.cn
        for o in cf.outcomes:
            loc = site_of(cf, o)
            v = o.fields.get("value")
            succ = o.flag("success")
            key = (loc, K)
            if succ is False:
                if loc in seen:
                    continue
                seen.add(loc)
                nsites += 1
                z = v is not None and v[0] == "const" and v[1] in (0, 0.0) \
                    and not isinstance(v[1], bool)
                chk.ob("C05.fail-zero", f"{fn_of(cf, o)}: failure result has literal value 0",
                       z, f"value {cn.show(v)}", loc, nontrivial=False)
                continue
            nsites += 1 if loc not in seen else 0
            seen.add(loc)
            if K == "NoOp":
                z = v is not None and v[0] == "const" and v[1] in (0, 0.0)
                chk.ob("C05.noop", "NoOp: result value is 0", z, cn.show(v), loc)
            elif K in ("Exploit", "PrivilegeEscalation"):
                check_value_root(chk, cf, o, lv, loc)
            elif K == "SubnetScan":
                check_discovery(chk, cf, o, loc)
            else:
                z = v is not None and v[0] == "const" and v[1] in (0, 0.0) \
                    and not isinstance(v[1], bool)
                chk.ob("C05.scan-zero", f"{K}: success result has literal value 0", z,
                       cn.show(v), loc, nontrivial=False)
    chk.floor("C05.sites", nsites, 8, "ActionResult sites")
    # NoOp cost literal 0
    fi = ctx.repo.func("nasim.envs.action", "NoOp.__init__")
    ip = ctx.interp()
    obj = ("obj", "NoOp", "N")
    s = ip.run(fi, {fi.params[0]: obj})
    costs = [ev for ev in s.events if ev.kind == "store" and ev.data.get("name") == "cost"]
    ok = len(costs) == 1 and costs[0].data["value"] in (C(0), C(0.0))
    chk.ob("C05.noop", "NoOp.__init__ passes cost literal 0", ok,
           f"{[str(c.data['value']) for c in costs]}", fi.module.path)
    chk.assume("status flags are never cleared (C04), hence 'paid at most once' follows from "
               "pay => mark")


def ip_attr(r, base, name):
    """attribute of a possibly phi-valued term"""
    if base is None:
        return ("unknown", "?")
    if base[0] == "phi":
        a, b = ip_attr(r, base[2], name), ip_attr(r, base[3], name)
        return a if a == b else ("phi", base[1], a, b)
    return ("attr", base, name)


def site_of(cf, o):
    for ev in cf.d.summary.events:
        if ev.kind == "new" and ev.data["obj"] == o.result_t:
            return ev.loc
    return "?"


def fn_of(cf, o):
    for ev in cf.d.summary.events:
        if ev.kind == "new" and ev.data["obj"] == o.result_t:
            return ev.func.split(":")[1] + f" ({ev.loc.split(':')[1]})"
    return "?"


def check_value_root(chk, cf, o, lv, loc):
    cn = cf.cn
    v = cn.norm(o.fields.get("value"))
    prev_s = f"state[{T}].access"
    val_s = f"state[{T}].value"
    bad = []
    und = None
    for pn, p in lv.items():
        for gn in ("USER", "ROOT"):
            g = lv[gn]

            def lookup(t):
                s = cn._show(t, {})
                if s == prev_s:
                    return p
                if s == "action.access":
                    return g
                if s == val_s:
                    return "HOSTVALUE"
                raise KeyError(s)
            try:
                got = eval_term(v, lookup)
            except (Undecidable, KeyError) as ex:
                und = str(ex)
                break
            newly_root = p != lv["ROOT"] and max(p, g) == lv["ROOT"]
            exp = "HOSTVALUE" if newly_root else 0
            if got != exp:
                bad.append(f"previous={pn} granted={gn}: value {got}, expected {exp}")
        if und:
            break
    construct = f"{cf.K}: result value is the host's value exactly when ROOT is newly obtained"
    if und:
        chk.undecided("C05.value-root", construct, f"value expression {cn.show(v)}: {und}", loc)
        return
    chk.ob("C05.value-root", construct, not bad, "; ".join(bad) + f" [value = {cn.show(v)}]", loc)
    # pay => mark: the access store on the same exit
    marks = [e for e in cf.net_effects(o) if e["kind"] == "cell" and e["fam"] == "access"]
    chk.ob("C05.pay-mark", f"{cf.K}: the exit that pays the value also stores the new access level",
           len(marks) >= 1, f"{len(marks)} access store(s)", loc)
    # ... and the stored level never drops below ROOT again (otherwise the value is paid twice)
    from .c01 import check_level
    from .c04 import _Wrap
    for e in marks:
        check_level(None, _Wrap(chk, "C05.no-repay"), cf, o, e, lv)


def check_discovery(chk, cf, o, loc):
    cn, d = cf.cn, cf.d
    v = o.fields.get("value")
    from .shapes import summation
    sm = summation(d.ip, cn, d.summary.events, v)
    detail = f"value {cn.show(v)[:200]}" if v is not None else "no value"
    if sm is None:
        chk.undecided("C05.discovery", "SubnetScan: discovery value added exactly for connected, "
                      "not yet discovered addresses, starting from 0", "the result's value is not "
                      f"a running sum the analysis decodes: {detail}", loc)
        return
    init, parts = sm
    ok = init in (C(0), C(0.0)) and len(parts) == 1
    # (the sum is decoded: describe it by its parts, not by the raw loop term)
    detail = f"running sum starting at {cn.show(init)} with {len(parts)} adding site(s)"
    if ok:
        added_t, loops, inside, _ev = parts[0]
        cond = cf.strip(cn.conj(tuple(inside)))
        want = f_and([A(CONNECTED), f_not(A(f"copy(state)[{EACH}].discovered"))])
        want0 = f_and([A(CONNECTED), f_not(A(f"state[{EACH}].discovered"))])
        added = cn.show(added_t)
        ok = (f_equiv(cond, want) or f_equiv(cond, want0)) \
            and added in (f"state[{EACH}].discovery_value", f"copy(state)[{EACH}].discovery_value")
        detail = f"adds {added} under {f_show(cond)}"
        # pay => mark: discovered := True is stored for the same address under the same condition
        marks = []
        for e in cf.net_effects(o):
            if e["kind"] == "cell" and e["fam"] == "discovered" and e["addr"] == EACH:
                ins, seen = [], False
                for c in e["ev"].pc:
                    if c[0] == "inloop":
                        seen = True
                    elif seen and c[0] != "fact":
                        ins.append(c)
                mc = cf.strip(cn.conj(tuple(ins)))
                if f_equiv(mc, cond) or f_equiv(mc, want) or f_equiv(mc, want0):
                    marks.append(e)
        others = [e for e in cf.net_effects(o) if e["kind"] == "cell"
                  and e["fam"] == "discovered" and e["addr"] != EACH]
        if not marks and others:
            chk.undecided("C05.pay-mark", "SubnetScan: the path that adds a discovery value also "
                          "stores discovered := True for the same address",
                          f"discovered is stored for {others[0]['addr'][:160]}, not for {EACH}: the "
                          "two ranges are not compared", loc)
        else:
            chk.ob("C05.pay-mark", "SubnetScan: the path that adds a discovery value also stores "
                   "discovered := True for the same address", len(marks) == 1,
                   f"{len(marks)} matching store(s)", loc)
    chk.ob("C05.discovery", "SubnetScan: discovery value added exactly for connected, not yet "
           "discovered addresses, starting from 0", ok, detail, loc)
