"""Small interval domain with open/closed ends over AST expressions (generator
parameter domain, division denominators)."""
import ast
import math

INF = math.inf


class Iv:
    """interval [lo, hi] with open flags; integer flag for range indices/counters"""
    __slots__ = ("lo", "hi", "lo_open", "hi_open", "integer")

    def __init__(self, lo, hi, lo_open=False, hi_open=False, integer=False):
        self.lo, self.hi, self.lo_open, self.hi_open, self.integer = lo, hi, lo_open, hi_open, \
            integer
        if integer:
            if lo_open and lo != -INF:
                self.lo, self.lo_open = lo + 1, False
            if hi_open and hi != INF:
                self.hi, self.hi_open = hi - 1, False

    def contains_zero(self):
        if self.lo > 0 or self.hi < 0:
            return False
        if self.lo == 0 and self.lo_open:
            return False
        if self.hi == 0 and self.hi_open:
            return False
        return True

    def __repr__(self):
        a = "(" if self.lo_open or self.lo == -INF else "["
        b = ")" if self.hi_open or self.hi == INF else "]"
        return f"{a}{self.lo}, {self.hi}{b}" + ("int" if self.integer else "")


TOP = Iv(-INF, INF, True, True)


def add(a, b):
    return Iv(a.lo + b.lo, a.hi + b.hi, a.lo_open or b.lo_open, a.hi_open or b.hi_open,
              a.integer and b.integer)


def neg(a):
    return Iv(-a.hi, -a.lo, a.hi_open, a.lo_open, a.integer)


def const(v, integer=None):
    return Iv(v, v, integer=isinstance(v, int) if integer is None else integer)


def evaluate(e, env, consts):
    """env: name -> Iv ; consts: name -> number"""
    if isinstance(e, ast.Constant) and isinstance(e.value, (int, float)) \
            and not isinstance(e.value, bool):
        return const(e.value)
    if isinstance(e, ast.Name):
        if e.id in env:
            return env[e.id]
        if e.id in consts:
            return const(consts[e.id])
        return TOP
    if isinstance(e, ast.UnaryOp) and isinstance(e.op, ast.USub):
        return neg(evaluate(e.operand, env, consts))
    if isinstance(e, ast.BinOp):
        a, b = evaluate(e.left, env, consts), evaluate(e.right, env, consts)
        if isinstance(e.op, ast.Add):
            return add(a, b)
        if isinstance(e.op, ast.Sub):
            return add(a, neg(b))
        if isinstance(e.op, ast.Mult):
            cands = []
            for x in (a.lo, a.hi):
                for y in (b.lo, b.hi):
                    try:
                        v = x * y
                    except Exception:
                        v = math.nan
                    if v != v:
                        v = 0
                    cands.append(v)
            if a.lo >= 0 and b.lo >= 0:
                return Iv(min(cands), max(cands), (a.lo_open or b.lo_open) and min(cands) == 0
                          and not (a.lo == 0 and not a.lo_open) and not (b.lo == 0 and not b.lo_open),
                          True, a.integer and b.integer)
            return Iv(min(cands), max(cands), False, False, a.integer and b.integer)
    return TOP


def refine_nonzero(iv):
    """x != 0 for a non-negative integer x  =>  x >= 1"""
    if iv.integer and iv.lo == 0 and not iv.lo_open:
        return Iv(1, iv.hi, False, iv.hi_open, True)
    return iv
