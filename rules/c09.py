"""C09 - state and observation vectors follow the documented layout.

  C09.layout      the index assignments of the layout classmethod, evaluated as linear forms in
                  (B0, B1, nOS, nS, nP), cover every documented column family at its documented
                  offset; state_size is the documented size; slice helpers have documented bounds
  C09.accessor    every public accessor / setter / is_running_* / readable entry of HostVector reads
                  (writes) the column family of its own name
  C09.vectorize   vectorize stores Host field f into family f (address[0]/[1] into the one-hots) and
                  the name->index maps are built by the same positional enumeration it uses
  C09.dims        Scenario.get_state_dims()[1] is the same linear form; observation dims add one row;
                  Observation shape/aux_row agree; aux slots fold to 0..3
  C09.flatten     numpy_flat() is tensor.flatten() with default (row-major) order
  C09.from-numpy  from_numpy constructors reshape to the constructors' own shape expressions
  C09.order       OS/service/process dicts are built by iterating the scenario's *lists* in order
  C09.onehot-range generator guards the address-space bounds; default bounds are (#subnets, max size)
"""
import ast
import re

from sa.canon import Canon, f_show
from sa.ctx import HV_MOD, STATE_MOD, OBS_MOD, store_effect
from sa.interp import Interp, C
from sa.layout import lf_key, lf_str, lf, lf_add, SCALARS, GROUPS
from sa.model import AnalysisError
from .c08 import lin

EXPLANATION = (
    "Symbolic evaluation of the layout classmethod into linear forms and comparison with the "
    "documented layout (HostVector docstring); abstract interpretation of every HostVector "
    "accessor on a symbolic row so that its index expression resolves to a column family; "
    "linear-form comparison of Scenario.get_state_dims with the layout size.")

GETTERS = ["compromised", "reachable", "discovered", "value", "discovery_value", "access"]
SETTERS = ["compromised", "reachable", "discovered", "access"]
GROUP_PROPS = {"services": "service_idx_map", "os": "os_idx_map", "processes": "process_idx_map"}
IS_RUNNING = {"is_running_service": ("services", "service_idx_map"),
              "is_running_os": ("os", "os_idx_map"),
              "is_running_process": ("processes", "process_idx_map")}
READABLE = {"Compromised": "compromised", "Reachable": "reachable", "Discovered": "discovered",
            "Value": "value", "Discovery Value": "discovery_value", "Access": "access"}


def sym_host(ctx):
    ip = Interp(ctx.repo, ctx.types, param_types={"S": "State", "host": "Host"})
    oid = ip.new_id()
    S = ("param", "S")
    vec = ("sub", ("attr", S, "tensor"), ("sub", ("attr", S, "host_num_map"), ("param", "A")))
    ip.heap[oid] = {"kind": "obj", "fields": {"vector": vec}, "pc0": (), "cls": "HostVector"}
    return ip, ("new", "HostVector", oid)


def unwrap(v):
    while v[0] in ("num", "truth"):
        v = v[1]
    return v


def run(ctx, chk):
    chk.explanation = EXPLANATION
    L = ctx.layout
    hv = L.hv
    path = hv.module.path
    # ------------------------------------------------------------------ layout
    chk.ob("C09.layout", "layout classmethod consists of plain index assignments",
           "?other" not in L.assign_nodes, "", path, nontrivial=False)
    covered = {}
    for name, form in L.forms.items():
        if any(k.startswith("?") for k in form):
            chk.undecided("C09.layout", f"index {name} has a non-linear/unknown form",
                          lf_str(form), path)
            continue
        r = L.family_of_form(form)
        for fam, kind in r:
            covered.setdefault(fam, []).append(name)
    for fam, (start, length) in L.doc.items():
        names = covered.get(fam, [])
        chk.ob("C09.layout", f"family {fam} starts at {lf_str(start)} (length {lf_str(length)})",
               len(names) >= 1,
               f"no index attribute evaluates to {lf_str(start)}; forms: "
               f"{ {n: lf_str(f) for n, f in L.forms.items()} }" if not names else
               f"index attribute(s) {names}", path)
    size = L.forms.get("state_size")
    chk.ob("C09.layout", f"state_size = {lf_str(L.doc_size)}",
           size is not None and lf_key(size) == lf_key(L.doc_size),
           f"state_size = {lf_str(size) if size is not None else None}", path)
    # distinct index attributes must not alias (two names, one offset) unless documented
    byform = {}
    for name, form in L.forms.items():
        if name.endswith("_idx"):
            byform.setdefault(lf_key(form), []).append(name)
    alias = [v for v in byform.values() if len(v) > 1]
    chk.ob("C09.layout", "no two index attributes share an offset", not alias, str(alias), path)
    chk.sample({"rule": "C09.layout", "forms": {n: lf_str(f) for n, f in L.forms.items()}})
    # ------------------------------------------------------------------ accessors
    n_acc = 0
    for name in GETTERS:
        m = hv.methods.get(name)
        if m is None or m.flavour != "property":
            chk.violation("C09.accessor", f"HostVector.{name} property missing", "", path)
            continue
        ip, obj = sym_host(ctx)
        s = ip.run(m, {m.params[0]: obj})
        cn = Canon(ip, L)
        cn.written = None
        vals = [unwrap(cn.norm(t)) for _, t in s.returns]
        ok = len(vals) == 1 and vals[0][0] == "cell" and vals[0][2] == name and vals[0][3] is None \
            and cn.show(vals[0][1]) == "S[A]"
        n_acc += 1
        chk.ob("C09.accessor", f"HostVector.{name} reads column {name} of its own row", ok,
               str([cn.show(v) for v in vals]), f"{path}:{m.node.lineno}")
    for name in SETTERS:
        m = hv.setters.get(name)
        if m is None:
            chk.violation("C09.accessor", f"HostVector.{name} setter missing", "", path)
            continue
        ip, obj = sym_host(ctx)
        s = ip.run(m, {m.params[0]: obj})
        cn = Canon(ip, L)
        cn.written = None
        effs = [e for e in (store_effect(cn, ev) for ev in s.events if ev.kind == "store") if e]
        ok = len(effs) == 1 and effs[0].kind == "cell" and effs[0].fam == name \
            and cn.show(effs[0].root) == "S[A]" and \
            cn.show(unwrap(cn.norm(effs[0].value))) == m.params[1]
        n_acc += 1
        chk.ob("C09.accessor", f"HostVector.{name} setter writes column {name} of its own row", ok,
               str([(e.fam, cn.show(e.value)) for e in effs]), f"{path}:{m.node.lineno}")
    m = hv.methods.get("address")
    if m is not None:
        ip, obj = sym_host(ctx)
        s = ip.run(m, {m.params[0]: obj})
        cn = Canon(ip, L)
        cn.written = None
        txt = [cn.show(t) for _, t in s.returns]
        n_acc += 1
        chk.ob("C09.accessor", "HostVector.address = (argmax of the subnet one-hot, argmax of the "
               "host one-hot)", txt == ["(S[A].subnet_onehot[:].argmax(), "
                                        "S[A].host_onehot[:].argmax())"], str(txt),
               f"{path}:{m.node.lineno}")
    for name, (fam, mp) in IS_RUNNING.items():
        m = hv.methods.get(name)
        if m is None:
            chk.violation("C09.accessor", f"HostVector.{name} missing", "", path)
            continue
        ip, obj = sym_host(ctx)
        s = ip.run(m, {m.params[0]: obj})
        cn = Canon(ip, L)
        cn.written = None
        vals = [unwrap(cn.norm(t)) for _, t in s.returns]
        ok = len(vals) == 1 and vals[0][0] == "cell" and vals[0][2] == fam and \
            cn.show(vals[0][3]) == f"HostVector.{mp}[{m.params[1]}]" and \
            cn.show(vals[0][1]) == "S[A]"
        n_acc += 1
        chk.ob("C09.accessor", f"HostVector.{name}(x) reads {fam}[{mp}[x]] of its own row", ok,
               str([cn.show(v) for v in vals]), f"{path}:{m.node.lineno}")
    for name, mp in GROUP_PROPS.items():
        m = hv.methods.get(name)
        if m is None:
            continue
        ip, obj = sym_host(ctx)
        s = ip.run(m, {m.params[0]: obj})
        cn = Canon(ip, L)
        cn.written = None
        ok = False
        detail = ""
        if len(s.returns) == 1:
            from .shapes import as_mapping, mapping_value_term
            rt = s.returns[0][1]
            mp_ = as_mapping(ip, cn, rt)
            detail = str(mp_) if mp_ else cn.show(rt)
            if mp_ is not None:
                ks, vs, loops, cond = mp_
                v = unwrap(cn.norm(mapping_value_term(ip, rt)))
                M = f"HostVector.{mp}"
                ok = ks == f"each({M})" and loops == [M] \
                    and cond == ("true",) and v[0] == "cell" and v[2] == name and \
                    cn.show(v[3]) == f"{M}[each({M})]" and cn.show(v[1]) == "S[A]"
        n_acc += 1
        chk.ob("C09.accessor", f"HostVector.{name} maps each name of {mp} to its own flag in family "
               f"{name}", ok, detail, f"{path}:{m.node.lineno}")
    check_readable(ctx, chk, hv)
    chk.floor("C09.accessor", n_acc, 10, "accessors")
    check_slices(ctx, chk, hv)
    check_vectorize(ctx, chk, hv)
    check_dims(ctx, chk)
    check_flatten_reshape(ctx, chk)
    check_order(ctx, chk)
    check_reinit(ctx, chk)
    from .rowprov import check_positions
    nrow = check_positions(ctx, chk, "C09.rows",
                           {"nasim.envs.state", "nasim.envs.network", "nasim.envs.observation",
                            "nasim.envs.environment", "nasim.envs.host_vector"},
                           {"tensor"}, "the state / observation tensor")
    chk.floor("C09.rows", nrow, 5, "row subscripts of the tensor")
    check_order_stable(ctx, chk)
    check_onehot_range(ctx, chk)
    chk.assume("'decoding the initial state reproduces every host definition' is concluded from "
               "C09.vectorize + C09.accessor + C09.order, not observed at run time")


def check_readable(ctx, chk, hv):
    m = hv.methods.get("get_readable")
    if m is None:
        chk.undecided("C09.accessor", "HostVector.get_readable missing")
        return
    ip = Interp(ctx.repo, ctx.types, param_types={"S": "State"})
    S = ("param", "S")
    vec = ("sub", ("attr", S, "tensor"), ("sub", ("attr", S, "host_num_map"), ("param", "A")))
    s = ip.run(m, {m.params[0]: ("classref", "HostVector"), m.params[1]: vec})
    cn = Canon(ip, ctx.layout)
    cn.written = None
    if len(s.returns) != 1 or s.returns[0][1][0] != "dictobj":
        chk.undecided("C09.accessor", "get_readable does not return a local dict")
        return
    h = ip.heap[s.returns[0][1][1]]
    for key, fam in READABLE.items():
        v = h["items"].get(key)
        ok = False
        if v is not None:
            v = unwrap(cn.norm(v))
            ok = v[0] == "cell" and v[2] == fam and cn.show(v[1]) == "S[A]"
        chk.ob("C09.accessor", f"get_readable['{key}'] decodes column {fam}", ok,
               cn.show(v) if v is not None else "missing", f"{hv.module.path}:{m.node.lineno}",
               nontrivial=False)
    a = h["items"].get("Address")
    chk.ob("C09.accessor", "get_readable['Address'] decodes the two one-hots",
           a is not None and cn.show(a) == "(S[A].subnet_onehot[:].argmax(), "
           "S[A].host_onehot[:].argmax())", cn.show(a) if a else "missing",
           f"{hv.module.path}:{m.node.lineno}", nontrivial=False)
    fams = []
    for k, v, _ in h["dyn"]:
        v = unwrap(cn.norm(v))
        if v[0] == "cell":
            fams.append((v[2], cn.show(v[3])))
    want = {("os", "HostVector.os_idx_map[each(HostVector.os_idx_map)]"),
            ("services", "HostVector.service_idx_map[each(HostVector.service_idx_map)]"),
            ("processes", "HostVector.process_idx_map[each(HostVector.process_idx_map)]")}
    chk.ob("C09.accessor", "get_readable decodes every OS/service/process name through its own "
           "index map", set(fams) == want, str(fams), f"{hv.module.path}:{m.node.lineno}")


def check_slices(ctx, chk, hv):
    L = ctx.layout
    seen = {}
    for name, m in hv.methods.items():
        # the helpers are found by what they return - a slice object built from layout indices -,
        # not by their (private) names
        if m.flavour != "classmethod" or len(m.params) != 1 or not any(
                isinstance(n, ast.Call) and isinstance(n.func, ast.Name) and n.func.id == "slice"
                for n in ast.walk(m.node)):
            continue
        ip = Interp(ctx.repo, ctx.types)
        s = ip.run(m, {m.params[0]: ("classref", "HostVector")})
        cn = Canon(ip, L)
        if len(s.returns) != 1:
            continue
        t = cn.norm(s.returns[0][1])
        if t[0] != "slice":
            continue
        fam, elem = cn.index_family(t)
        ok = fam in GROUPS and elem == "ALL"
        seen[fam] = name
        chk.ob("C09.layout", f"slice helper {name} spans exactly family {fam}", ok,
               cn.show(t), f"{hv.module.path}:{m.node.lineno}")
    # (whether such helpers exist at all is not part of the property: the accessors that use them
    # are decided by C09.accessor on the columns they end up reading)
    chk.note(f"slice helpers found for families {sorted(seen)}")


def check_vectorize(ctx, chk, hv):
    m = hv.methods.get("vectorize")
    if m is None:
        raise AnalysisError("HostVector.vectorize not found")
    L = ctx.layout
    ip = Interp(ctx.repo, ctx.types, param_types={m.params[1]: "Host"},
                no_inline=(L.init_fn.fq,))
    args = {m.params[0]: ("classref", "HostVector")}
    if len(m.params) > 3:
        args[m.params[3]] = C(None)
    s = ip.run(m, args)
    cn = Canon(ip, L)
    cn.written = None
    H = m.params[1]
    effs = [e for e in (store_effect(cn, ev) for ev in s.events if ev.kind == "store")
            if e is not None and e.kind == "cell"]
    got = {}
    for e in effs:
        v = unwrap(cn.norm(e.value))
        got.setdefault(e.fam, []).append((cn.show(e.elem) if isinstance(e.elem, tuple) else e.elem,
                                          cn.show(v), e))
    want = {
        "subnet_onehot": (f"{H}.address[0]", "1"),
        "host_onehot": (f"{H}.address[1]", "1"),
        "compromised": (None, f"{H}.compromised"),
        "reachable": (None, f"{H}.reachable"),
        "discovered": (None, f"{H}.discovered"),
        "value": (None, f"{H}.value"),
        "discovery_value": (None, f"{H}.discovery_value"),
        "access": (None, f"{H}.access"),
        "os": (f"each(enumerate({H}.os.items()))[0]", f"each(enumerate({H}.os.items()))[1][1]"),
        "services": (f"each(enumerate({H}.services.items()))[0]",
                     f"each(enumerate({H}.services.items()))[1][1]"),
        "processes": (f"each(enumerate({H}.processes.items()))[0]",
                      f"each(enumerate({H}.processes.items()))[1][1]"),
    }
    from sa.canon import respell
    want = {k_: (respell(a_) if a_ else a_, respell(b_)) for k_, (a_, b_) in want.items()}
    for fam, (welem, wval) in want.items():
        g = got.get(fam, [])
        ok = len(g) == 1 and g[0][0] == welem and g[0][1] == wval
        if not ok and len(g) == 1 and fam in ("os", "services", "processes"):
            # the same positional pairing through a list built by one unconditional pass over the
            # host's dict: entry i of [f(v) for v in host.<fam>.values()] is the i-th flag
            M = f"{H}.{fam}"
            V = f"{M}[each({M})]"
            ok = g[0][0] == f"each(enumerate([{V} for each({M})]))[0]" and g[0][1] == V
        chk.ob("C09.vectorize", f"vectorize: family {fam}"
               f"{'[' + welem + ']' if welem else ''} := {wval}", ok,
               str([(a, b) for a, b, _ in g]), f"{hv.module.path}:{m.node.lineno}")
    extra = set(got) - set(want)
    chk.ob("C09.vectorize", "vectorize stores nothing outside the documented families", not extra,
           str(extra), hv.module.path, nontrivial=False)
    # fresh vector is float32 of state_size
    zs = [ev for ev in s.events if ev.kind == "call" and ev.data["fname"] == "numpy.zeros"]
    ok = bool(zs) and all(cn.show(z.data["args"][0]) == "HostVector.state_size"
                          and dict(z.data["kwargs"]).get("dtype") == ("ext", "numpy.float32")
                          for z in zs)
    chk.ob("C09.vectorize", "vectorize allocates np.zeros(state_size, dtype=float32)", ok,
           str([cn.show(z.data["result"]) for z in zs]), hv.module.path, nontrivial=False)
    # index maps: built by enumerate over the same dicts (positional agreement)
    init = L.init_fn
    ip2 = Interp(ctx.repo, ctx.types)
    s2 = ip2.run(init, {init.params[0]: ("classref", "HostVector")})
    cn2 = Canon(ip2, L)
    actual = {p: ast.unparse(a) for p, a in L.init_actuals.items()}
    for attr, hostattr in (("os_idx_map", "os"), ("service_idx_map", "services"),
                           ("process_idx_map", "processes")):
        stores = [ev for ev in s2.events if ev.kind == "store" and ev.data["target"] == "sub"
                  and cn2.show(ev.data["base"]).startswith("{")]
        ok = False
        detail = ""
        found_map = False
        for ev in s2.events:
            if ev.kind == "store" and ev.data["target"] == "attr" and ev.data["name"] == attr:
                d = ev.data["value"]
                from .shapes import as_mapping
                mp_ = as_mapping(ip2, cn2, d)
                # (an empty dict bound first and filled afterwards: judged at the filling store)
                if mp_ is None and d[0] == "dictobj" and not ip2.heap[d[1]]["dyn"] \
                        and not ip2.heap[d[1]]["items"]:
                    continue
                detail = str(mp_) if mp_ else cn2.show(d)[:200]
                # parameter bound to host.<hostattr> at the call in vectorize
                par = [p for p, a in actual.items() if a.endswith("." + hostattr)]
                if mp_ is not None and par:
                    it = f"each(enumerate({par[0]}))"
                    ok = mp_[0] == f"{it}[1]" and mp_[1] == f"{it}[0]" \
                        and mp_[2] == [f"enumerate({par[0]})"] and mp_[3] == ("true",)
                    found_map = True
        desc = (f"{attr}[name] = position of name in enumerate(host.{hostattr}.items()) (same "
                "enumeration vectorize uses)")
        if not found_map:
            chk.undecided("C09.vectorize", desc, "the index map is not built uniformly over one "
                          f"iterable in a form the analysis decodes: {detail}",
                          f"{hv.module.path}:{init.node.lineno}")
        else:
            chk.ob("C09.vectorize", desc, ok, detail, f"{hv.module.path}:{init.node.lineno}")


def check_dims(ctx, chk):
    sc = ctx.repo.cls("nasim.scenarios.scenario", "Scenario")
    m = sc.methods.get("get_state_dims")
    ip = Interp(ctx.repo, ctx.types, param_types={"self": "Scenario"})
    s = ip.run(m)
    cn = Canon(ip, ctx.layout)
    ok = False
    detail = ""
    if len(s.returns) == 1 and s.returns[0][1][0] == "tuple" and len(s.returns[0][1][1]) == 2:
        rows, cols = s.returns[0][1][1]
        lf_ = lin(cn, cols)
        detail = f"rows {cn.show(rows)}; cols {lf_}"
        B = "self.scenario_dict.get('address_space_bounds', (len(self.scenario_dict['subnets']), " \
            "max(self.scenario_dict['subnets'])))"
        want = {f"{B}[0]": 1, f"{B}[1]": 1, "1": 6, "len(self.scenario_dict['os'])": 1,
                "len(self.scenario_dict['services'])": 1,
                "len(self.scenario_dict['processes'])": 1}
        ok = lf_ == want and cn.show(rows) == "len(self.scenario_dict['host'])"
    chk.ob("C09.dims", "Scenario.get_state_dims() = (#hosts, B0 + B1 + 6 + #os + #services + "
           "#processes)", ok, detail, f"{sc.module.path}:{m.node.lineno}")
    m2 = sc.methods.get("get_observation_dims")
    ip = Interp(ctx.repo, ctx.types, param_types={"self": "Scenario"},
                no_inline=("nasim.scenarios.scenario:Scenario.get_state_dims",))
    s = ip.run(m2)
    cn = Canon(ip, ctx.layout)
    txt = [cn.show(t) for _, t in s.returns]
    D = "nasim.scenarios.scenario:Scenario.get_state_dims(self)"
    chk.ob("C09.dims", "Scenario.get_observation_dims() = (state rows + 1, state cols)",
           txt == [f"(({D}[0]+1), {D}[1])"], str(txt), f"{sc.module.path}:{m2.node.lineno}")
    ob = ctx.repo.cls(OBS_MOD, "Observation")
    init = ob.methods["__init__"]
    ip = Interp(ctx.repo, ctx.types)
    obj = ("obj", "Observation", "O")
    s = ip.run(init, {init.params[0]: obj})
    cn = Canon(ip, ctx.layout)
    st = {ev.data["name"]: ev.data["value"] for ev in s.events
          if ev.kind == "store" and ev.data["target"] == "attr"}
    sp = init.params[1]
    shape_ok = cn.show(st.get("obs_shape", C(None))) == f"(({sp}[0]+1), {sp}[1])"
    aux_ok = lin(cn, st.get("aux_row", C(-1))) == {f"{sp}[0]": 1}
    tens = cn.norm(st.get("tensor", C(None)))
    t_ok = tens[0] == "zeros" and cn.show(tens[1]) == f"(({sp}[0]+1), {sp}[1])" \
        and tens[2] == ("ext", "numpy.float32")
    chk.ob("C09.dims", "Observation: shape = (rows+1, cols), aux_row = rows, storage "
           "np.zeros(shape, float32)", shape_ok and aux_ok and t_ok,
           f"obs_shape {cn.show(st.get('obs_shape', C(None)))}; aux_row "
           f"{cn.show(st.get('aux_row', C(None)))}; tensor {cn.show(tens)}",
           f"{ob.module.path}:{init.node.lineno}")
    # the state tensor itself: one row per host of the network, one column per layout position
    st = ctx.repo.cls(STATE_MOD, "State")
    tz = st.methods.get("tensorize")
    if tz is not None:
        ip = Interp(ctx.repo, ctx.types, param_types={tz.params[1]: "Network"},
                    no_inline=("nasim.envs.host_vector:HostVector.vectorize",))
        s = ip.run(tz, {tz.params[0]: ("classref", "State")})
        cn = Canon(ip, ctx.layout)
        NW = tz.params[1]
        zs = [ev for ev in s.events if ev.kind == "call" and ev.data["fname"] == "numpy.zeros"]
        V = "nasim.envs.host_vector:HostVector.vectorize"
        zshape = cn.show(zs[0].data["args"][0]) if zs else ""
        import re
        ok = len(zs) == 1 and re.fullmatch(
            r"\(len\((\w+)\.hosts\), (nasim\.envs\.host_vector:HostVector\.vectorize\("
            r"(HostVector, )?\1\.hosts\[\(1, 0\)\], \1\.address_space_bounds\)|HostVector)"
            r"\.state_size\)", zshape) is not None \
            and dict(zs[0].data["kwargs"]).get("dtype") == ("ext", "numpy.float32")
        rows = [ev for ev in s.events if ev.kind == "call" and ev.data["fname"] == V
                and len([a for a in ev.data["args"] if a[0] != "classref"]) >= 3]
        rok = False
        if len(rows) == 1:
            a = [x for x in rows[0].data["args"] if x[0] != "classref"]
            # canonical row form T[addr] (the index goes through host_num_map[addr])
            rok = cn.norm(a[2])[0] == "row" and re.fullmatch(
                r"zeros\(.*\)\[each\((\w+)\.hosts\)\]", cn.show(a[2])) is not None and \
                re.fullmatch(r"(\w+)\.hosts\[each\(\1\.hosts\)\]", cn.show(a[0])) is not None
        chk.ob("C09.dims", "State.tensorize: float32 zeros of shape (#hosts, state_size); every host "
               "is vectorised into the row host_num_map[address]", ok and rok,
               f"zeros{[cn.show(z.data['args'][0]) for z in zs]}; row writes "
               f"{[[cn.show(x)[-60:] for x in r.data['args']] for r in rows]}",
               f"{st.module.path}:{tz.node.lineno}")
        sh = st.methods.get("shape")
        if sh is not None:
            ip = Interp(ctx.repo, ctx.types, param_types={sh.params[0]: "State"})
            s = ip.run(sh)
            cn = Canon(ip, ctx.layout)
            chk.ob("C09.dims", "State.shape() is the tensor's shape",
                   [cn.show(t) for _, t in s.returns] == [f"{sh.params[0]}.shape"],
                   str([cn.show(t) for _, t in s.returns]), st.module.path, nontrivial=False)
    # the auxiliary row: the four public flags are read from, and from_action_result writes them to,
    # the documented slots 0..3 of row aux_row (whatever the private slot constants are called)
    FLAGS = ("success", "connection_error", "permission_error", "undefined_error")
    for k, n in enumerate(FLAGS):
        m = ob.methods.get(n)
        if m is None:
            chk.ob("C09.dims", f"Observation.{n} reads slot {k} of the auxiliary row", False,
                   "accessor not found", ob.module.path)
            continue
        ip = Interp(ctx.repo, ctx.types, param_types={m.params[0]: "Observation"})
        s = ip.run(m)
        cn = Canon(ip, ctx.layout, names={("param", m.params[0]): "self"})
        got = [cn.show(t) for _, t in s.returns]
        chk.ob("C09.dims", f"Observation.{n} reads slot {k} of the auxiliary row",
               got == [f"self[#self.aux_row].@{k}"], str(got), f"{ob.module.path}:{m.node.lineno}")
    m = ob.methods.get("from_action_result")
    if m is not None:
        ip = Interp(ctx.repo, ctx.types, param_types={m.params[0]: "Observation"})
        s = ip.run(m)
        cn = Canon(ip, ctx.layout, names={("param", m.params[0]): "self",
                                          ("param", m.params[1]): "result"})
        st = {}
        for ev in s.events:
            if ev.kind == "store" and ev.data["target"] == "sub":
                b_, i_ = ev.data["base"], ev.data["idx"]
                if i_[0] == "tuple" and len(i_[1]) == 2:        # T[r, c] = v is T[r][c] = v
                    b_, i_ = ("sub", b_, i_[1][0]), i_[1][1]
                st.setdefault((cn.show(b_), cn.show(i_)), []).append(cn.show(ev.data["value"]))
        want = {("self[#self.aux_row]", str(k)): [f"result.{n}"] for k, n in enumerate(FLAGS)}
        chk.ob("C09.dims", "Observation.from_action_result writes success / connection / permission "
               "/ undefined error into slots 0,1,2,3 of the auxiliary row and nothing else",
               st == want, str(st), f"{ob.module.path}:{m.node.lineno}")
    # ... and the readable decoder labels each flag by its own name
    labels = {"Success": 0, "Connection Error": 1, "Permission Error": 2, "Undefined Error": 3}
    gr = ob.methods.get("get_readable")
    if gr is not None:
        ip_r = Interp(ctx.repo, ctx.types, param_types={gr.params[0]: "Observation"},
                      no_inline=("nasim.envs.host_vector:HostVector.get_readable",))
        s_r = ip_r.run(gr)
        cn_r = Canon(ip_r, ctx.layout, names={("param", gr.params[0]): "self"})
        auxd = None
        if len(s_r.returns) == 1 and s_r.returns[0][1][0] == "tuple" \
                and len(s_r.returns[0][1][1]) == 2 and s_r.returns[0][1][1][1][0] == "dictobj":
            h_ = ip_r.heap[s_r.returns[0][1][1][1][1]]
            if not h_["dyn"]:
                auxd = {k_: cn_r.show(v_) for k_, v_ in h_["items"].items()}
        if auxd is None:
            chk.undecided("C09.accessor", "Observation.get_readable labels each aux flag by its own "
                          "name", "the auxiliary dictionary is not a literal dict the analysis can "
                          "enumerate", f"{ob.module.path}:{gr.node.lineno}")
        else:
            bad = {lab: auxd.get(lab) for lab, k in labels.items()
                   if auxd.get(lab) != f"self[#self.aux_row].@{k}"}
            chk.ob("C09.accessor", "Observation.get_readable labels each aux flag by its own name "
                   "(Success / Connection Error / Permission Error / Undefined Error = slots "
                   "0..3)", not bad, f"mislabelled: {bad}" if bad else "",
                   f"{ob.module.path}:{gr.node.lineno}")


def check_flatten_reshape(ctx, chk):
    for mod, cls in ((STATE_MOD, "State"), (OBS_MOD, "Observation")):
        ci = ctx.repo.cls(mod, cls)
        m = ci.methods.get("numpy_flat")
        ip = Interp(ctx.repo, ctx.types, param_types={"self": cls})
        s = ip.run(m)
        cn = Canon(ip, ctx.layout)
        ok = len(s.returns) == 1 and s.returns[0][1][0] == "mcall" and \
            s.returns[0][1][2] == "flatten" and not s.returns[0][1][3] and not s.returns[0][1][4] \
            and cn.norm(s.returns[0][1][1]) == ("tensor", ("param", "self"))
        chk.ob("C09.flatten", f"{cls}.numpy_flat() = tensor.flatten() (row-major default)", ok,
               str([cn.show(t) for _, t in s.returns]), f"{ci.module.path}:{m.node.lineno}")
        m = ci.methods.get("from_numpy")
        ip = Interp(ctx.repo, ctx.types)
        s = ip.run(m, {m.params[0]: ("classref", cls)})
        cn = Canon(ip, ctx.layout)
        resh = [ev for ev in s.events if ev.kind == "mcall" and ev.data["name"] == "reshape"]
        arr, shp = m.params[1], m.params[2]
        if cls == "State":
            want = [f"({shp})"]
        else:
            want = [f"(({shp}[0]+1), {shp}[1])", f"(({shp}[0]+1), {shp}[1])"]
        got = ["(" + ", ".join(cn.show(a) for a in ev.data["args"]) + ")" for ev in resh]
        got = [g.replace("((", "(", 1)[:-1] if g.startswith("(((") else g for g in got]
        ok = len(resh) == 1 and cn.show(resh[0].data["recv"]) == arr and (
            got[0] in (f"({shp})", f"(({shp}[0]+1), {shp}[1])"))
        if cls == "Observation":
            ok = ok and got[0] == f"(({shp}[0]+1), {shp}[1])"
        chk.ob("C09.from-numpy", f"{cls}.from_numpy reshapes the given array to "
               f"{'the state shape' if cls == 'State' else '(rows+1, cols)'}", ok, str(got),
               f"{ci.module.path}:{m.node.lineno}")
        if len(resh) == 1:
            # ... exactly when its shape is not that shape already (or always)
            from sa.canon import f_equiv, f_not, A
            F = cn.conj(tuple(c for c in resh[0].pc if c[0] not in ("fact", "inloop")))
            tgt = got[0] if got[0].startswith("((") else got[0][1:-1] if cls == "State" else got[0]
            a_, b_ = sorted([f"{arr}.shape", tgt])
            okc = F == ("true",) or f_equiv(F, f_not(A(f"{a_}=={b_}")))
            chk.ob("C09.from-numpy", f"{cls}.from_numpy reshapes whenever the given array does not "
                   "have the target shape", bool(okc), f"reshape under {f_show(F)}",
                   f"{ci.module.path}:{m.node.lineno}")
        if cls == "Observation":
            # ... and the returned observation carries the given array on every path: after the
            # constructor's own zeros, `tensor` is set - unconditionally - to the array (reshaped or
            # as it came)
            news_o = [ev for ev in s.events if ev.kind == "new" and ev.data["cls"] == "Observation"]
            if len(news_o) == 1 and len(s.returns) == 1 and s.returns[0][1] == news_o[0].data["obj"]:
                obj = news_o[0].data["obj"]
                ft = cn.norm(ip.heap[obj[2]]["fields"].get("tensor", ("unknown", "?")))
                final = cn.show(ft)

                def leaves(t, yes=(), no=()):
                    """alternatives of a conditional value that are consistent with the conditions
                    already taken on the way (the same test nested in itself has one live side)"""
                    if t[0] == "phi":
                        c = t[1]
                        if c in yes:
                            return leaves(t[2], yes, no)
                        if c in no:
                            return leaves(t[3], yes, no)
                        return leaves(t[2], yes + (c,), no) + leaves(t[3], yes, no + (c,))
                    return [t]
                # every live alternative is the array or its reshape
                lv = [cn.show(x) for x in leaves(ft)]
                ok_t = bool(lv) and all(arr in x and "zeros(" not in x for x in lv)
                if ok_t and len(resh) == 1:
                    ok_t = installs_reshaped(cn, ft, resh[0], arr)
                chk.ob("C09.from-numpy", "Observation.from_numpy returns an observation whose tensor "
                       "is the given array (reshaped when needed) on every path", ok_t,
                       f"tensor = {final[:200]}", f"{ci.module.path}:{m.node.lineno}")
            else:
                chk.undecided("C09.from-numpy", "Observation.from_numpy returns an observation whose "
                              "tensor is the given array (reshaped when needed) on every path",
                              f"{len(news_o)} Observation construction(s), returns "
                              f"{[cn.show(t)[:60] for _, t in s.returns]}", ci.module.path)
        if cls == "State":
            news = [ev for ev in s.events if ev.kind == "new" and ev.data["cls"] == "State"]
            okn = len(news) >= 1 and all(
                len(ev.data["args"]) == 2 and cn.show(ev.data["args"][1]) == m.params[3]
                and arr in cn.show(ev.data["args"][0]) for ev in news)
            if okn and len(resh) == 1 and len(news) == 1:
                okn = installs_reshaped(cn, cn.norm(news[0].data["args"][0]), resh[0], arr,
                                        at=news[0].pc)
            chk.ob("C09.from-numpy", "State.from_numpy builds State(<the array>, host_num_map)", okn,
                   str([[cn.show(a)[:80] for a in ev.data["args"]] for ev in news]),
                   f"{ci.module.path}:{m.node.lineno}")


def installs_reshaped(cn, value, resh_ev, arr, at=()):
    """where the reshape was performed the installed value is its *result* (ndarray.reshape
    returns a new view, it does not change the array it is called on), elsewhere the array as it
    came: every alternative of `value` is judged under the conditions that select it; `at` is
    the path condition of the place where `value` is used"""
    conds = [c for c in resh_ev.pc if c[0] not in ("fact", "inloop")]
    res = cn.norm(resh_ev.data["result"])

    def lit(c):
        """(polarity, positive normal form) of a condition"""
        pos = True
        c = cn.norm(c)
        while c[0] == "not":
            pos, c = not pos, cn.norm(c[1])
        if c[0] == "cmp" and c[1] in ("!=", "isnot", "notin"):
            c = ("cmp", {"!=": "==", "isnot": "is", "notin": "in"}[c[1]], c[2], c[3])
            pos, c = not pos, cn.norm(c)
        return pos, c

    def on_path(yes, no):
        """True / False / None: the alternative lies on / off the reshape path / on both"""
        state = True
        for c in conds:
            pos, xn = lit(c)
            if (xn in yes) if pos else (xn in no):
                continue
            if (xn in no) if pos else (xn in yes):
                return False
            state = None
        return state

    def walk(t, yes, no):
        if t[0] == "phi":
            pos, c = lit(t[1])
            a, b = (t[2], t[3]) if pos else (t[3], t[2])
            if c in yes:
                return walk(a, yes, no)
            if c in no:
                return walk(b, yes, no)
            return walk(a, yes | {c}, no) and walk(b, yes, no | {c})
        where = on_path(yes, no)
        if where is True:
            return t == res
        if where is False:
            return cn.show(t) == arr
        return False          # one value for both cases: not the reshaped one where it was needed
    lits = [lit(c) for c in at if c[0] not in ("fact", "inloop")]
    yes0 = {c for pos, c in lits if pos}
    no0 = {c for pos, c in lits if not pos}
    return bool(walk(value, frozenset(yes0), frozenset(no0)))


def check_reinit(ctx, chk):
    """the name -> column maps that vectorize / the decoders use must be those of the scenario
    being vectorised: State.generate_initial_state re-initialises the class-level layout before
    tensorizing - always, or unless a comparison that is sensitive to the *order* of the OS /
    service / process names says the layout in place is this scenario's (two scenarios with the
    same counts, or the same names in another order, have different maps)"""
    from sa.canon import f_atoms, f_not
    st = ctx.repo.cls(STATE_MOD, "State")
    g = st.methods.get("generate_initial_state")
    desc = ("State.generate_initial_state re-initialises the host-vector layout for the scenario "
            "it vectorises (unconditionally, or unless the names in place are compared in order)")
    if g is None or len(g.params) < 2:
        chk.undecided("C09.reinit", desc, "State.generate_initial_state(cls, network) not found",
                      st.module.path)
        return
    RESET = f"{HV_MOD}:HostVector.reset"
    TENS = f"{STATE_MOD}:State.tensorize"
    ip = Interp(ctx.repo, ctx.types, param_types={g.params[1]: "Network"},
                no_inline=(RESET, TENS, "nasim.envs.network:Network.reset"))
    s = ip.run(g, {g.params[0]: ("classref", "State")})
    cn = Canon(ip, ctx.layout)
    loc = f"{st.module.path}:{g.node.lineno}"
    tens = [ev for ev in s.events if ev.kind == "call" and ev.data["fname"] == TENS]
    resets = [ev for ev in s.events if ev.kind == "call" and ev.data["fname"] == RESET]
    if len(tens) != 1:
        chk.undecided("C09.reinit", desc, f"{len(tens)} call(s) of State.tensorize", loc)
        return
    before = [ev for ev in resets if ev.seq < tens[0].seq]
    if not before:
        chk.ob("C09.reinit", desc, False, "HostVector.reset() is not called before the state is "
               "tensorized: the index maps of the previous scenario stay in place", loc)
        return
    F = cn.conj(tuple(c for ev in before[:1] for c in ev.pc if c[0] != "fact"))
    if len(before) == 1 and F == ("true",):
        chk.ob("C09.reinit", desc, True, "", loc)
        return
    if len(before) != 1:
        chk.undecided("C09.reinit", desc, f"{len(before)} conditional reset sites", loc)
        return
    # the layout is kept under not F: which comparisons decide that?
    atoms = sorted(f_atoms(f_not(F)))
    verdicts = {}
    for grp, mp in (("os", "os_idx_map"), ("services", "service_idx_map"),
                    ("processes", "process_idx_map")):
        mine = [a for a in atoms if mp in a]
        ordered = [a for a in mine if re.fullmatch(
            r"(list|tuple)\((HostVector\.%s|.+\.%s)\)==(list|tuple)\((HostVector\.%s|.+\.%s)\)"
            % (mp, grp, mp, grp), a)]
        unordered = [a for a in mine if re.fullmatch(
            r"(set\()?(HostVector\.%s|.+\.%s)\)?==(set\()?(HostVector\.%s|.+\.%s)\)?"
            % (mp, grp, mp, grp), a)]
        verdicts[grp] = ("ordered" if ordered else "unordered" if unordered else
                         "absent" if not mine else "other")
    detail = (f"the layout in place is kept unless {f_show(F)[:300]}; comparison of the names: "
              f"{verdicts}")
    if all(v == "ordered" for v in verdicts.values()):
        chk.ob("C09.reinit", desc, True, detail, loc)
    elif any(v in ("absent", "unordered") for v in verdicts.values()):
        chk.ob("C09.reinit", desc, False, detail + " - a scenario with the same sizes but other "
               "names, or the same names in another order, would be decoded through the previous "
               "scenario's index maps (dict and keys() comparisons ignore order)", loc)
    else:
        chk.undecided("C09.reinit", desc, detail, loc)
    # the counterpart in HostVector: vectorize initialises exactly when reset() left its mark
    hv = ctx.repo.cls(HV_MOD, "HostVector")


def check_order(ctx, chk):
    from .order import dict_build_order
    n = 0
    for mod, cls in (("nasim.scenarios.loader", "ScenarioLoader"),
                     ("nasim.scenarios.generator", "ScenarioGenerator")):
        for res in dict_build_order(ctx, mod, cls, ("os", "services", "processes")):
            if res["ok"] is None:
                chk.undecided("C09.order", res["construct"], res["detail"], res["loc"])
            else:
                n += 1
                chk.ob("C09.order", res["construct"], res["ok"], res["detail"], res["loc"])
    chk.floor("C09.order", n, 4, "loops that fill a per-host dict from a declared list")


def check_order_stable(ctx, chk):
    """positional enumeration (vectorize / index maps) is only meaningful if every host's
    os/services/processes dict keeps the key order it was built with: outside Host.__init__ the
    three attributes may be item-assigned (existing keys) but never re-bound, nor have keys
    removed / re-inserted"""
    n = 0
    bad = []
    for fi in ctx.repo.all_functions():
        m = fi.module
        if not (m.name.startswith("nasim.scenarios") or m.name.startswith("nasim.envs")):
            continue
        if fi.cls is not None and fi.cls.name == "Host" and fi.name == "__init__":
            continue
        for node in ast.walk(fi.node):
            # re-binding  <host>.os = ... (not self.os of the generator/loader/scenario objects)
            if isinstance(node, ast.Attribute) and isinstance(node.ctx, ast.Store) \
                    and node.attr in ("os", "services", "processes"):
                recv = node.value
                is_self = isinstance(recv, ast.Name) and fi.params and recv.id == fi.params[0] \
                    and fi.cls is not None and fi.cls.name != "Host"
                if not is_self:
                    bad.append((f"{fi.qualname}: re-binds {ast.unparse(node)}",
                                f"{m.path}:{node.lineno}"))
            if isinstance(node, ast.Call) and isinstance(node.func, ast.Attribute) \
                    and node.func.attr in ("pop", "popitem", "clear", "update", "setdefault") \
                    and isinstance(node.func.value, ast.Attribute) \
                    and node.func.value.attr in ("os", "services", "processes") \
                    and not (isinstance(node.func.value.value, ast.Name) and fi.params
                             and node.func.value.value.id == fi.params[0]
                             and fi.cls is not None and fi.cls.name != "Host"):
                bad.append((f"{fi.qualname}: {ast.unparse(node.func)}(...) changes the key set / "
                            "order", f"{m.path}:{node.lineno}"))
            if isinstance(node, ast.Delete):
                for t in node.targets:
                    if isinstance(t, ast.Subscript) and isinstance(t.value, ast.Attribute) \
                            and t.value.attr in ("os", "services", "processes"):
                        bad.append((f"{fi.qualname}: del {ast.unparse(t)}",
                                    f"{m.path}:{node.lineno}"))
            if isinstance(node, ast.Subscript) and isinstance(node.ctx, ast.Store) \
                    and isinstance(node.value, ast.Attribute) \
                    and node.value.attr in ("os", "services", "processes"):
                n += 1
    for c, loc in bad:
        chk.violation("C09.order", c, "every host's dict must keep the scenario's list order: "
                      "vectorize places flags by position in the host's own dict while the "
                      "name->index maps come from the first host's dict", loc)
    chk.ob("C09.order", "per-host os/services/processes dicts are never re-bound or re-keyed after "
           "construction (item assignment to existing keys only)", not bad,
           f"{len(bad)} offending site(s); {n} item assignment(s) seen", "nasim/scenarios")


def check_onehot_range(ctx, chk):
    sc = ctx.repo.cls("nasim.scenarios.scenario", "Scenario")
    p = sc.methods.get("address_space_bounds")
    ip = Interp(ctx.repo, ctx.types, param_types={"self": "Scenario"})
    s = ip.run(p)
    cn = Canon(ip, ctx.layout)
    txt = [cn.show(t) for _, t in s.returns]
    chk.ob("C09.onehot-range", "default address-space bounds = (#subnets, max subnet size)",
           txt == ["self.scenario_dict.get('address_space_bounds', "
                   "(len(self.scenario_dict['subnets']), max(self.scenario_dict['subnets'])))"],
           str(txt), sc.module.path)
    # read from generate() with the private bounds helper inlined: the guards in terms of
    # generate's own (public) parameter, wherever the None default is resolved
    from .c15 import method_run, GEN_MOD
    gen, ip, s, cn = method_run(ctx, "generate", no_inline=tuple(
        n for n in ctx.repo.cls(GEN_MOD, "ScenarioGenerator").methods
        if n not in ("generate", "_generate_address_space_bounds")))
    from .loaderfacts import extract_guards, closed
    P = "address_space_bounds"
    tests = [t for t in (f_show(closed(g.F, g.loops)) for g in extract_guards(ip, cn, s.events))
             if P in t]
    need = [f"!tuple(({P} is None ? (len(self.subnets), max(self.subnets)) : {P}))[0]"
            f"<len(self.subnets)",
            f"!tuple(({P} is None ? (len(self.subnets), max(self.subnets)) : {P}))[1]"
            f"<max(self.subnets)"]
    need = [n.replace("self.", "G.") for n in need]
    ok = all(n in tests for n in need)
    chk.ob("C09.onehot-range", "generator rejects bounds smaller than (#subnets, max subnet size)",
           ok, str(tests[-3:]), gen.module.path)
    # accept side: nothing but the documented shape of the bounds is demanded (a tuple/list of two
    # positive ints, at least as large as the network)
    B = f"tuple(({P} is None ? (len(G.subnets), max(G.subnets)) : {P}))"
    allowed = set(need) | {
        f"((!None is {P} & isinstance({P}, (tuple, list))) | None is {P})",
        f"isinstance({P}, (tuple, list))",
        f"2==len({B})",
        f"!EXISTS[{B}](!(0<each({B}) & isinstance(each({B}), int)))",
    }
    extra = [t for t in tests if t not in allowed]
    chk.ob("C09.onehot-range", "the generator's bounds guards demand only: tuple/list, length 2, "
           "positive ints, >= (#subnets, max subnet size)", not extra, str(extra)[:300],
           gen.module.path)
