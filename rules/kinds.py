"""Address-key kinds: a dict keyed by the *raw YAML spelling* of an address ('(1, 0)', a str)
must not be probed with an *evaluated* address ((1, 0), a tuple) - the probe can never hit."""
import ast

from sa.interp import C
from . import loaderfacts
from .gates import facts as gate_facts


def host_firewall_producers(ctx):
    """[(where, kinds, loc)] for every Host(..., firewall=X) construction"""
    out = []
    lf = loaderfacts.facts(ctx)
    for ev in lf.host_news():
        kw = dict(ev.data["kwargs"])
        fw = kw.get("firewall")
        if fw is None and len(ev.data["args"]) >= 5:
            fw = ev.data["args"][4]
        if fw is None:
            out.append(("loader", {"OTHER"}, ev.loc, "firewall argument not found"))
            continue
        out.append(("loader", lf.dict_key_kinds(fw), ev.loc, lf.cn.show(fw)[:160]))
    gen = ctx.repo.module("nasim.scenarios.generator")
    for n in ast.walk(gen.tree):
        if isinstance(n, ast.Call) and isinstance(n.func, ast.Name) and n.func.id == "Host":
            for kw in n.keywords:
                if kw.arg == "firewall":
                    v = kw.value
                    if (isinstance(v, ast.Dict) and not v.keys) or \
                            (isinstance(v, ast.Call) and isinstance(v.func, ast.Name)
                             and v.func.id == "dict" and not v.args and not v.keywords):
                        out.append(("generator", {"EMPTY"}, f"{gen.path}:{n.lineno}", "{}"))
                    else:
                        out.append(("generator", {"OTHER"}, f"{gen.path}:{n.lineno}",
                                    ast.unparse(v)))
    return out


def host_firewall_probe(ctx):
    """kind of the key Host.traffic_permitted probes the deny list with, followed back from the
    exploit dispatch to the keys of the scenario's host table"""
    cf = gate_facts(ctx, "Exploit")
    cn, d = cf.cn, cf.d
    probes = []
    for ev in d.summary.events:
        if ev.kind == "mcall" and ev.data["name"] == "get" and ev.func.endswith("Host.traffic_permitted"):
            probes.append(ev)
    if not probes:
        # direct subscript / membership forms
        return None, "no .get(...) probe of Host.firewall found in the exploit dispatch"
    ev = probes[0]
    key = ev.data["args"][0]
    ks = cn.show(key)
    if ks != "each(scenario.address_space)":
        return None, f"probe key is {ks}, not an element of the scenario's address space"
    # Scenario.address_space = list(hosts.keys()); hosts = scenario_dict['host'] built by the loader
    from . import envfacts
    p = envfacts.prop_term(ctx, "nasim.scenarios.scenario", "Scenario", "address_space")
    txt = [p.show(t) for _, t in p.returns]
    if txt != ["list(self.scenario_dict['host'])"]:
        return None, f"Scenario.address_space is {txt}"
    lf = loaderfacts.facts(ctx)
    sd, _ = lf.scenario_dict()
    if sd is None or sd[0] != "dictobj":
        return None, "loader's scenario dict not found"
    hosts = lf.ip.heap[sd[1]]["items"].get("host")
    if hosts is None:
        return None, "loader's scenario dict has no 'host' entry"
    return lf.dict_key_kinds(hosts), f"keys of the host table: {lf.cn.show(hosts)[:120]}"


def check_host_firewall_kinds(ctx, chk, rule):
    probe, why = host_firewall_probe(ctx)
    if probe is None:
        chk.undecided(rule, "per-host firewall: kind of the probing key", why,
                      "nasim/scenarios/host.py")
        return
    for where, kinds, loc, desc in host_firewall_producers(ctx):
        if kinds == {"EMPTY"}:
            chk.ob(rule, f"{where}: Host.firewall is an empty dict (no keys)", True, "", loc,
                   nontrivial=False)
            continue
        ok = kinds == probe
        chk.ob(rule, f"{where}: keys of the per-host deny list have the kind they are probed with "
               f"({'/'.join(sorted(probe))})", ok,
               "" if ok else f"Host.firewall is {desc} with {'/'.join(sorted(kinds))} keys (RAW = "
               f"the YAML spelling of an address, a str) but Host.traffic_permitted looks up "
               f"{'/'.join(sorted(probe))} keys (evaluated (subnet, host) tuples): the deny list "
               "can never match, so a per-host firewall written in the file is not enforced", loc)
