"""placeholder - replaced below"""


def check_host_firewall_kinds(ctx, chk, rule):
    pass
