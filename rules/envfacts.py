"""Cached abstract interpretations of the environment-level entry points."""
from sa.ctx import ENV_MOD, NET_MOD, STATE_MOD, store_effect, classify_root
from sa.interp import Interp
from sa.canon import Canon
from sa.model import AnalysisError

PERFORM = "nasim.envs.network:Network.perform_action"
GET_OBS = "nasim.envs.state:State.get_observation"
GSTEP = "nasim.envs.environment:NASimEnv.generative_step"
GOAL = "nasim.envs.environment:NASimEnv.goal_reached"

_cache = {}


class Run:
    def __init__(self, ctx, mod, qual, param_types, no_inline=(), args=None):
        self.fi = ctx.repo.func(mod, qual)
        self.ip = Interp(ctx.repo, ctx.types, param_types=param_types, no_inline=no_inline)
        self.s = self.ip.run(self.fi, args)
        self.cn = Canon(self.ip, ctx.layout)
        self.cn.written = None
        self.events = self.s.events
        self.returns = self.s.returns

    def join_returns(self):
        """exits that return tuples of one arity and differ only element-wise (a helper with two
        returns was inlined into one element) are one exit whose differing elements are case
        terms over the exits' own conditions"""
        rs = self.returns
        if len(rs) <= 1 or not all(t[0] == "tuple" for _, t in rs) \
                or len({len(t[1]) for _, t in rs}) != 1:
            return rs
        pcs = [tuple(pc) for pc, _ in rs]
        k = 0
        while all(len(pc) > k for pc in pcs) and len({pc[k] for pc in pcs}) == 1:
            k += 1
        els = []
        for i in range(len(rs[0][1][1])):
            vals = [t[1][i] for _, t in rs]
            if all(v == vals[0] for v in vals):
                els.append(vals[0])
            else:
                els.append(("cases", tuple((pc[k:], v) for pc, v in zip(pcs, vals))))
        return [(pcs[0][:k], ("tuple", tuple(els)))]

    def stores(self):
        out = []
        for ev in self.events:
            if ev.kind == "store":
                ef = store_effect(self.cn, ev)
                if ef is not None:
                    out.append(ef)
        return out

    def calls(self, fname):
        return [ev for ev in self.events if ev.kind == "call" and ev.data["fname"] == fname]

    def enters(self, callee):
        return [ev for ev in self.events if ev.kind == "enter" and ev.data["callee"] == callee]

    def show(self, t):
        return self.cn.show(t)


def _get(ctx, key, fn):
    cache = ctx.__dict__.setdefault("_rule_cache", {})
    k = ("envfacts", key)
    if k not in cache:
        cache[k] = fn()
    return cache[k]


def env_types(fi):
    """parameter typing of NASimEnv methods by position: (self, state?, action?)"""
    return {fi.params[0]: "NASimEnv"}


def gstep_shallow(ctx):
    def mk():
        fi = ctx.repo.func(ENV_MOD, "NASimEnv.generative_step")
        if len(fi.params) < 3:
            raise AnalysisError("generative_step no longer takes (self, state, action)")
        pt = {fi.params[0]: "NASimEnv", fi.params[1]: "State"}
        return Run(ctx, ENV_MOD, "NASimEnv.generative_step", pt, no_inline=(PERFORM, GET_OBS, GOAL))
    return _get(ctx, "gstep_shallow", mk)


def gstep_deep(ctx):
    def mk():
        fi = ctx.repo.func(ENV_MOD, "NASimEnv.generative_step")
        pt = {fi.params[0]: "NASimEnv", fi.params[1]: "State", fi.params[2]: "Action"}
        return Run(ctx, ENV_MOD, "NASimEnv.generative_step", pt)
    return _get(ctx, "gstep_deep", mk)


def step_shallow(ctx):
    def mk():
        fi = ctx.repo.func(ENV_MOD, "NASimEnv.step")
        r = Run(ctx, ENV_MOD, "NASimEnv.step", {fi.params[0]: "NASimEnv"},
                no_inline=(GSTEP,))
        r.returns = r.join_returns()
        return r
    return _get(ctx, "step_shallow", mk)


def reset_run(ctx):
    def mk():
        fi = ctx.repo.func(ENV_MOD, "NASimEnv.reset")
        return Run(ctx, ENV_MOD, "NASimEnv.reset", {fi.params[0]: "NASimEnv"})
    return _get(ctx, "reset", mk)


def goal_run(ctx):
    def mk():
        fi = ctx.repo.func(ENV_MOD, "NASimEnv.goal_reached")
        pt = {fi.params[0]: "NASimEnv"}
        if len(fi.params) > 1:
            pt[fi.params[1]] = "State"
        return Run(ctx, ENV_MOD, "NASimEnv.goal_reached", pt)
    return _get(ctx, "goal", mk)


def prop_term(ctx, mod, cls, prop):
    """abstract value of a property getter (e.g. Scenario.address_space)"""
    def mk():
        fi = ctx.repo.func(mod, f"{cls}.{prop}")
        r = Run(ctx, mod, f"{cls}.{prop}", {fi.params[0]: cls})
        return r
    return _get(ctx, ("prop", mod, cls, prop), mk)
