"""C01 - access is gained only through an applicable exploit or privilege escalation.

  C01.who-writes   complete set of stores reaching families compromised/access in the call
                   tree of the dispatcher, per action class; only Exploit / PrivilegeEscalation
                   success exits may have them, only on the target's row
  C01.guard        success of Exploit implies service (+OS) atoms; of PrivilegeEscalation
                   implies compromised+access (+process, +OS)
  C01.forced       required gates (A.1) together imply success (no further condition)
  C01.level        new access level == max(previous, granted), decided exactly by enumeration
                   over {NONE,USER,ROOT} x {USER,ROOT}
  C01.target-row   whole-row stores write back a copy of the *same* host's row of the input
"""
from sa.canon import f_show, f_implies, f_counterexample, f_and, f_not, f_atoms, f_eval
from sa.evalterm import eval_term, Undecidable
from sa.interp import C
from .gates import GATES, REQUIRED, facts, expected_success, T, draw_ok
from sa.canon import f_or

EXPLANATION = (
    "Per-class partial evaluation of Network.perform_action -> HostVector.perform_action; "
    "every store event is classified by column family (index expressions resolved through "
    "the symbolic layout) and by root object (fresh copy / caller-owned); the stores that "
    "reach the returned state are listed per exit; guards are compared by truth table; the "
    "access-level update is evaluated for all 6 (previous, granted) combinations.")

C01_GATES = {"Exploit": ["G7"], "PrivilegeEscalation": ["G4", "G6", "G8"]}
ALLOWED = {   # class -> {family: address description}
    "Exploit": {"compromised": T, "access": T, "reachable": None},
    "PrivilegeEscalation": {"access": T},
    "SubnetScan": {"discovered": None},
}
LEVELS = {"NONE": 0, "USER": 1, "ROOT": 2}


def access_levels(ctx):
    ci = ctx.repo.cls("nasim.envs.utils", "AccessLevel")
    out = {}
    for n in ("NONE", "USER", "ROOT"):
        ok, v = ctx.repo.class_const(ci, n)
        if not ok:
            from sa.model import AnalysisError
            raise AnalysisError(f"AccessLevel.{n} not foldable")
        out[n] = v
    return out


def run(ctx, chk):
    chk.explanation = EXPLANATION
    lv = access_levels(ctx)
    chk.ob("C01.levels-order", "AccessLevel NONE < USER < ROOT",
           lv["NONE"] < lv["USER"] < lv["ROOT"], f"{lv}", "nasim/envs/utils.py")
    n_comp = n_acc = n_rows = 0
    for K in ctx.action_classes:
        if K not in REQUIRED:
            chk.undecided("C01.who-writes", f"{K}: action class unknown to the oracle table")
            continue
        cf = facts(ctx, K)
        cn = cf.cn
        # ---- guards
        for g in C01_GATES.get(K, []):
            ok = f_implies(cf.success_F, GATES[g])
            chk.ob("C01.guard", f"{K}: success requires {g}", ok,
                   "" if ok else f"success of {K} does not imply {f_show(GATES[g])}; "
                   f"{f_counterexample(f_and([cf.success_F, f_not(GATES[g])]), ('false',))}",
                   cf.d.fi.module.path)
        # ---- forced success
        # "whenever those preconditions and the network-level ones of C02 hold and the random draw
        # succeeds, the action must succeed": (N & H) => EXISTS draw. success.  How the draw is
        # compared with the probability is C07's subject, so the draw atoms are eliminated
        # existentially.  The statement is about the conditions, not about where in the code the
        # failure exits are created, so no exit is classified by its position.
        from sa.canon import f_subst
        host_gates = [g for g in REQUIRED[K] if g in ("G5", "G6", "G7", "G8")]
        net_gates = [g for g in REQUIRED[K] if g in ("G1", "G2.scan", "G2.exploit", "G3", "G4")]
        exp = f_and([GATES[g] for g in net_gates + host_gates])
        rnd = sorted(a for a in f_atoms(cf.success_F) if "random" in a)
        S = cf.success_F
        for a in rnd:
            S = f_or([f_subst(S, lambda x, a=a: ("true",) if x == a else None),
                      f_subst(S, lambda x, a=a: ("false",) if x == a else None)])
        ok = f_implies(exp, S)
        detail = ""
        if not ok:
            extra = sorted(f_atoms(cf.success_F) - f_atoms(exp))
            detail = (f"the network-level preconditions {net_gates} and the host-level preconditions "
                      f"{host_gates} hold and the draw succeeds, but {K} does not necessarily "
                      f"succeed: {f_counterexample(f_and([exp, f_not(S)]), ('false',))}; "
                      f"conditions outside the vocabulary: {extra}")
        chk.ob("C01.forced", f"{K}: network-level and host-level preconditions and a successful "
               "draw force success", ok, detail, cf.d.fi.module.path)
        chk.sample({"rule": "C01.forced", "class": K, "host_gates": host_gates,
                    "net_gates": net_gates})
        # ---- a success must leave its marks: "the action must succeed and leave the host
        # compromised with access ..." - every success exit of an Exploit stores compromised and
        # access of its target, of a PrivilegeEscalation its access (absence of the store, e.g. a
        # dropped write-back of the host row, is as wrong as a wrong value)
        needed = {"Exploit": ("compromised", "access"), "PrivilegeEscalation": ("access",)}
        for fam in needed.get(K, ()):
            for o in cf.success:
                got = [e for e in cf.net_effects(o) if e["kind"] == "cell" and e["fam"] == fam
                       and e["addr"] == ALLOWED.get(K, {}).get(fam)]
                # the whole-row write-back must be there too (the cell store goes into a copy)
                rows = [e for e in cf.net_effects(o) if e["kind"] == "row" and e["ok"]]
                chk.ob("C01.success-marks", f"{K}: every success exit stores {fam} of the target "
                       "in the returned state", bool(got) and bool(rows),
                       f"{len(got)} {fam} store(s), {len(rows)} row write-back(s) on the success "
                       f"exit under {f_show(o.G)[:160]}", cf.d.fi.module.path)
        # ---- who writes what
        for o in cf.outcomes:
            succ = o.flag("success") is True
            for e in cf.net_effects(o):
                if e["kind"] == "row":
                    n_rows += 1
                    chk.ob("C01.target-row",
                           f"{K}: row store at {e['addr']} writes back {e['value']}", e["ok"],
                           "" if e["ok"] else "a whole-row store must write a copy of the same "
                           "host's row of the input state (otherwise another host's row "
                           "changes)", e["loc"], nontrivial=False)
                    continue
                if e["kind"] != "cell":
                    chk.violation("C01.who-writes",
                                  f"{K}: unclassifiable store into {e['rootdesc']} "
                                  f"({e['kind']} {e['fam']})",
                                  "who-may-write rule: every store reaching the returned state "
                                  "must be classifiable", e["loc"])
                    continue
                fam = e["fam"]
                if fam not in ("compromised", "access"):
                    if fam.startswith("?"):
                        chk.violation("C01.who-writes",
                                      f"{K}: store into unknown column {fam} of {e['addr']}",
                                      "index expression does not resolve to a documented column",
                                      e["loc"])
                    continue
                if fam == "compromised":
                    n_comp += 1
                else:
                    n_acc += 1
                allowed = ALLOWED.get(K, {})
                ok = succ and fam in allowed and e["addr"] == allowed[fam]
                chk.ob("C01.who-writes",
                       f"{K}: {'success' if succ else 'failure'} exit stores {fam} of {e['addr']}",
                       ok, "" if ok else f"only a successful Exploit/PrivilegeEscalation may "
                       f"change {fam}, and only of its target; value {e['value']}", e["loc"])
                if ok and fam == "compromised":
                    v = cn.norm(e["value_t"])
                    lit = v[0] == "const" and v[1] in (1, True)
                    chk.ob("C01.compromised-value", f"{K}: compromised := {e['value']}",
                           lit and e["cond"] is not None,
                           "" if lit else "compromised must be set to True", e["loc"])
                    # unconditional on the success path
                    unc = f_implies(o.G, e["cond"])
                    chk.ob("C01.compromised-forced",
                           f"{K}: every success path passes the compromised store", bool(unc),
                           "" if unc else f"store only under {f_show(e['cond'])}", e["loc"])
                if ok and fam == "access":
                    check_level(ctx, chk, cf, o, e, lv)
    chk.floor("C01.who-writes/compromised", n_comp, 1, "stores to family compromised")
    chk.floor("C01.who-writes/access", n_acc, 2, "stores to family access")
    chk.floor("C01.target-row", n_rows, 1, "whole-row stores")
    check_action_routing(ctx, chk)
    chk.assume("granted access level of scenario actions is USER or ROOT (loader guard "
               "VALID_ACCESS_VALUES / generator randint(USER, ROOT+1)); checked in C15/C17")


def failure_site(cf, o):
    for ev in cf.d.summary.events:
        if ev.kind == "new" and ev.data["obj"] == o.result_t:
            return ev.func
    return "?"


def check_level(ctx, chk, cf, o, e, lv):
    """enumerate previous x granted; the stored value under its guard must give max()"""
    cn = cf.cn
    val = cn.norm(e["value_t"])
    # guard of the store relative to the success exit: evaluate the *term-level* guard
    ev = e["ev"]
    guard_terms = [cn.norm(c) for c in ev.pc if c not in o.pc and c[0] not in ("inloop", "fact")]
    prev_s = f"state[{T}].access"
    bad = []
    und = None
    for pn, p in lv.items():
        for gn in ("USER", "ROOT"):
            g = lv[gn]

            def lookup(t):
                s = cn._show(t, {})
                if s == prev_s:
                    return p
                if s == "action.access":
                    return g
                raise KeyError(s)
            try:
                fires = all(eval_term(c, lookup) for c in guard_terms)
                new = eval_term(val, lookup) if fires else p
            except (Undecidable, KeyError) as ex:
                und = str(ex)
                break
            if new != max(p, g):
                bad.append(f"previous={pn} granted={gn} -> {new}")
        if und:
            break
    construct = f"{cf.K}: access := {e['value']} under " \
                f"{' & '.join(cn._show(c, {}) for c in guard_terms) or 'TRUE'}"
    if und:
        chk.undecided("C01.level", construct, f"expression outside the decidable fragment: {und}",
                      e["loc"])
    else:
        chk.ob("C01.level", construct, not bad,
               "" if not bad else "new level must be max(previous, granted): " + "; ".join(bad),
               e["loc"])


def check_action_routing(ctx, chk):
    """Action/Exploit/PrivilegeEscalation.__init__ store each parameter into the same-named
    attribute (so `action.service` in the atoms *is* the scenario definition's service)."""
    import ast
    want = {"Action": ["name", "target", "cost", "prob", "req_access"],
            "Exploit": ["os", "service", "access"],
            "PrivilegeEscalation": ["access", "os", "process"]}
    for cname, attrs in want.items():
        ci = ctx.repo.cls("nasim.envs.action", cname)
        init = ci.methods.get("__init__")
        got = {}
        if init is not None:
            for st in init.node.body:
                if isinstance(st, ast.Assign) and isinstance(st.targets[0], ast.Attribute) \
                        and isinstance(st.targets[0].value, ast.Name) \
                        and st.targets[0].value.id == "self":
                    got[st.targets[0].attr] = ast.unparse(st.value)
        for a in attrs:
            chk.ob("C01.routing", f"{cname}.__init__: self.{a} = {a}", got.get(a) == a,
                   f"found self.{a} = {got.get(a)}", init.module.path if init else "",
                   nontrivial=False)
