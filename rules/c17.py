"""C17 - a loaded YAML scenario means exactly what the file says.

  C17.routing     every section of the document reaches the scenario dict under its own key
                  (scan costs not crossed, hosts built from host_configurations), and the Scenario
                  property that serves it reads that same key
  C17.transform   only documented transformations on the way: internet subnet prepended; address
                  keys evaluated; OS "none" -> None; access names -> numeric levels (three tables
                  agree); per-host dicts name -> (name in config list) over the scenario's ordered
                  lists; host value = sensitive value if sensitive else configured/default value
  C17.key-kinds   address-keyed tables (sensitive_hosts, firewall, hosts, Host.firewall) are keyed
                  by evaluated addresses, the kind they are probed with
  C17.accept      no rejection guard is stricter than the documented rules (exploit probability 1.0,
                  empty escalation section, host values of any sign, absent step limit accepted)
"""
import ast

from sa.canon import A, f_and, f_or, f_not, f_implies, f_show, f_atoms, f_equiv, respell, \
    respell_loop
from sa.interp import Interp, C
from sa.canon import Canon
from . import loaderfacts
from .c18 import schemata, DOC_SECTIONS
from .kinds import check_host_firewall_kinds
from .c01 import access_levels

EXPLANATION = (
    "Abstract interpretation of ScenarioLoader.load over a symbolic YAML document: the dict "
    "handed to Scenario(...) and the Host(...) constructions are compared entry by entry with "
    "the documented routing/transformations; address-key kinds are followed from producers to "
    "probes; every rejection guard must be implied by the documented rules (acceptance).")

IDENTITY = ["subnets", "topology", "os", "services", "processes", "exploits",
            "privilege_escalation", "os_scan_cost", "service_scan_cost", "subnet_scan_cost",
            "process_scan_cost"]
SC_PROPS = {"subnets": "subnets", "topology": "topology", "os": "os", "services": "services",
            "processes": "processes", "exploits": "exploits", "privescs": "privilege_escalation",
            "sensitive_hosts": "sensitive_hosts", "firewall": "firewall", "hosts": "host",
            "service_scan_cost": "service_scan_cost", "os_scan_cost": "os_scan_cost",
            "subnet_scan_cost": "subnet_scan_cost", "process_scan_cost": "process_scan_cost"}


def run(ctx, chk):
    chk.explanation = EXPLANATION
    lf = loaderfacts.facts(ctx)
    cn, ip = lf.cn, lf.ip
    path = lf.fi.module.path
    sd, rets = lf.scenario_dict()
    if sd is None or sd[0] != "dictobj":
        chk.undecided("C17.routing", "load returns Scenario(<dict built by the loader>)",
                      "the value handed to Scenario(...) is not a dict the analysis can enumerate: "
                      + str([cn.show(t) for _, t in rets])[:200], path)
        return
    h = ip.heap[sd[1]]
    items = {k: cn.show(v) for k, v in h["items"].items()}
    chk.ob("C17.routing", "scenario dict has only constant keys", not h["dyn"], "", path,
           nontrivial=False)
    for k in IDENTITY:
        chk.ob("C17.routing", f"scenario['{k}'] is the document's '{k}' section",
               items.get(k) == f"Y['{k}']", f"scenario['{k}'] = {items.get(k)}", path)
    K = "each(Y['{}'].items())"
    for k in ("sensitive_hosts", "firewall"):
        it = K.format(k)
        want = respell(f"{{eval({it}[0]): {it}[1] for {it}}}")
        chk.ob("C17.routing", f"scenario['{k}'] = the document's section with evaluated address "
               "keys, values unchanged", items.get(k) == want, f"{items.get(k)}", path)
    chk.ob("C17.routing", "scenario['step_limit'] = the document's step_limit, None when absent",
           items.get("step_limit") == "('step_limit' in Y ? Y['step_limit'] : None)",
           f"{items.get('step_limit')}", path)
    HCI = "each(Y['host_configurations'].items())"
    hosts_t = h["items"].get("host")
    from .shapes import as_mapping, mapping_value_term
    mp = as_mapping(ip, cn, hosts_t)
    ok = False
    if mp is not None:
        vt = mapping_value_term(ip, hosts_t)
        ok = mp[0] == respell(f"eval({HCI}[0])") and mp[2] == ["Y['host_configurations']"] \
            and mp[3] == ("true",) and vt[0] == "new" and vt[1] == "Host"
    chk.ob("C17.routing", "scenario['host'] maps every evaluated address of host_configurations to "
           "a Host built from that configuration", bool(ok), items.get("host", "missing")[:200],
           path)
    # ---- internet subnet prepended
    ins = [ev for ev in lf.s.events if ev.kind == "mcall" and ev.data["name"] == "insert"
           and cn.show(ev.data["recv"]) == "Y['subnets']"]
    ok = len(ins) == 1 and [cn.show(a) for a in ins[0].data["args"]] == ["0", "1"] and \
        not [c for c in ins[0].pc if c[0] not in ("fact", "inloop")]
    chk.ob("C17.transform", "the internet subnet (size 1) is prepended to the subnet list: "
           "subnets.insert(0, 1), once, unconditionally", ok,
           str([[cn.show(a) for a in e.data["args"]] for e in ins]), path)
    muts = [ev for ev in lf.s.events if ev.kind == "mcall" and lf.is_yaml(ev.data["recv"])
            and ev.data["name"] in ("insert", "append", "pop", "remove", "clear", "update",
                                    "extend", "sort", "reverse", "setdefault", "popitem")
            and ev not in ins]
    chk.ob("C17.transform", "no other in-place mutation of the document's containers", not muts,
           "; ".join(f"{cn.show(e.data['recv'])}.{e.data['name']} at {e.loc}" for e in muts), path)
    # ---- in-place normalisations of definitions (stores into the document)
    lv = access_levels(ctx)
    mod = ctx.repo.module(loaderfacts.LOADER_MOD)
    ok_m, amap = ctx.repo.const(mod, ast.Name(id="ACCESS_LEVEL_MAP", ctx=ast.Load()))
    chk.ob("C17.transform", "ACCESS_LEVEL_MAP = {user: USER, root: ROOT} = AccessLevel members",
           ok_m and amap == {"user": lv["USER"], "root": lv["ROOT"]}, str(amap), path)
    stores = [ev for ev in lf.s.events if ev.kind == "store" and ev.data["target"] == "sub"
              and lf.is_yaml(ev.data["base"])]
    amap_show = cn.show(ip._const_term(amap)) if ok_m else "?"
    allowed = 0
    for ev in stores:
        base, idx, val = cn.show(ev.data["base"]), cn.show(ev.data["idx"]), cn.show(ev.data["value"])
        cond = f_show(cn.conj(tuple(c for c in ev.pc if c[0] not in ("inloop", "fact"))))
        ok = False
        HC1 = respell(f"{HCI}[1]")
        for D in (respell("each(Y['exploits'].items())[1]"),
                  respell("each(Y['privilege_escalation'].items())[1]")):
            if base == D and idx == "'os'" and val == "None" and \
                    cond == f"'none'==str({D}['os']).lower()":
                ok = True
            if base == D and idx == "'access'" and val == f"{amap_show}[{D}['access']]" and \
                    cond == f"isinstance({D}['access'], str)":
                ok = True
        if base == HC1 and idx == "'firewall'" and val == "{}" and \
                cond == f"!'firewall' in {HC1}":
            ok = True
        allowed += ok
        chk.ob("C17.transform", f"in-place normalisation {base}[{idx}] := {val} when {cond} is a "
               "documented one (OS 'none' -> None, access name -> level, missing host firewall -> "
               "{})", ok, "", ev.loc)
    chk.floor("C17.transform", allowed, 4, "documented in-place normalisations")
    # ---- Host construction
    news = lf.host_news()
    ok = len(news) == 1
    detail = f"{len(news)} Host construction(s)"
    if ok:
        ev = news[0]
        kw = {k: v for k, v in ev.data["kwargs"]}
        HC = f"{HCI}[1]"
        SENS = "{eval(each(Y['sensitive_hosts'].items())[0]): each(Y['sensitive_hosts'].items())[1]" \
               " for each(Y['sensitive_hosts'].items())}"
        want = {
            "address": f"eval({HCI}[0])",
            "os": f"{{each(Y['os']): each(Y['os'])=={HC}['os'] for each(Y['os'])}}",
            "services": f"{{each(Y['services']): each(Y['services']) in {HC}['services'] "
                        "for each(Y['services'])}",
            "processes": f"{{each(Y['processes']): each(Y['processes']) in {HC}['processes'] "
                         "for each(Y['processes'])}",
            "firewall": f"{{eval(each({HC}['firewall'].items())[0]): "
                        f"each({HC}['firewall'].items())[1] for each({HC}['firewall'].items())}}",
            "value": f"(eval({HCI}[0]) in {SENS} ? {SENS}[eval({HCI}[0])] : "
                     f"{HC}.get('value', 0))",
        }
        got = {k: cn.show(v) for k, v in kw.items()}
        want = {k: (respell(w),) for k, w in want.items()}
        # == is symmetric: either operand order is the same flag
        want["os"] += (respell(f"{{each(Y['os']): {HC}['os']==each(Y['os']) for each(Y['os'])}}"),)
        for k, w in want.items():
            chk.ob("C17.transform", f"Host.{k} is built from the host's configuration as "
                   f"documented", got.get(k) in w, f"Host({k}={got.get(k)})", ev.loc)
        extra = set(got) - set(want)
        chk.ob("C17.transform", "Host(...) receives nothing else from the loader", not extra,
               str({k: got[k] for k in extra}), ev.loc, nontrivial=False)
    else:
        chk.ob("C17.transform", "one Host construction per host configuration", False, detail, path)
    # ---- Scenario properties read their own key
    sc = ctx.repo.cls("nasim.scenarios.scenario", "Scenario")
    for prop, key in SC_PROPS.items():
        m = sc.methods.get(prop)
        if m is None:
            chk.violation("C17.routing", f"Scenario.{prop} property missing", "", sc.module.path)
            continue
        ip2 = Interp(ctx.repo, ctx.types, param_types={m.params[0]: "Scenario"})
        s2 = ip2.run(m)
        cn2 = Canon(ip2, ctx.layout)
        txt = [cn2.show(t) for _, t in s2.returns]
        chk.ob("C17.routing", f"Scenario.{prop} serves scenario_dict['{key}']",
               txt == [f"self.scenario_dict['{key}']"], str(txt),
               f"{sc.module.path}:{m.node.lineno}", nontrivial=False)
    m = sc.methods.get("step_limit")
    ip2 = Interp(ctx.repo, ctx.types, param_types={m.params[0]: "Scenario"})
    s2 = ip2.run(m)
    cn2 = Canon(ip2, ctx.layout)
    txt = [cn2.show(t) for _, t in s2.returns]
    pairs = {(f_show(cn2.conj(tuple(c for c in pc if c[0] != "fact"))), cn2.show(t))
             for pc, t in s2.returns}
    chk.ob("C17.routing", "Scenario.step_limit serves scenario_dict.get('step_limit', None)",
           txt == ["('step_limit' in self.scenario_dict ? self.scenario_dict['step_limit'] : None)"]
           or pairs == {("'step_limit' in self.scenario_dict", "self.scenario_dict['step_limit']"),
                        ("!'step_limit' in self.scenario_dict", "None")},
           str(sorted(pairs)), sc.module.path,
           nontrivial=False)
    # ---- key kinds
    for k in ("sensitive_hosts", "firewall", "host"):
        t = h["items"].get(k)
        kinds = lf.dict_key_kinds(t) if t is not None else {"MISSING"}
        chk.ob("C17.key-kinds", f"scenario['{k}'] is keyed by evaluated addresses",
               kinds == {"ADDR"}, f"key kinds {sorted(kinds)}", path)
    check_host_firewall_kinds(ctx, chk, "C17.key-kinds")
    check_acceptance(ctx, chk, lf)
    chk.assume("PyYAML parses the file as the reader expects; semantic enforcement of the tables "
               "is C02")


def check_acceptance(ctx, chk, lf):
    """every guard must be implied by the documented rules with the same loop context"""
    S, consts = schemata(lf)
    cn = lf.cn
    by_loops = {}
    for sid, title, loops, conjs, allowed in S:
        for c in conjs:
            # weakest documented alternative first (closed probability bound)
            if c[0] == "alt":
                # documented (non-strict) alternatives are equivalent spellings of one rule
                for a in c[1][:c[2]]:
                    by_loops.setdefault(tuple(respell_loop(l) for l in loops), []).append(a)
            else:
                by_loops.setdefault(tuple(respell_loop(l) for l in loops), []).append(c)
    HC = respell("each(Y['host_configurations'].items())[1]")
    # minimum key counts follow from the required keys being present: assumed true
    benign = {f"2<len({HC})", f"{len(DOC_SECTIONS) - 1}<len(Y)"}
    n = 0
    for g in lf.guards:
        fs = f_show(g.F)
        if g.loops == ["Y"] or (fs.endswith("<len(Y)") and fs[:-7].isdigit()):
            continue                      # section table guards: C18.sections.*
        if len(g.loops) == 1 and g.loops[0].startswith("[(") and "scan_cost" in g.loops[0]:
            doc = [f_not(A(f"each({g.loops[0]})[1]<0"))]
        elif not g.loops and fs.startswith("!Y['") and fs.endswith("_scan_cost']<0"):
            doc = [g.F]
        else:
            doc = by_loops.get(tuple(g.loops), [])
        atoms = f_atoms(g.F) - benign
        from sa.canon import ATOM_STRUCT

        def operands(ats):
            out = set()
            for a in ats:
                st = ATOM_STRUCT.get(a)
                if st:
                    out |= {st[1], st[2]}
            return out
        gops = operands(atoms)
        rel = [d for d in doc if (f_atoms(d) & atoms) or
               (gops and len(operands(f_atoms(d)) & gops) >= 2)]
        D = f_and(rel) if rel else ("true",)
        G = g.F
        # benign atoms are assumed (they follow from the required keys being present)
        from sa.canon import f_subst
        G = f_subst(G, lambda a: ("true",) if a in benign else None)
        ok = bool(f_implies(D, G))
        if not ok:
            # closed forms: the guard may state several documented rules at once about the whole
            # document (a validation helper whose result is tested once, an `all(...)`)
            from .loaderfacts import closed
            from sa.canon import deep_atoms
            Gc = closed(G, g.loops)
            ga = deep_atoms(Gc) - benign
            docs = []
            for lp, cs in by_loops.items():
                for c_ in cs:
                    cc = closed(c_, list(lp))
                    if deep_atoms(cc) & ga:
                        docs.append(cc)
            if docs:
                ok = bool(f_implies(f_and(docs), Gc))
        n += 1
        if not ok:
            from sa.report import opaque_reason
            why = opaque_reason(fs)
            if why:
                chk.undecided("C17.accept", f"{g.func.split('.')[-1]}: guard at {g.loc} demands no "
                              "more than the documented rules", f"the guard tests a value the "
                              f"analysis does not model ({why})", g.loc)
                continue
        chk.ob("C17.accept", f"{g.func.split('.')[-1]}: guard `{fs[:140]}` demands no more than "
               "the documented rules", ok,
               "" if ok else f"the documented rules for this subject are `{f_show(D)[:300]}`; the "
               "guard additionally rejects documented-valid files (e.g. an exploit probability of "
               "1.0 when the documented domain is [0, 1])", g.loc, nontrivial=False)
    chk.floor("C17.accept", n, 25, "guards checked for over-strictness")
