"""C14 - seeded runs and seeded generation are reproducible (structural clauses).

  C14.entropy     every nondeterministic source in nasim/envs (minus render.py) and nasim/scenarios is
                  a member of the global legacy np.random family; no random.*, default_rng/Generator/
                  RandomState, os.urandom, time.*, uuid, secrets, id(), hash() of content
  C14.seed-first  in ScenarioGenerator.generate, np.random.seed(seed) (exactly under `seed is not
                  None`) precedes every call that draws
  C14.hash-order  no hash-ordered (set-derived) sequence reaches an ordered-sequence argument of
                  np.random.*, nor a loop whose body draws or fills an ordered container
  C14.no-carry    generate() stores every generator field before reading it (a generator object
                  carries nothing from one call to the next); make_benchmark_scenario writes
                  params['seed'] before the only read
"""
import ast

from sa.canon import Canon, f_show, f_equiv, A, f_not
from sa.interp import Interp, C
from .order import taint, HASH
from .c12 import mentions

EXPLANATION = (
    "AST scan with import-resolved callee names for entropy sources; abstract interpretation of "
    "ScenarioGenerator.generate for the order of the seed call and for reads of generator fields "
    "that no store of the same call precedes; flow-insensitive order-taint analysis "
    "(set -> HASH_ORDERED, sorted() sanitises) with np.random sequence arguments and drawing / "
    "list-building loops as sinks.")

LEGACY = {"seed", "rand", "randn", "randint", "random_sample", "random", "ranf", "sample", "choice",
          "shuffle", "permutation", "poisson", "uniform", "normal", "binomial", "beta", "gamma",
          "dirichlet", "exponential", "geometric", "multinomial", "get_state", "set_state"}
FORBIDDEN_NP = {"default_rng", "Generator", "RandomState", "SeedSequence", "PCG64", "MT19937",
                "BitGenerator"}
SEQ_ARG = {"choice", "shuffle", "permutation"}
SCOPE = ("nasim.envs", "nasim.scenarios")
EXEMPT_MODULES = {"nasim.envs.render"}   # random.uniform only places nodes in a plot


def in_scope(m):
    return any(m.name == s or m.name.startswith(s + ".") for s in SCOPE) \
        and m.name not in EXEMPT_MODULES


def run(ctx, chk):
    chk.explanation = EXPLANATION
    repo = ctx.repo
    ot = taint(ctx)
    n_np = 0
    draws_by_fn = {}
    for fi in repo.all_functions():
        m = fi.module
        if not in_scope(m):
            continue
        for n in ast.walk(fi.node):
            if not isinstance(n, ast.Call):
                continue
            r = repo.resolve_attr_chain(m, n.func) if isinstance(n.func, (ast.Name, ast.Attribute)) \
                else None
            name = r[1] if r and r[0] == "ext" else None
            loc = f"{m.path}:{n.lineno}"
            if name is None:
                if isinstance(n.func, ast.Name) and n.func.id in ("id", "hash") \
                        and fi.name != "__hash__" and n.func.id not in _locals(fi):
                    chk.violation("C14.entropy", f"{fi.qualname}: builtin {n.func.id}() of an object "
                                  "outside __hash__", "object identity / str hashing differ between "
                                  "processes", loc)
                continue
            if name.startswith("numpy.random."):
                leaf = name.split(".")[-1]
                if leaf in FORBIDDEN_NP or leaf not in LEGACY:
                    chk.violation("C14.entropy", f"{fi.qualname}: {name} is not a member of the "
                                  "global legacy np.random family", "a private generator is not "
                                  "seeded by np.random.seed", loc)
                    continue
                n_np += 1
                draws_by_fn.setdefault(fi.fq, []).append(n)
                chk.ob("C14.entropy", f"{fi.qualname}: draws from np.random.{leaf}", True, "", loc,
                       nontrivial=False)
                if leaf in SEQ_ARG and n.args:
                    k = ot.kind(fi, n.args[0])
                    chk.ob("C14.hash-order", f"{fi.qualname}: np.random.{leaf}"
                           f"({ast.unparse(n.args[0])}) draws from an order-deterministic sequence",
                           k != HASH, "the sequence is built from a set: its order depends on "
                           "PYTHONHASHSEED, so the same seed selects different elements in "
                           "different processes", loc)
            elif name.split(".")[0] in ("random", "secrets", "uuid") or name in (
                    "os.urandom", "time.time", "time.time_ns", "time.perf_counter",
                    "time.monotonic", "datetime.datetime.now"):
                chk.violation("C14.entropy", f"{fi.qualname}: {name} is an entropy/clock source "
                              "outside the seeded generator", "", loc)
    chk.floor("C14.entropy", n_np, 12, "np.random call sites")
    # ---- arbitrary-element picks from a hash-ordered set: set.pop(), next(iter(set)), list(set)[i]
    for fi in repo.all_functions():
        if not in_scope(fi.module):
            continue
        for n in ast.walk(fi.node):
            pick = None
            if isinstance(n, ast.Call) and isinstance(n.func, ast.Attribute) \
                    and n.func.attr == "pop" and not n.args and ot.kind(fi, n.func.value) == HASH:
                pick = f"{ast.unparse(n.func.value)}.pop()"
            if isinstance(n, ast.Call) and isinstance(n.func, ast.Name) and n.func.id == "next" \
                    and n.args and isinstance(n.args[0], ast.Call) \
                    and isinstance(n.args[0].func, ast.Name) and n.args[0].func.id == "iter" \
                    and n.args[0].args and ot.kind(fi, n.args[0].args[0]) == HASH:
                pick = ast.unparse(n)
            if isinstance(n, ast.Subscript) and isinstance(n.ctx, ast.Load) \
                    and isinstance(n.value, ast.Call) and isinstance(n.value.func, ast.Name) \
                    and n.value.func.id in ("list", "tuple") and n.value.args \
                    and ot.kind(fi, n.value.args[0]) == HASH:
                pick = ast.unparse(n)
            if pick:
                chk.violation("C14.hash-order", f"{fi.qualname}: {pick} takes an arbitrary element of "
                              "a hash-ordered set", "which element is taken depends on PYTHONHASHSEED, "
                              "not on the seeded generator", f"{fi.module.path}:{n.lineno}")
    # ---- loops over hash-ordered iterables that draw or fill ordered containers
    for fi in repo.all_functions():
        if not in_scope(fi.module):
            continue
        for n in ast.walk(fi.node):
            if isinstance(n, ast.For) and ot.kind(fi, n.iter) == HASH:
                why = None
                for x in ast.walk(ast.Module(body=n.body, type_ignores=[])):
                    if isinstance(x, ast.Call):
                        r = repo.resolve_attr_chain(fi.module, x.func) \
                            if isinstance(x.func, (ast.Name, ast.Attribute)) else None
                        if r and r[0] == "ext" and r[1].startswith("numpy.random."):
                            why = f"draws ({r[1]}) inside"
                        if isinstance(x.func, ast.Attribute) and x.func.attr in ("append", "insert",
                                                                                 "extend"):
                            why = why or f"fills an ordered container (.{x.func.attr}) inside"
                    if isinstance(x, ast.Assign) and any(isinstance(t, ast.Subscript)
                                                         for t in x.targets):
                        why = why or "fills a dict/list by subscript inside"
                chk.ob("C14.hash-order", f"{fi.qualname}: loop over the hash-ordered "
                       f"{ast.unparse(n.iter)} neither draws nor builds ordered content",
                       why is None, why or "", f"{fi.module.path}:{n.lineno}")
    # ---- seed first
    gen = repo.func("nasim.scenarios.generator", "ScenarioGenerator.generate")
    ip = Interp(repo, ctx.types, param_types={gen.params[0]: "ScenarioGenerator"})
    s = ip.run(gen)
    cn = Canon(ip, ctx.layout)
    rnd = [ev for ev in s.events if ev.kind == "call" and ev.data["fname"].startswith("numpy.random.")]
    seeds = [ev for ev in rnd if ev.data["fname"] == "numpy.random.seed"]
    ok = len(seeds) == 1
    detail = f"{len(seeds)} seed call(s)"
    if ok:
        sd = seeds[0]
        first = min(rnd, key=lambda e: e.seq)
        cond = cn.conj(tuple(c for c in sd.pc if c[0] != "fact"))
        arg_ok = len(sd.data["args"]) == 1 and sd.data["args"][0] == ("param", "seed")
        ok = first is sd and f_equiv(cond, f_not(A("None is seed"))) and arg_ok
        detail = f"first np.random call: {first.data['fname']} at {first.loc}; seed call under " \
                 f"{f_show(cond)} with argument {cn.show(sd.data['args'][0]) if sd.data['args'] else None}"
    chk.ob("C14.seed-first", "generate: np.random.seed(seed), under `seed is not None`, precedes "
           "every draw", ok, detail, gen.module.path)
    chk.floor("C14.seed-first", len(rnd), 10, "np.random calls reachable from generate")
    # ---- no carried generator state
    selfp = ("param", gen.params[0])
    carried = set()

    def visit(t):
        if isinstance(t, tuple):
            if len(t) == 3 and t[0] == "attr" and t[1] == selfp:
                carried.add(t[2])
            for x in t:
                if isinstance(x, tuple):
                    visit(x)
    seen = set()
    for ev in s.events:
        for v in ev.data.values():
            if isinstance(v, tuple) and id(v) not in seen:
                seen.add(id(v))
                if mentions(v, lambda t: len(t) == 3 and t[0] == "attr" and t[1] == selfp):
                    visit(v)
        for c in ev.pc:
            if mentions(c, lambda t: len(t) == 3 and t[0] == "attr" and t[1] == selfp):
                visit(c)
    # methods are not state
    gcls = repo.cls("nasim.scenarios.generator", "ScenarioGenerator")
    carried = {a for a in carried if gcls.find_method(a) is None}
    chk.ob("C14.no-carry", "generate: no generator field is read before the same call stored it",
           not carried, f"fields read from a previous call: {sorted(carried)}", gen.module.path)
    # make_benchmark_scenario: params['seed'] store before the generate call
    mb = repo.func("nasim.scenarios", "make_benchmark_scenario")
    GS = "nasim.scenarios:generate_scenario"
    ip2 = Interp(repo, ctx.types, no_inline=(GS, "nasim.scenarios:load_scenario"))
    s2 = ip2.run(mb)
    cn2 = Canon(ip2, ctx.layout)
    from sa.canon import f_implies
    gens = [ev for ev in s2.events if ev.kind == "call" and ev.data["fname"] == GS]
    desc = "make_benchmark_scenario stores params['seed'] = seed before generating"
    if not gens:
        chk.undecided("C14.no-carry", desc, "no call of generate_scenario found in "
                      "make_benchmark_scenario", mb.module.path)
    else:
        seed_p = ("param", mb.params[1]) if len(mb.params) > 1 else None
        stores = [ev for ev in s2.events if ev.kind == "store" and ev.data["target"] == "sub"
                  and ev.data["idx"] == C("seed") and ev.data["value"] == seed_p]
        ok = True
        detail = ""
        for g in gens:
            gpc = cn2.conj(tuple(c for c in g.pc if c[0] != "fact"))
            before = [st_ for st_ in stores if st_.seq < g.seq and f_implies(
                gpc, cn2.conj(tuple(c for c in st_.pc if c[0] != "fact")))]
            if not before:
                ok = False
                detail = (f"generate_scenario at {g.loc} is reached without a preceding "
                          f"params['seed'] = seed ({len(stores)} such store(s) in the function)")
        chk.ob("C14.no-carry", desc, ok, detail, mb.module.path)
    chk.assume("NOT decided: bit-identical trajectories across processes additionally need numpy's "
               "generator and float arithmetic to be deterministic (trusted) and no dependence on "
               "process-global layout state (C19)")
    chk.assume("sets used only for membership, len, add/remove, or stored as firewall values "
               "(compared as sets) are order-insensitive")


def _locals(fi):
    return {n.id for n in ast.walk(fi.node) if isinstance(n, ast.Name)
            and isinstance(n.ctx, ast.Store)} | set(fi.params)
