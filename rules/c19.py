"""C19 - environment instances are independent of each other (process-global-state rule).

Global locations = class-level attributes and module-level names of the library part of nasim
(nasim/__init__, nasim/envs, nasim/scenarios).  For each location the run-time *writers* are
collected: stores through cls.X / ClassName.X / type(self).X, item stores and mutating method calls
on class-level or module-level containers (also through a local alias), `global` statements,
mutated default-argument containers.
  C19.shared-global  a location with a run-time writer that is read by instance code is shared mutable
                     state between environments, unless every read in the same call is preceded by the
                     write (dominating store)
  C19.own-objects    NASimEnv.__init__ builds Network, State and action space from its own scenario
                     argument only; no per-instance container lives at class level
"""
import ast

from sa.interp import Interp
from sa.canon import Canon
from sa.ctx import ENV_MOD

EXPLANATION = (
    "AST scan of nasim/__init__, nasim/envs and nasim/scenarios for run-time writers of class-level "
    "and module-level locations (with local-alias tracking), matched against the readers of the "
    "same locations; abstract interpretation of NASimEnv.__init__ for the provenance of the "
    "per-instance objects.")

MUTATORS = {"append", "extend", "insert", "pop", "remove", "clear", "update", "setdefault",
            "popitem", "add", "discard", "sort", "reverse", "appendleft", "popleft"}
SCOPE = ("nasim", "nasim.envs", "nasim.scenarios")


def in_scope(m):
    return m.name == "nasim" or m.name.startswith("nasim.envs") \
        or m.name.startswith("nasim.scenarios")


def public_entry(ctx, owner, wf):
    """the public method(s) of class `owner` from which the writing function wf (qualname) is
    reached through calls on self / cls / the class itself - the call site a user sees; private
    helpers in between may be renamed, split or merged without the finding becoming another one"""
    ci = ctx.types.class_by_name.get(owner)
    leaf = wf.split(".")[-1]
    if ci is None or not wf.startswith(owner + ".") or leaf not in ci.methods:
        return wf
    if not leaf.startswith("_"):
        return wf
    calls = {}
    for name, m in ci.methods.items():
        recv = set(m.params[:1]) | {owner}
        calls[name] = {n.func.attr for n in ast.walk(m.node)
                       if isinstance(n, ast.Call) and isinstance(n.func, ast.Attribute)
                       and isinstance(n.func.value, ast.Name) and n.func.value.id in recv}
    # upwards from the writer; the first public method on each path is the entry (its own public
    # callers are not part of the key)
    reach, frontier = {leaf}, {leaf}
    while frontier:
        nxt = set()
        for name, cs in calls.items():
            if name not in reach and cs & frontier:
                reach.add(name)
                if name.startswith("_"):
                    nxt.add(name)
        frontier = nxt
    pub = sorted(n for n in reach if not n.startswith("_"))
    return " / ".join(f"{owner}.{n}" for n in pub) if pub else wf


def run(ctx, chk):
    chk.explanation = EXPLANATION
    repo = ctx.repo
    writers = {}      # (kind, owner, name) -> [(func qualname, loc, how)]
    readers = {}      # same key -> [(func qualname, loc)]
    nfun = 0
    for fi in repo.all_functions():
        m = fi.module
        if not in_scope(m):
            continue
        nfun += 1
        first = fi.params[0] if fi.params else None
        is_cm = fi.flavour == "classmethod"
        # local aliases of global containers:  x = <module-level container>[...]
        alias = {}
        globals_declared = set()
        for n in ast.walk(fi.node):
            if isinstance(n, ast.Global):
                globals_declared |= set(n.names)
        for n in ast.walk(fi.node):
            if isinstance(n, ast.Assign) and len(n.targets) == 1 \
                    and isinstance(n.targets[0], ast.Name):
                loc_ = global_root(repo, fi, n.value, alias)
                if loc_ is None and isinstance(n.value, (ast.Attribute, ast.Subscript)):
                    # x = self.<class-level container> / cls.<container>[..]: a local alias of it
                    loc_ = container_key(repo, fi, n.value, alias, first, is_cm)
                if loc_ is None:
                    # x = Class.getter() where the getter returns a class-level attribute as is
                    loc_ = getter_key(repo, fi, n.value, first)
                if loc_ is not None:
                    alias[n.targets[0].id] = loc_
        for n in ast.walk(fi.node):
            loc = f"{m.path}:{getattr(n, 'lineno', 0)}"
            # ---- in-place augmented assignment through a local alias of a class-level object
            # (`x = cls.A; x |= y` updates the shared array / list / set itself; for numbers and
            # strings it only re-binds x, hence the test on what the attribute holds)
            if isinstance(n, ast.AugAssign) and isinstance(n.target, ast.Name) \
                    and n.target.id in alias and alias[n.target.id][0] == "class" \
                    and mutable_valued(repo, alias[n.target.id][1], alias[n.target.id][2]):
                writers.setdefault(alias[n.target.id], []).append(
                    (fi.qualname, loc, f"in-place {ast.unparse(n.target)} "
                     f"{OPS.get(type(n.op), '?')}= ... through a local alias"))
            # ---- stores
            targets = []
            if isinstance(n, ast.Assign):
                targets = n.targets
            elif isinstance(n, (ast.AugAssign, ast.AnnAssign)):
                targets = [n.target]
            for t in targets:
                for tt in (t.elts if isinstance(t, (ast.Tuple, ast.List)) else [t]):
                    key, how = store_key(repo, fi, tt, alias, globals_declared, first, is_cm)
                    if key:
                        writers.setdefault(key, []).append((fi.qualname, loc, how))
            # ---- mutating calls
            if isinstance(n, ast.Call) and isinstance(n.func, ast.Attribute) \
                    and n.func.attr in MUTATORS:
                key = container_key(repo, fi, n.func.value, alias, first, is_cm)
                if key:
                    writers.setdefault(key, []).append((fi.qualname, loc, f".{n.func.attr}()"))
            # ---- reads of class-level attributes through self./cls.
            if isinstance(n, ast.Attribute) and isinstance(n.ctx, ast.Load) \
                    and isinstance(n.value, ast.Name) and fi.cls is not None \
                    and n.value.id in (first, fi.cls.name):
                oc, ex = fi.cls.find_class_attr(n.attr)
                owner = oc.name if ex is not None else fi.cls.name
                readers.setdefault(("class", owner, n.attr), []).append((fi.qualname, loc))
                for base in fi.cls.mro()[1:]:
                    readers.setdefault(("class", base.name, n.attr), []).append(
                        (fi.qualname, loc))
        # ---- mutated default-argument containers
        a = fi.node.args
        defaults = dict(zip([x.arg for x in (a.posonlyargs + a.args)][-len(a.defaults):] if
                            a.defaults else [], a.defaults))
        for p, d in defaults.items():
            if isinstance(d, (ast.List, ast.Dict, ast.Set)):
                mutated = any(
                    (isinstance(x, ast.Call) and isinstance(x.func, ast.Attribute)
                     and x.func.attr in MUTATORS and isinstance(x.func.value, ast.Name)
                     and x.func.value.id == p) or
                    (isinstance(x, ast.Subscript) and isinstance(x.ctx, ast.Store)
                     and isinstance(x.value, ast.Name) and x.value.id == p)
                    for x in ast.walk(fi.node))
                if mutated:
                    writers.setdefault(("default", fi.qualname, p), []).append(
                        (fi.qualname, f"{m.path}:{fi.node.lineno}", "mutated default argument"))
    chk.floor("C19.scan", nfun, 100, "library functions scanned")
    n_checked = 0
    # class-level attributes: one finding per (class, writing function) - the call site of the
    # defect - not per attribute name (renaming an attribute is not a new defect)
    by_writer = {}
    for key, ws in sorted(writers.items()):
        kind, owner, name = key
        if kind != "class":
            continue
        n_checked += 1
        ci = ctx.types.class_by_name.get(owner)
        shadowed = ci is not None and instance_assigned(ci, name)
        rs = [] if shadowed else [r for r in readers.get(key, [])]
        wfuncs = sorted({w[0] for w in ws})
        rfuncs = sorted({r[0] for r in rs} - set(wfuncs))
        shared = bool(rfuncs or rs)
        for wf, loc_, how in ws:
            wf0 = wf
            wf = public_entry(ctx, owner, wf)
            g = by_writer.setdefault((owner, wf), {"attrs": set(), "readers": set(), "loc": loc_,
                                                   "how": how, "shared": False, "clean": set(),
                                                   "writers": set()})
            g["writers"].add(wf0)
            if shared:
                g["attrs"].add(name)
                g["readers"] |= set(rfuncs)
                g["shared"] = True
            else:
                g["clean"].add(name)
    for (owner, wf), g in sorted(by_writer.items()):
        construct = f"{owner}: class-level attributes written at run time through {wf}"
        rd = sorted(g["readers"])
        wf = " / ".join(sorted(g["writers"]))
        detail = (f"{wf} writes {', '.join(sorted(g['attrs']))} ({g['how']} at {g['loc']}); read by "
                  f"{', '.join(rd[:6])}{' ...' if len(rd) > 6 else ''}: the value set while one "
                  "environment is built/reset is what every other live environment reads")
        chk.ob("C19.shared-global", construct, not g["shared"], detail if g["shared"] else
               f"{wf} writes {', '.join(sorted(g['clean']))}: never read by instance code", g["loc"])
    for key, ws in sorted(writers.items()):
        kind, owner, name = key
        if kind == "class":
            continue
        n_checked += 1
        wfuncs = sorted({w[0] for w in ws})
        if kind == "module":
            dom = dominated(repo, key, ws)
            construct = f"{owner}.{name}: module-level object mutated at run time"
            chk.ob("C19.shared-global", construct, dom,
                   f"mutated by {', '.join(wfuncs)} ({ws[0][2]} at {ws[0][1]})"
                   + ("" if dom else "; later calls (other environments) observe the mutation"),
                   ws[0][1])
        else:
            chk.violation("C19.shared-global", f"{owner}({name}=...): mutated default-argument "
                          "container", "the same container object is shared by all calls", ws[0][1])
    chk.extra["written_global_locations"] = len(writers)
    # positive control: the scan recognises a class-level store (HostVector layout is the known one);
    # if nothing at all is found the scan is blind
    chk.floor("C19.shared-global", n_checked, 1, "run-time written global locations")
    check_own_objects(ctx, chk)
    chk.assume("sharing through a *user-supplied* scenario object used for two environments is out "
               "of scope (both only read it; exploit_map memoisation is idempotent)")
    chk.assume("monkey-patching from outside nasim and subclass overrides are outside the model")


def global_root(repo, fi, e, alias):
    """('module', modname, name) if expression e denotes (part of) a module-level container"""
    while isinstance(e, ast.Subscript):
        e = e.value
    if isinstance(e, ast.Call) and isinstance(e.func, ast.Attribute) \
            and e.func.attr in ("get", "setdefault"):
        return global_root(repo, fi, e.func.value, alias)
    if isinstance(e, ast.Name) and e.id in alias:
        return alias[e.id]
    if isinstance(e, (ast.Name, ast.Attribute)):
        root = e
        while isinstance(root, ast.Attribute):
            root = root.value
        if isinstance(root, ast.Name) and root.id in _locals(fi):
            return None
        r = repo.resolve_attr_chain(fi.module, e)
        if r and r[0] == "assign" and isinstance(r[2], (ast.Dict, ast.List, ast.Set, ast.Call,
                                                          ast.DictComp, ast.ListComp, ast.BinOp)):
            name = e.attr if isinstance(e, ast.Attribute) else e.id
            return ("module", r[1].name, name)
    return None


def _locals(fi):
    out = set(fi.params)
    for n in ast.walk(fi.node):
        if isinstance(n, ast.Name) and isinstance(n.ctx, ast.Store):
            out.add(n.id)
    return out


OPS = {ast.BitOr: "|", ast.BitAnd: "&", ast.Add: "+", ast.Sub: "-", ast.Mult: "*", ast.BitXor: "^"}


def _class_of_receiver(repo, fi, recv, first):
    if not isinstance(recv, ast.Name):
        return None
    if fi.cls is not None and recv.id in (first, fi.cls.name):
        return fi.cls
    r = repo.resolve_name(fi.module, recv.id) if recv.id not in _locals(fi) else None
    return r[1] if r and r[0] == "class" else None


def getter_key(repo, fi, e, first):
    """("class", owner, attr) when e is `C.m()` / `cls.m()` / `self.m()` and every return of m is
    the class-level attribute `attr` itself (a getter hands out the shared object)"""
    if not (isinstance(e, ast.Call) and isinstance(e.func, ast.Attribute) and not e.args
            and not e.keywords):
        return None
    ci = _class_of_receiver(repo, fi, e.func.value, first)
    m = ci.find_method(e.func.attr) if ci is not None else None
    if m is None or m.flavour in ("property", "setter"):
        return None
    rets = [n for n in ast.walk(m.node) if isinstance(n, ast.Return)]
    keys = set()
    for r in rets:
        v = r.value
        if not (isinstance(v, ast.Attribute) and isinstance(v.value, ast.Name) and m.params
                and v.value.id in (m.params[0], ci.name)):
            return None
        oc, ex = ci.find_class_attr(v.attr)
        if ex is None or (m.flavour != "classmethod" and v.value.id == m.params[0]
                          and instance_assigned(ci, v.attr)):
            return None
        keys.add(("class", oc.name, v.attr))
    return keys.pop() if len(keys) == 1 else None


_MUTABLE_CTORS = {"list", "dict", "set", "bytearray", "defaultdict", "deque", "OrderedDict",
                  "Counter"}


def _mutable_expr(repo, ci, e, depth=0):
    if isinstance(e, (ast.List, ast.Dict, ast.Set, ast.ListComp, ast.DictComp, ast.SetComp)):
        return True
    if isinstance(e, ast.Call):
        f = e.func
        if isinstance(f, ast.Name) and f.id in _MUTABLE_CTORS:
            return True
        if isinstance(f, ast.Attribute) and isinstance(f.value, ast.Name):
            if f.value.id in ("np", "numpy"):
                return True              # every numpy constructor / ufunc returns an ndarray
            m = ci.find_method(f.attr) if ci is not None else None
            if m is not None and depth < 2:
                # a method of the class that returns a local it built from a mutable expression
                local = {}
                for n in ast.walk(m.node):
                    if isinstance(n, ast.Assign) and len(n.targets) == 1 \
                            and isinstance(n.targets[0], ast.Name):
                        local.setdefault(n.targets[0].id, []).append(n.value)
                for r in ast.walk(m.node):
                    if isinstance(r, ast.Return) and r.value is not None:
                        vals = local.get(r.value.id, []) if isinstance(r.value, ast.Name) \
                            else [r.value]
                        if any(_mutable_expr(repo, ci, v, depth + 1) for v in vals):
                            return True
    return False


def mutable_valued(repo, owner, attr):
    """some assignment to the class-level attribute gives it a list / dict / set / ndarray"""
    for ci in (c for mod in repo.modules.values() for c in mod.classes.values()):
        if ci.name != owner:
            continue
        oc, ex = ci.find_class_attr(attr)
        if ex is not None and _mutable_expr(repo, ci, ex):
            return True
        for m in ci.methods.values():
            for n in ast.walk(m.node):
                if isinstance(n, ast.Assign):
                    for t in n.targets:
                        if isinstance(t, ast.Attribute) and t.attr == attr \
                                and isinstance(t.value, ast.Name) and m.params \
                                and t.value.id in (m.params[0], owner) \
                                and _mutable_expr(repo, ci, n.value):
                            return True
    return False


def store_key(repo, fi, t, alias, globals_declared, first, is_cm):
    if isinstance(t, ast.Name):
        if t.id in globals_declared:
            return ("module", fi.module.name, t.id), "global assignment"
        return None, None
    if isinstance(t, ast.Attribute):
        if isinstance(t.value, ast.Name):
            if is_cm and t.value.id == first and fi.cls is not None:
                return ("class", fi.cls.name, t.attr), f"{first}.{t.attr} = ..."
            r = repo.resolve_name(fi.module, t.value.id) if t.value.id not in _locals(fi) else None
            if r and r[0] == "class":
                return ("class", r[1].name, t.attr), f"{t.value.id}.{t.attr} = ..."
            if r and r[0] == "module":
                return ("module", r[1].name, t.attr), f"{t.value.id}.{t.attr} = ..."
        if isinstance(t.value, ast.Call) and isinstance(t.value.func, ast.Name) \
                and t.value.func.id == "type" and fi.cls is not None:
            return ("class", fi.cls.name, t.attr), f"type(self).{t.attr} = ..."
        if isinstance(t.value, ast.Attribute) and t.value.attr == "__class__" \
                and fi.cls is not None:
            return ("class", fi.cls.name, t.attr), f"self.__class__.{t.attr} = ..."
        return None, None
    if isinstance(t, ast.Subscript):
        key = container_key(repo, fi, t.value, alias, first, is_cm)
        return (key, "item store") if key else (None, None)
    return None, None


def container_key(repo, fi, e, alias, first, is_cm):
    """location of the container expression e if it is class-level or module-level"""
    base = e
    while isinstance(base, ast.Subscript):
        base = base.value
    if isinstance(base, ast.Attribute) and isinstance(base.value, ast.Name) and fi.cls is not None:
        if (is_cm and base.value.id == first) or base.value.id == fi.cls.name:
            oc, ex = fi.cls.find_class_attr(base.attr)
            if ex is not None:
                return ("class", oc.name, base.attr)
        r = repo.resolve_name(fi.module, base.value.id) if base.value.id not in _locals(fi) \
            else None
        if r and r[0] == "class":
            oc, ex = r[1].find_class_attr(base.attr)
            if ex is not None:
                return ("class", oc.name, base.attr)
        # self.X where X is only a class-level container (never instance-assigned)
        if base.value.id == first and not is_cm:
            oc, ex = fi.cls.find_class_attr(base.attr)
            if ex is not None and isinstance(ex, (ast.Dict, ast.List, ast.Set)) \
                    and not instance_assigned(fi.cls, base.attr):
                return ("class", oc.name, base.attr)
    g = global_root(repo, fi, base, alias)
    return g


def instance_assigned(ci, name):
    for c in ci.mro():
        for m in list(c.methods.values()) + list(c.setters.values()):
            if m.flavour == "classmethod":
                continue
            first = m.params[0] if m.params else None
            for n in ast.walk(m.node):
                if isinstance(n, ast.Attribute) and isinstance(n.ctx, ast.Store) \
                        and n.attr == name and isinstance(n.value, ast.Name) \
                        and n.value.id == first:
                    return True
    return False


def dominated(repo, key, ws):
    """a module-level container mutated at run time is harmless only if, in every function that
    mutates it, the first use of the container (or of the local alias through which it is
    mutated) is a plain item store - i.e. nothing left behind by an earlier call is read before it
    is overwritten"""
    kind, modname, name = key
    for fq, loc, how in ws:
        if how != "item store":
            return False
        fi = None
        for f in repo.all_functions():
            if f.qualname == fq and loc.startswith(f.module.path + ":"):
                fi = f
        if fi is None:
            return False
        names = {name}
        alias = {}
        for _ in range(3):          # aliases of aliases (x = CONTAINER; y = x[k])
            for n in ast.walk(fi.node):
                if isinstance(n, ast.Assign) and len(n.targets) == 1 \
                        and isinstance(n.targets[0], ast.Name):
                    g = global_root(repo, fi, n.value, alias)
                    if g == key:
                        names.add(n.targets[0].id)
                        alias[n.targets[0].id] = key
        uses = []
        for n in ast.walk(fi.node):
            if isinstance(n, ast.Name) and n.id in names and isinstance(n.ctx, ast.Load):
                uses.append(n)
            if isinstance(n, ast.Attribute) and n.attr == name and isinstance(n.ctx, ast.Load):
                uses.append(n)
        if not uses:
            return False
        # parents to tell a store-target use from a read
        parents = {}
        for n in ast.walk(fi.node):
            for c in ast.iter_child_nodes(n):
                parents[c] = n
        uses.sort(key=lambda n: (n.lineno, n.col_offset))
        # skip the alias definition itself (x = CONTAINER[...])
        for u in uses:
            p = parents.get(u)
            top = u
            while isinstance(p, (ast.Subscript, ast.Attribute)) and p.value is top:
                top, p = p, parents.get(p)
            if isinstance(top, ast.Attribute) and top.attr == "get" and isinstance(p, ast.Call) \
                    and p.func is top:
                top, p = p, parents.get(p)      # x = CONTAINER.get(k): the entry, or None
            if isinstance(p, ast.Assign) and p.value is top and isinstance(p.targets[0], ast.Name) \
                    and p.targets[0].id in names:
                continue            # alias definition
            if isinstance(p, ast.Compare) and len(p.ops) == 1 \
                    and isinstance(p.ops[0], (ast.Is, ast.IsNot)) \
                    and isinstance(p.comparators[0], ast.Constant) and p.comparators[0].value is None:
                continue            # `x is (not) None`: presence test, reads nothing stored
            is_store = isinstance(top, ast.Subscript) and isinstance(top.ctx, ast.Store)
            if is_store:
                # the store must execute whenever the later reads do: not nested in a
                # conditional / loop that the later uses are outside of
                stmt = top
                while stmt is not None and not isinstance(stmt, ast.stmt):
                    stmt = parents.get(stmt)
                blk = parents.get(stmt)
                later = [x for x in uses if (x.lineno, x.col_offset) > (u.lineno, u.col_offset)]
                if isinstance(blk, (ast.If, ast.For, ast.While, ast.Try)):
                    inside = {id(x) for x in ast.walk(blk)}
                    # alias definition / membership guard of the enclosing branch are fine; a later
                    # use outside the conditional block is not dominated
                    if isinstance(blk, ast.If) and stmt in blk.body and blk.orelse == [] \
                            and any(id(x) not in inside for x in later):
                        return False
                    if not isinstance(blk, ast.If) and any(id(x) not in inside for x in later):
                        return False
                    # conditional store followed by reads inside the same block only: check that the
                    # enclosing `if` is the function's own dispatch (its test does not mention the
                    # stored value)
                    if isinstance(blk, ast.If) and stmt in blk.body:
                        t = ast.unparse(blk.test)
                        v = ast.unparse(parents.get(top).value) if isinstance(parents.get(top),
                                                                             ast.Assign) else ""
                        if v and v in t.split():
                            return False
                break
            # a membership test of the container does not read what an earlier call stored
            if isinstance(p, ast.Compare) and top in p.comparators \
                    and all(isinstance(o, (ast.In, ast.NotIn)) for o in p.ops):
                continue
            return False
    return True


def check_own_objects(ctx, chk):
    fi = ctx.repo.func(ENV_MOD, "NASimEnv.__init__")
    ip = Interp(ctx.repo, ctx.types, param_types={fi.params[0]: "NASimEnv",
                                                  fi.params[1]: "Scenario"},
                no_inline=("nasim.envs.state:State.generate_initial_state",
                           "nasim.envs.environment:NASimEnv.reset",
                           "nasim.envs.action:load_action_list",
                           "nasim.envs.observation:Observation.get_space_bounds"))
    s = ip.run(fi)
    cn = Canon(ip, ctx.layout)
    SC = fi.params[1]
    news = {ev.data["cls"]: ev for ev in s.events if ev.kind == "new"}
    ok_net = "Network" in news and [cn.show(a) for a in news["Network"].data["args"]] == [SC]
    chk.ob("C19.own-objects", "NASimEnv.__init__: Network(scenario) is built from the constructor's "
           "own scenario argument", ok_net, "", fi.module.path)
    gis = [ev for ev in s.events if ev.kind == "call"
           and ev.data["fname"].endswith("State.generate_initial_state")]
    ok = len(gis) == 1 and gis[0].data["args"] and gis[0].data["args"][-1][0] == "new" \
        and gis[0].data["args"][-1][1] == "Network"
    chk.ob("C19.own-objects", "the initial State is generated from this environment's own Network",
           ok, "", fi.module.path)
    for c in ("FlatActionSpace", "ParameterisedActionSpace"):
        ev = news.get(c)
        ok = ev is not None and [cn.show(a) for a in ev.data["args"]] == [SC]
        chk.ob("C19.own-objects", f"{c}(scenario) is built from this environment's scenario", ok,
               "", fi.module.path, nontrivial=False)
    # per-instance containers declared at class level and mutated through self
    for ci in ctx.repo.all_classes():
        if not in_scope(ci.module):
            continue
        for name, ex in ci.class_attrs.items():
            if isinstance(ex, (ast.Dict, ast.List, ast.Set)) and not instance_assigned(ci, name):
                mut = False
                for m in ci.methods.values():
                    if m.flavour == "classmethod":
                        continue
                    first = m.params[0] if m.params else None
                    for n in ast.walk(m.node):
                        if isinstance(n, ast.Subscript) and isinstance(n.ctx, ast.Store) \
                                and isinstance(n.value, ast.Attribute) and n.value.attr == name \
                                and isinstance(n.value.value, ast.Name) \
                                and n.value.value.id == first:
                            mut = True
                if mut:
                    chk.violation("C19.shared-global", f"{ci.name}.{name}: class-level container "
                                  "mutated through self", "all instances share it",
                                  f"{ci.module.path}:{ci.node.lineno}")
