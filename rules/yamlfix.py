"""Data-file analysis of a shipped scenario: the YAML document is parsed *as data*
(yaml.safe_load, not NASim's loader) and a monotone least fixpoint of the attack
relation is computed under the strict reading of C01/C02 (the gate table the code
checks require): returns, per host, the best access level the attacker can obtain when
every stochastic action succeeds, and a witness plan."""
import ast

import yaml

LEVEL = {"user": 1, "root": 2, 1: 1, 2: 2}


def addr(s):
    return tuple(ast.literal_eval(s)) if isinstance(s, str) else tuple(s)


def solve(path):
    with open(path) as fh:
        doc = yaml.safe_load(fh)
    subnets = [1] + list(doc["subnets"])
    topo = doc["topology"]
    fw = {addr(k): set(v) for k, v in doc["firewall"].items()}
    hosts = {}
    for k, cfg in doc["host_configurations"].items():
        a = addr(k)
        hosts[a] = {"os": cfg["os"], "services": set(cfg["services"]),
                    "processes": set(cfg["processes"]),
                    "deny": {addr(s): set(v) for s, v in (cfg.get("firewall") or {}).items()}}
    exploits = doc["exploits"]
    privescs = doc["privilege_escalation"] or {}

    def os_ok(h, o):
        return o is None or str(o).lower() == "none" or hosts[h]["os"] == o

    access = {a: 0 for a in hosts}
    plan = []
    changed = True
    while changed:
        changed = False
        comp = [a for a in hosts if access[a] >= 1]
        for t in hosts:
            ts = t[0]
            public = topo[ts][0] == 1
            reach = public or any(topo[c[0]][ts] == 1 for c in comp)
            if not reach:
                continue
            for name, e in exploits.items():
                srv = e["service"]
                lvl = LEVEL[e["access"]]
                if access[t] >= lvl:
                    continue
                if srv not in hosts[t]["services"] or not os_ok(t, e["os"]):
                    continue
                # pivot permission (G2) and traffic (G3), strict
                def st(src):
                    return src == ts or (topo[src][ts] == 1 and srv in fw.get((src, ts), set()))
                perm = public or any(st(c[0]) for c in comp)
                traffic = (public and srv in fw.get((0, ts), set())) or any(
                    st(c[0]) and srv not in hosts[t]["deny"].get(c, set()) for c in comp)
                if perm and traffic:
                    access[t] = max(access[t], lvl)
                    plan.append(("exploit", name, t, lvl))
                    changed = True
            if access[t] >= 1:
                for name, pe in privescs.items():
                    lvl = LEVEL[pe["access"]]
                    if access[t] >= lvl:
                        continue
                    if pe["process"] in hosts[t]["processes"] and os_ok(t, pe["os"]):
                        access[t] = lvl
                        plan.append(("privesc", name, t, lvl))
                        changed = True
    sens = {addr(k): v for k, v in doc["sensitive_hosts"].items()}
    return {"sensitive": {a: access[a] for a in sens}, "plan": plan,
            "hosts": len(hosts), "solvable": all(access[a] >= 2 for a in sens)}
