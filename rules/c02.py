"""C02 - actions respect discovery, reachability, pivot access and both firewall layers.

Decides, from the per-class partial evaluation of Network.perform_action (gate table):
  C02.gate          success of class K implies each network/host access gate required by A.1
  C02.fail-unchanged every failure exit returns an unmodified fresh copy of the input state
  C02.hostfw-kinds  the per-host deny list is keyed by the kind of value it is probed with
"""
from sa.canon import f_show, f_implies, f_counterexample, f_atoms
from . import gates
from .gates import GATES, REQUIRED, facts

EXPLANATION = (
    "Partial evaluation of Network.perform_action (+ inlined permission routines, "
    "_perform_subnet_scan, HostVector.perform_action) per concrete action class; the "
    "disjunction of the path conditions of all success exits is compared by truth table "
    "(atoms = canonical reads of state columns / scenario tables; loop bodies are "
    "existentially quantified sub-formulas compared by their own truth tables) with the "
    "gates the property text requires; every failure exit is checked to leave the returned "
    "copy unmodified.")

C02_GATES = ("G1", "G2.scan", "G2.exploit", "G3", "G4", "G5", "G6")


def run(ctx, chk):
    chk.explanation = EXPLANATION
    n_gate = 0
    n_fail = 0
    for K in ctx.action_classes:
        if K not in REQUIRED:
            chk.undecided("C02.gate", f"{K}: action class unknown to the oracle table",
                          "a new concrete Action subclass needs an entry in rules/gates.py")
            continue
        cf = facts(ctx, K)
        for o in cf.odd:
            chk.violation("C02.gate", f"{K}: result with non-literal success flag",
                          cf.cn.show(o.fields.get("success")))
        for g in REQUIRED[K]:
            if g not in C02_GATES:
                continue
            n_gate += 1
            ok = f_implies(cf.success_F, GATES[g])
            detail = ""
            if not ok:
                detail = (f"a success exit of {K} does not imply gate {g} = {f_show(GATES[g])}; "
                          f"counterexample: {f_counterexample(*f_and_not(cf.success_F, GATES[g]))}"
                          f"; derived success condition: {f_show(cf.success_F)}")
            chk.ob("C02.gate", f"{K}: success requires {g}", ok, detail,
                   loc=cf.d.fi.module.path)
            if ok:
                chk.sample({"rule": "C02.gate", "class": K, "gate": g,
                            "gate_formula": f_show(GATES[g])})
        for o in cf.failure:
            n_fail += 1
            flags = ",".join(f for f in ("connection_error", "permission_error",
                                         "undefined_error") if o.flag(f) is True) or "none"
            kind, desc = cf.returned_state_kind(o)
            eff = cf.net_effects(o)
            bad = [e for e in eff if not (e["kind"] == "row" and e["ok"])]
            ok = kind == "FRESH-COPY" and not bad
            detail = ""
            if not ok:
                detail = f"returned state is {kind} ({desc}); effects on it: " + "; ".join(
                    f"{e['kind']} {e.get('addr')}.{e.get('fam', 'ROW')}={e['value']} at {e['loc']}"
                    for e in bad)
            chk.ob("C02.fail-unchanged",
                   f"{K}: failure exit [{flags}] under {short(o.G)} returns the unmodified copy",
                   ok, detail, loc=cf.d.fi.module.path)
    chk.floor("C02.gate", n_gate, 10, "required (class, gate) pairs")
    chk.floor("C02.fail-unchanged", n_fail, 8, "failure exits")
    from .kinds import check_host_firewall_kinds
    check_host_firewall_kinds(ctx, chk, "C02.hostfw-kinds")
    chk.assume("scenario tables (topology, firewall, hosts) hold what the scenario says: C17")
    chk.assume("truth-table comparison treats distinct atoms as independent")


def f_and_not(F, G):
    from sa.canon import f_and, f_not
    return f_and([F, f_not(G)]), ("false",)


def short(F, n=160):
    s = f_show(F)
    return s if len(s) <= n else s[:n] + "..."
