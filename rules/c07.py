"""C07 - stochastic actions succeed with exactly their stated probability.

  C07.one-draw     at most one random draw site on any class-specialised path of the dispatcher,
                   all from np.random (global legacy generator)
  C07.shape        the draw is compared with action.prob as `draw > prob => fail`
  C07.chance-exit  the exit taken on a failed draw: undefined_error only, value 0, unchanged state
  C07.order        the result of an action whose precondition gate g fails does not depend on the
                   draw (network-level gates: hard requirement; host-level gates: today they follow
                   the draw - F-C07-1, recorded per (class, gate) in known_findings.json)
  C07.reexploit    an exploit on an already compromised host never consults the draw
  C07.flags        over all ActionResult construction sites: success => no error flag; at most one
                   error flag; undefined_error only at the chance exit; arguments literal
  C07.prob-domain  Action.__init__ rejects probabilities outside [0, 1]
"""
import itertools

from sa.canon import (f_show, f_implies, f_and, f_not, f_or, f_atoms, f_eval, f_subst, A,
                      EXISTS_PRETTY)
from .gates import GATES, REQUIRED, facts, draw_fail, comp_t, NETWORK_GATES, HOST_GATES

EXPLANATION = (
    "From the per-class gate tables: the random-draw call sites and the atoms that mention "
    "them; for every required gate g the exits reachable when g fails (gates before it "
    "holding) are enumerated over all valuations of the path-condition atoms and must agree "
    "for both values of the draw atom; the constructor arguments of all ActionResult sites "
    "are read as literals.")

DRAW_ATOM = "action.prob<np.random.rand()"
ALT_ATOM = "np.random.rand()<action.prob"     # `not draw < prob` form: differs only at draw == prob


def signature(o, cn):
    return (o.flag("success"), o.flag("connection_error"), o.flag("permission_error"),
            o.flag("undefined_error"),
            "0" if _zero(o.fields.get("value")) else cn.show(o.fields.get("value")))


def _zero(v):
    return v is not None and v[0] == "const" and v[1] in (0, 0.0) and not isinstance(v[1], bool)


def run(ctx, chk):
    chk.explanation = EXPLANATION
    n_sites = set()
    for K in ctx.action_classes:
        if K not in REQUIRED:
            continue
        cf = facts(ctx, K)
        cn, d = cf.cn, cf.d
        # ---- (a) draws
        for ev in d.draws:
            n_sites.add(ev.loc)
        for ev in d.other_entropy:
            chk.violation("C07.one-draw", f"{K}: entropy source {ev.data['fname']} in the dispatcher",
                          "only the global numpy generator may decide outcomes", ev.loc)
        # per path: no exit whose path condition mentions two different draw terms
        draw_terms = {cn.show(ev.data["result"]) for ev in d.draws}
        sites = {ev.data["result"][4] for ev in d.draws}
        chk.ob("C07.one-draw", f"{K}: draw sites on specialised paths = {len(sites)}",
               len(sites) <= 1, f"draws at {[ev.loc for ev in d.draws]}",
               d.fi.module.path)
        # ---- (b) shape
        datoms = set()
        for o in cf.outcomes:
            for a in f_atoms(o.G):
                if "random" in a:
                    datoms.add(a)
        okshape = datoms <= {DRAW_ATOM, ALT_ATOM}
        if K == "NoOp":
            chk.ob("C07.shape", "NoOp: no draw", not datoms and not sites, str(datoms),
                   d.fi.module.path)
        else:
            chk.ob("C07.shape", f"{K}: draw compared as `draw > action.prob => fail`",
                   okshape and bool(datoms),
                   "" if okshape and datoms else f"atoms mentioning the draw: "
                   f"{sorted(EXISTS_PRETTY.get(a, a) for a in datoms)}", d.fi.module.path)
        if not okshape:
            continue

        def normdraw(F):
            return f_subst(F, lambda a: f_not(A(DRAW_ATOM)) if a == ALT_ATOM else None)
        outs = [(normdraw(o.G), o) for o in cf.outcomes]
        # ---- chance exit
        und = [(G, o) for G, o in outs if o.flag("undefined_error") is True]
        if K != "NoOp":
            chk.ob("C07.chance-exit", f"{K}: exactly one exit reports undefined_error",
                   len(und) == 1, f"{len(und)} exits", d.fi.module.path)
        for G, o in und:
            sig = signature(o, cn)
            ok = sig == (False, False, False, True, "0") and bool(f_implies(G, A(DRAW_ATOM)))
            chk.ob("C07.chance-exit",
                   f"{K}: undefined_error exit is the failed-draw exit with value 0 and no other flag",
                   ok, f"flags {sig}; condition {f_show(G)[:300]}", d.fi.module.path)
        # the failed-draw exit is taken *whenever* the preconditions hold and the draw fails (no
        # further condition - e.g. on the value of prob itself - may keep a failed draw from failing
        # the action: "probability-0 actions never succeed")
        if K != "NoOp" and len(und) == 1:
            pre = [GATES[g] for g in REQUIRED[K] if not g.startswith("D")]
            prem = f_and(pre + [A(DRAW_ATOM)] + ([f_not(comp_t)] if K == "Exploit" else []))
            chk.ob("C07.chance-exit", f"{K}: with every precondition met, a failed draw always ends in "
                   "the undefined_error exit", bool(f_implies(prem, und[0][0])),
                   f"the chance exit is taken under {f_show(und[0][0])[:300]}", d.fi.module.path)
        # ---- (c)/(e) independence of the draw when a gate fails
        atoms = sorted(set().union(*[f_atoms(G) for G, _ in outs]) | {DRAW_ATOM})
        if len(atoms) > 16:
            chk.undecided("C07.order", f"{K}: too many atoms ({len(atoms)})")
            continue
        others = [a for a in atoms if a != DRAW_ATOM]
        req = [g for g in REQUIRED[K] if not g.startswith("D")]
        dep = {}     # gate -> example
        partition_bad = None
        from .c01 import failure_site
        site_of_hit = {id(o): failure_site(cf, o) for _, o in outs}
        hit0 = None
        for bits in itertools.product((False, True), repeat=len(others)):
            v = dict(zip(others, bits))
            sigs = []
            for dv in (False, True):
                v[DRAW_ATOM] = dv
                hit = [o for G, o in outs if f_eval(G, v)]
                if not dv:
                    hit0 = hit
                if len(hit) != 1:
                    partition_bad = (dict(v), len(hit))
                    sigs.append(None)
                else:
                    sigs.append(signature(hit[0], cn))
            if None in sigs or sigs[0] == sigs[1]:
                continue
            # preconditions hold iff some value of the draw leads to success (derived, not oracle):
            # then the result legitimately depends on the draw
            if sigs[0][0] is True or sigs[1][0] is True:
                continue
            # preconditions fail, yet the result differs with the draw: every required gate that
            # fails under this valuation is a gate whose failure does not settle the result before
            # the draw (a gate tested before the draw ends the step whatever else holds, so it is
            # never among them on a valuation where the draw still matters)
            # (a gate "fails under this valuation" when the valuation's literals exclude it - by
            # implication, with the theory of canon.py, so that a derived existential that is the
            # oracle's up to a domain invariant counts as the oracle's)
            from sa.canon import EXISTS_BODY
            lits = []
            for a_, b_ in v.items():
                fa = ("exists",) + EXISTS_BODY[a_] if a_ in EXISTS_BODY else A(a_)
                lits.append(fa if b_ else f_not(fa))
            Lf = f_and(lits)
            failing = []
            for g in req:
                if all(a_ in v for a_ in f_atoms(GATES[g])):
                    if not f_eval(GATES[g], v):
                        failing.append(g)
                elif f_implies(Lf, f_not(GATES[g])):
                    failing.append(g)
            for g in failing or ["an unrecognised precondition"]:
                if g not in dep:
                    dep[g] = (sigs[0], sigs[1])
        chk.ob("C07.partition", f"{K}: exits partition the valuations (exactly one exit each)",
               partition_bad is None,
               "" if partition_bad is None else f"{partition_bad[1]} exits for {partition_bad[0]}",
               d.fi.module.path)
        for g in req + [x for x in dep if x not in req]:
            bad = g in dep
            rule = "C07.order"
            kind = "network-level" if g in NETWORK_GATES else "host-level"
            chk.ob(rule, f"{K}: result independent of the draw when {g} fails", not bad,
                   "" if not bad else f"{kind} precondition {g} is evaluated after the chance gate: "
                   f"with {g} failing the result is {dep[g][0]} for a successful draw and "
                   f"{dep[g][1]} for a failed one", d.fi.module.path)
        # ---- (d) re-exploit
        if K == "Exploit":
            succ = normdraw(cf.success_F)
            # under compromised(target), success must not depend on the draw atom
            s1 = f_subst(succ, lambda a: ("true",) if a == DRAW_ATOM else None)
            s0 = f_subst(succ, lambda a: ("false",) if a == DRAW_ATOM else None)
            ok = f_implies(f_and([comp_t, s0]), s1) and f_implies(f_and([comp_t, s1]), s0)
            chk.ob("C07.reexploit", "Exploit: outcome on an already compromised target ignores the draw",
                   bool(ok), "", d.fi.module.path)
    chk.ob("C07.one-draw", "dispatcher has a single random-draw call site", len(n_sites) == 1,
           f"sites: {sorted(n_sites)}", "nasim/envs/network.py")
    chk.floor("C07.one-draw", len(n_sites), 1, "draw sites")
    check_result_sites(ctx, chk)
    check_prob_routing(ctx, chk)
    check_prob_domain(ctx, chk)
    chk.assume("np.random.rand() is uniform on [0,1) (numpy trusted); `>` vs `>=` differ only on "
               "the measure-zero draw == prob")


def check_result_sites(ctx, chk):
    """all ActionResult(...) construction sites reachable from the dispatcher"""
    seen = {}
    for K in ctx.action_classes:
        if K not in REQUIRED:
            continue
        cf = facts(ctx, K)
        for ev in cf.d.summary.events:
            if ev.kind == "new" and ev.data["cls"] == "ActionResult":
                seen.setdefault(ev.loc, (cf, ev))
    chk.floor("C07.flags", len(seen), 8, "ActionResult construction sites")
    for loc, (cf, ev) in sorted(seen.items()):
        f = cf.d.ip.heap[ev.data["obj"][2]]["fields"]
        vals = {k: f.get(k) for k in ("success", "connection_error", "permission_error",
                                      "undefined_error")}
        lit = all(v is not None and v[0] == "const" and isinstance(v[1], bool)
                  for v in vals.values())
        fn = ev.func.split(":")[1]
        if not lit:
            chk.undecided("C07.flags", f"{fn}: ActionResult flags not literal",
                          str({k: cf.cn.show(v) for k, v in vals.items()}), loc)
            continue
        s = vals["success"][1]
        errs = [k for k in ("connection_error", "permission_error", "undefined_error")
                if vals[k][1]]
        ok = (not (s and errs)) and len(errs) <= 1
        chk.ob("C07.flags", f"{fn}: ActionResult(success={s}, errors={errs or 'none'})", ok,
               "" if ok else "success together with an error flag, or more than one error flag",
               loc, nontrivial=False)


def check_prob_routing(ctx, chk):
    """every action class hands its `prob` (and cost, target, req_access) constructor argument to
    the attribute of the same name - the stated probability is the one the draw is compared with"""
    from sa.interp import Interp
    from sa.canon import Canon
    n = 0
    for K in ctx.action_classes:
        if K == "NoOp":
            continue
        ci = ctx.repo.cls("nasim.envs.action", K)
        init = ci.find_method("__init__")
        if init is None:
            continue
        ip = Interp(ctx.repo, ctx.types)
        obj = ("obj", K, "X")
        s = ip.run(init, {init.params[0]: obj})
        cn = Canon(ip, ctx.layout)
        stores = {}
        for ev in s.events:
            if ev.kind == "store" and ev.data["target"] == "attr" and ev.data["base"] == obj:
                stores[ev.data["name"]] = cn.show(ev.data["value"])
        for a in ("prob", "cost", "target", "req_access"):
            if a not in init.params and a != "prob":
                continue
            n += 1
            ok = stores.get(a) == a
            chk.ob("C07.prob-routing", f"{K}(…, {a}=x).{a} is x", ok,
                   f"self.{a} = {stores.get(a)}", f"{ci.module.path}:{init.node.lineno}",
                   nontrivial=(a == "prob"))
    chk.floor("C07.prob-routing", n, 12, "constructor-argument routings")


def check_prob_domain(ctx, chk):
    fi = ctx.repo.func("nasim.envs.action", "Action.__init__")
    ip = ctx.interp()
    s = ip.run(fi)
    from sa.canon import Canon
    cn = Canon(ip, ctx.layout)
    want = f_and([f_not(A("prob<0")), f_not(A("1.0<prob"))])
    want2 = f_and([f_not(A("prob<0")), f_not(A("1<prob"))])
    found = False
    for ev in s.events:
        if ev.kind == "assert":
            F = cn.formula(ev.data["test"])
            if "prob" in f_show(F):
                found = True
                from sa.canon import f_equiv
                ok = f_equiv(F, want) or f_equiv(F, want2)
                chk.ob("C07.prob-domain", "Action.__init__ guards 0 <= prob <= 1", ok,
                       f"guard is {f_show(F)}", ev.loc)
    if not found:
        chk.violation("C07.prob-domain", "Action.__init__ guards 0 <= prob <= 1",
                      "no guard on prob found", fi.module.path)
