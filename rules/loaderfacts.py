"""Abstract interpretation of ScenarioLoader.load with the YAML document kept symbolic
(`Y`): rejection guards (assert / if-raise) with their loop context and residual
conditions, the scenario dict that is handed to Scenario(...), Host constructions,
and address-key kinds."""
from sa.canon import Canon, f_show, f_and, f_not, f_atoms, f_key
from sa.interp import Interp, C
from sa.model import AnalysisError

LOADER_MOD = "nasim.scenarios.loader"
LOAD_YAML = "nasim.scenarios.utils:load_yaml"

_cache = {}

import re as _re
_GET = _re.compile(r"\.get\(('[A-Za-z_]+')(, None)?\)")


def spell(F):
    """`d.get('k')` and `d['k']` denote the same document entry wherever the entry exists; guards
    are compared modulo this spelling (presence is judged separately through the residual)"""
    from sa.canon import f_subst, A as _A

    def fn(a):
        b = _GET.sub(lambda m: f"[{m.group(1)}]", a)
        return _A(b) if b != a else None
    return f_subst(F, fn)


class Guard:
    def __init__(self, ev, formula, loops, residual, kind, func):
        self.ev, self.F, self.loops, self.residual = ev, formula, loops, residual
        self.kind, self.func = kind, func
        self.loc = ev.loc

    def key(self):
        return f_key(self.F)


def extract_guards(ip, cn, events, spell_fn=None):
    """rejection guards of an analysed function, whichever way they are written: `assert t` and
    `if not t: raise ...` both give Guard(F = what holds on fall-through, loops, residual = the
    conditions under which the guard is reached that earlier guards do not already establish)"""
    established = []      # terms known true on fall-through (earlier guards), in order
    guards = []
    for ev in events:
        if ev.kind not in ("assert", "raise"):
            continue
        pc = ev.pc
        if ev.kind == "assert":
            test = ev.data["test"]
            cond_pc = pc
        else:
            # `if c: raise` -> guard not c ; the raise's own condition is the last conjunct
            conds = [c for c in pc if c[0] not in ("inloop", "fact")]
            if not conds:
                continue
            last = pc[-1] if pc[-1][0] not in ("inloop", "fact") else conds[-1]
            test = ("not", last)
            cond_pc = tuple(c for c in pc if c is not last)
        loops = []
        for c in cond_pc:
            if c[0] == "inloop":
                info = ip.loops[c[1]]
                loops.append(cn.show(info["iter"]) if info.get("iter") is not None
                             else "while")
        residual = [c for c in cond_pc if c[0] not in ("inloop", "fact")
                    and c not in established]
        # an `exc` marker (except handler) is kept as residual
        F = cn.formula(test)
        g = Guard(ev, spell_fn(F) if spell_fn else F, loops, residual, ev.kind,
                  ev.func.split(":")[1])
        g.test = test
        guards.append(g)
        established.append(test)
    return guards


def closed(F, loops):
    """the guard as a statement about the whole input: a test F sitting in loops L1, L2 holds for
    every iteration, ALL[L1] ALL[L2] F - the same formula `assert all(F for .. in L1 for .. in L2)`
    produces"""
    for binder in reversed(loops):
        F = f_not(("exists", binder, f_not(F)))
    return F


class LoaderFacts:
    def __init__(self, ctx):
        repo = ctx.repo
        self.fi = repo.func(LOADER_MOD, "ScenarioLoader.load")
        ps = self.fi.params
        self.ip = Interp(repo, ctx.types, param_types={ps[0]: "ScenarioLoader"},
                         no_inline=(LOAD_YAML, "nasim.scenarios.utils:get_file_name"))
        self.s = self.ip.run(self.fi)
        ycalls = [ev for ev in self.s.events if ev.kind == "call"
                  and ev.data["fname"] == LOAD_YAML]
        if len(ycalls) != 1:
            raise AnalysisError("ScenarioLoader.load no longer reads the document through "
                                "utils.load_yaml exactly once")
        self.Y = ycalls[0].data["result"]
        self.cn = Canon(self.ip, ctx.layout, names={self.Y: "Y", ("param", ps[0]): "self"})
        self.cn.written = None
        self._guards()
        self.trys = [ev for ev in self.s.events if ev.kind == "except"]

    def _guards(self):
        self.guards = extract_guards(self.ip, self.cn, self.s.events, spell)
        # conjunct-level view: every conjunct of an `and` guard is a guard of its own
        self.conjuncts = []
        for g in self.guards:
            F = g.F
            parts = F[1] if F[0] == "and" else (F,)
            for p in parts:
                self.conjuncts.append((p, g))

    def residual_formula(self, g):
        return spell(self.cn.conj(tuple(g.residual)))

    # ------------------------------------------------------------------ scenario dict
    def scenario_dict(self):
        """the dict passed to Scenario(...) at the (single) return of load"""
        rets = self.s.returns
        if len(rets) != 1 or rets[0][1][0] != "new" or rets[0][1][1] != "Scenario":
            return None, rets
        obj = rets[0][1]
        h = self.ip.heap[obj[2]]
        d = h["fields"].get("scenario_dict")
        return d, rets

    def host_news(self):
        return [ev for ev in self.s.events if ev.kind == "new" and ev.data["cls"] == "Host"]

    # ------------------------------------------------------------------ key kinds
    def key_kind(self, t):
        """RAW (string key of an address-keyed YAML mapping), ADDR (evaluated tuple), OTHER"""
        cn = self.cn
        t = cn.norm(t)
        k = t[0]
        if k == "call" and t[1] == "builtins.eval" and len(t[2]) == 1:
            inner = self.key_kind(t[2][0])
            return {"ADDR"} if inner == {"RAW"} else {"OTHER"}
        if k == "call" and t[1] == "builtins.str" and len(t[2]) == 1 and t[2][0][0] == "tuple":
            return {"RAW"}
        if k == "tuple" or (k == "const" and isinstance(t[1], tuple)):
            return {"ADDR"}
        if k == "sub" and t[2] == C(0) and t[1][0] == "elem":
            it = t[1][1]
            if it[0] == "mcall" and it[2] == "items" and self.is_yaml(it[1]):
                return {"RAW"}
        if k == "elem":
            it = t[1]
            if it[0] == "mcall" and it[2] == "keys" and self.is_yaml(it[1]):
                return {"RAW"}
            if self.is_yaml(it):
                return {"RAW"}
            if it[0] == "call" and it[1] in ("builtins.list", "builtins.sorted") and it[2]:
                return self.key_kind(("elem", it[2][0], t[2]))
        if k == "sub" and t[2] == C(1) and t[1][0] == "elem" and t[1][1][0] == "call" \
                and t[1][1][1] == "builtins.enumerate":
            return self.key_kind(("elem", t[1][1][2][0], t[1][2]))
        if k == "phi":
            return self.key_kind(t[2]) | self.key_kind(t[3])
        if k == "const" and isinstance(t[1], bool):
            return {"OTHER"}
        return {"OTHER"}

    def is_yaml(self, t):
        t = self.cn.norm(t)
        while t[0] in ("sub", "elem"):
            if t[0] == "sub" and t[2][0] == "const" and t[2][1] == 1 and t[1][0] == "elem":
                t = t[1]
                continue
            t = t[1]
            if t[0] == "mcall" and t[2] in ("items", "values"):
                t = t[1]
        return t == self.cn.norm(self.Y)

    def dict_key_kinds(self, t):
        """kinds of the keys of a dict-valued term"""
        tt = t
        if tt[0] == "dictobj":
            h = self.ip.heap[tt[1]]
            out = set()
            for k in h["items"]:
                out |= {"ADDR"} if isinstance(k, tuple) else {"OTHER"}
            for d in h["dyn"]:
                if isinstance(d[0], tuple) and d[0][0] != "unknown":
                    out |= self.key_kind(d[0])
                else:
                    out |= {"OTHER"}
            return out or {"EMPTY"}
        if tt[0] == "comp" and tt[1] == "dict":
            return self.key_kind(tt[2][0])
        if self.is_yaml(tt):
            return {"RAW"}
        if tt[0] == "phi":
            return self.dict_key_kinds(tt[2]) | self.dict_key_kinds(tt[3])
        return {"OTHER"}


def facts(ctx):
    cache = ctx.__dict__.setdefault("_rule_cache", {})
    if "loaderfacts" not in cache:
        cache["loaderfacts"] = LoaderFacts(ctx)
    return cache["loaderfacts"]
