"""Provenance of positions in per-host sequences.

Row i of the state tensor is the host with host_num_map[address] == i, and block i of the flat action
list belongs to the i-th address of address_space; both follow the order in which the scenario lists
its hosts, which for a loaded file is the order of `host_configurations` - any order.  A position that
is *computed from subnet sizes* (cumulative sums, `sum(subnets[1:s]) + h`, np.repeat over subnets,
slices built from running totals) silently assumes address order.  The rule is a name-level
dependency closure (flow-insensitive, through local assignments, loop targets, parameters <- call
sites, `self.x` <- every assignment of that attribute, calls <- the callee's return expressions): a
position whose closure mentions the subnet-size list and never the address->row map is reported; one
that mentions the map (or neither) is not."""
import ast

MAP_NAMES = {"host_num_map", "get_host_idx", "get_host_and_idx"}
SIZE_NAMES = {"subnets"}


def _names(e, recv):
    """(kind, name) of what an expression mentions: locals, attributes of the receiver, methods of
    the receiver that are called, module functions that are called; attributes of anything else
    are leaves (their name is recorded, nothing is followed)"""
    out = set()
    for n in ast.walk(e):
        if isinstance(n, ast.Name):
            if n.id != recv:
                out.add(("name", n.id))
        elif isinstance(n, ast.Attribute):
            if isinstance(n.value, ast.Name) and n.value.id == recv:
                out.add(("selfattr", n.attr))
            else:
                out.add(("leaf", n.attr))
    for n in ast.walk(e):
        if isinstance(n, ast.Call):
            f = n.func
            if isinstance(f, ast.Attribute) and isinstance(f.value, ast.Name) and f.value.id == recv:
                out.discard(("selfattr", f.attr))
                out.add(("selfcall", f.attr))
            elif isinstance(f, ast.Name):
                out.discard(("name", f.id))
                out.add(("call", f.id))
    return out


def _per_subnet_use(e, as_iter=False):
    """the expression uses the subnet-size list position by position (not only its length / sum /
    maximum): a subscript or slice of it with a variable bound, an iteration over it, or
    np.repeat / np.cumsum over it"""
    def is_sizes(x):
        return (isinstance(x, ast.Attribute) and x.attr in SIZE_NAMES) or \
            (isinstance(x, ast.Name) and x.id in SIZE_NAMES)

    def mentions_sizes(x):
        return any(is_sizes(n) for n in ast.walk(x))
    if as_iter and mentions_sizes(e):
        return True
    for n in ast.walk(e):
        if isinstance(n, ast.Subscript) and is_sizes(n.value):
            if any(isinstance(x, ast.Name) for x in ast.walk(n.slice)):
                return True
        if isinstance(n, ast.Call) and isinstance(n.func, ast.Attribute) \
                and n.func.attr in ("repeat", "cumsum", "accumulate") \
                and any(mentions_sizes(a) for a in n.args):
            return True
        if isinstance(n, ast.comprehension) and mentions_sizes(n.iter):
            return True
    return False


class Prov:
    def __init__(self, repo):
        self.repo = repo
        self.funcs = list(repo.all_functions())
        self.by_name = {}
        for fi in self.funcs:
            self.by_name.setdefault(fi.name, []).append(fi)
        self.attr_assigns = {}      # attr -> [(fi, rhs expr)]
        self.calls_of = {}          # function name -> [(caller fi, call node)]
        for fi in self.funcs:
            for n in ast.walk(fi.node):
                if isinstance(n, (ast.Assign, ast.AnnAssign, ast.AugAssign)):
                    ts = n.targets if isinstance(n, ast.Assign) else [n.target]
                    if getattr(n, "value", None) is None:
                        continue
                    for t in ts:
                        for tt in (t.elts if isinstance(t, (ast.Tuple, ast.List)) else [t]):
                            if isinstance(tt, ast.Attribute):
                                self.attr_assigns.setdefault(tt.attr, []).append((fi, n.value))
                            elif isinstance(tt, ast.Subscript) and isinstance(tt.value, ast.Attribute):
                                self.attr_assigns.setdefault(tt.value.attr, []).append((fi, n.value))
                elif isinstance(n, ast.Call):
                    nm = n.func.attr if isinstance(n.func, ast.Attribute) else \
                        n.func.id if isinstance(n.func, ast.Name) else None
                    if nm:
                        self.calls_of.setdefault(nm, []).append((fi, n))

    def _local_sources(self, fi, name):
        """expressions whose value can reach the local `name` in fi"""
        out = []
        for n in ast.walk(fi.node):
            if isinstance(n, (ast.Assign, ast.AnnAssign, ast.AugAssign)) \
                    and getattr(n, "value", None) is not None:
                ts = n.targets if isinstance(n, ast.Assign) else [n.target]
                for t in ts:
                    if any(isinstance(x, ast.Name) and x.id == name for x in ast.walk(t)
                           if isinstance(x, ast.Name) and isinstance(x.ctx, ast.Store)):
                        out.append(n.value)
                    # d[k] = v : the container d depends on v (and k)
                    if isinstance(t, ast.Subscript) and isinstance(t.value, ast.Name) \
                            and t.value.id == name:
                        out += [n.value, t.slice]
            elif isinstance(n, (ast.For, ast.comprehension)):
                if any(isinstance(x, ast.Name) and x.id == name for x in ast.walk(n.target)):
                    out.append(("iter", n.iter))
            elif isinstance(n, ast.Call) and isinstance(n.func, ast.Attribute) \
                    and isinstance(n.func.value, ast.Name) and n.func.value.id == name \
                    and n.func.attr in ("append", "extend", "add", "update", "insert", "setdefault"):
                out += list(n.args)
            elif isinstance(n, ast.NamedExpr) and n.target.id == name:
                out.append(n.value)
        return out

    def closure(self, fi, expr, limit=300):
        seen = set()
        leaves = set()
        work = [(fi, expr, 2)]          # (function, expression, parameter hops left)
        while work and len(seen) < limit:
            f, e, hops = work.pop()
            if isinstance(e, tuple):        # ("iter", expression): the source is iterated
                if _per_subnet_use(e[1], as_iter=True):
                    leaves.add("<per-subnet>")
                e = e[1]
            elif _per_subnet_use(e):
                leaves.add("<per-subnet>")
            recv = f.params[0] if (f.cls is not None and f.flavour != "staticmethod"
                                   and f.params) else None
            for kind, nm in _names(e, recv):
                leaves.add(nm)
                key = (f.fq if kind in ("name", "call") else
                       (f.cls.name if f.cls is not None else f.module.name), kind, nm)
                if key in seen:
                    continue
                seen.add(key)
                if kind == "name":
                    for src in self._local_sources(f, nm):
                        work.append((f, src, hops))
                    # (call sites are matched by method name: only when that name is unambiguous)
                    if nm in f.params and hops > 0 and len(self.by_name.get(f.name, ())) == 1:
                        k = f.params.index(nm)
                        sites = self.calls_of.get(f.name, [])
                        for caller, call in sites[:12]:
                            off = 1 if (f.cls is not None and f.flavour != "staticmethod"
                                        and isinstance(call.func, ast.Attribute)) else 0
                            if 0 <= k - off < len(call.args):
                                work.append((caller, call.args[k - off], hops - 1))
                            for kw in call.keywords:
                                if kw.arg == nm:
                                    work.append((caller, kw.value, hops - 1))
                elif kind == "selfattr" and f.cls is not None:
                    for af, rhs in self.attr_assigns.get(nm, []):
                        if af.cls is f.cls or (af.cls is not None and af.cls in f.cls.mro()):
                            work.append((af, rhs, hops))
                    m = f.cls.find_method(nm)          # a property of the receiver
                    if m is not None:
                        for r in ast.walk(m.node):
                            if isinstance(r, ast.Return) and r.value is not None:
                                work.append((m, r.value, hops))
                elif kind == "selfcall" and f.cls is not None:
                    m = f.cls.find_method(nm)
                    if m is not None:
                        for r in ast.walk(m.node):
                            if isinstance(r, ast.Return) and r.value is not None:
                                work.append((m, r.value, hops))
                elif kind == "call":
                    callee = f.module.functions.get(nm)
                    if callee is not None:
                        for r in ast.walk(callee.node):
                            if isinstance(r, ast.Return) and r.value is not None:
                                work.append((callee, r.value, hops))
        return leaves


def position_sites(repo, modules, container_attrs):
    """(fi, subscript node, position expression) for subscripts of `<x>.<attr>` (attr in
    container_attrs) or of a local alias of one, in the given modules"""
    out = []
    for fi in repo.all_functions():
        if fi.module.name not in modules:
            continue
        alias = set()
        for n in ast.walk(fi.node):
            if isinstance(n, ast.Assign) and len(n.targets) == 1 \
                    and isinstance(n.targets[0], ast.Name) and isinstance(n.value, ast.Attribute) \
                    and n.value.attr in container_attrs:
                alias.add(n.targets[0].id)
        for n in ast.walk(fi.node):
            if not isinstance(n, ast.Subscript):
                continue
            v = n.value
            if not ((isinstance(v, ast.Attribute) and v.attr in container_attrs)
                    or (isinstance(v, ast.Name) and v.id in alias)):
                continue
            pos = n.slice.elts[0] if isinstance(n.slice, ast.Tuple) and n.slice.elts else n.slice
            if isinstance(pos, ast.Constant):
                continue
            if isinstance(pos, ast.Slice) and all(
                    x is None or isinstance(x, ast.Constant) for x in (pos.lower, pos.upper, pos.step)):
                continue
            out.append((fi, n, pos))
    return out


def check_positions(ctx, chk, rule, modules, container_attrs, what):
    pr = ctx.__dict__.setdefault("_rule_cache", {}).get("rowprov")
    if pr is None:
        pr = ctx.__dict__["_rule_cache"]["rowprov"] = Prov(ctx.repo)
    sites = position_sites(ctx.repo, modules, container_attrs)
    n = 0
    for fi, node, pos in sites:
        n += 1
        leaves = pr.closure(fi, pos)
        if "<per-subnet>" in leaves and not (MAP_NAMES & leaves):
            chk.ob(rule, f"{fi.qualname}: position `{ast.unparse(pos)[:60]}` in {what} is obtained "
                   "through the scenario's address -> position order", False,
                   "the position depends on the subnet-size list and never on the address->row map "
                   "(host_num_map) / the address list: it assumes hosts are stored in address order, "
                   "but they are stored in the order the scenario lists them (any order for a loaded "
                   "file)", f"{fi.module.path}:{node.lineno}", firm=True)
    chk.ob(rule, f"no position in {what} is computed from subnet sizes alone", True,
           f"{n} subscript site(s) examined", "nasim/envs", nontrivial=False)
    return n
