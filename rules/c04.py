"""C04 - progress is monotone, host configuration immutable, reset restores the start.

  C04.status-true     every store to compromised/reachable/discovered reachable from a step has
                      literal value True
  C04.access-monotone every store to access is max(previous, granted) (enumeration, as C01.level)
  C04.no-config-store no store reachable from a step targets a configuration column (count 0,
                      classifier positive control); whole-row stores write back the same row
  C04.reset-*         NASimEnv.reset: steps := 0; current_state := Network.reset(current_state);
                      Network.reset stores, for every address of the complete address list,
                      unconditionally: compromised False, access NONE, reachable := public(subnet),
                      discovered := reachable; nothing else
  C04.steps-writers   writers of the step counter are exactly __init__ (0), reset (0), step (+1)
"""
import ast

from sa.canon import f_show, f_atoms
from sa.layout import CONFIG, STATUS
from sa.interp import C, Event
from sa.ctx import store_effect, classify_root, ENV_MOD
from .gates import REQUIRED, facts, T
from . import envfacts
from .c01 import check_level, access_levels

EXPLANATION = (
    "Column-family classification of every store event in the per-class gate tables and in the "
    "abstract interpretation of NASimEnv.reset -> Network.reset; literal-value and "
    "loop-coverage checks on the reset stores; AST scan for writers of the step counter.")


def reset_facts(ctx):
    """(run, list of cell effects with loop info, attr stores)"""
    r = envfacts.reset_run(ctx)
    cells, attrs, others = [], [], []
    for ef in r.stores():
        if ef.kind == "cell":
            cells.append(ef)
        elif ef.kind == "attr":
            attrs.append(ef)
        else:
            others.append(ef)
    return r, cells, attrs, others


def check_column_stores(chk, prefix, r, others, lv):
    """whole-column stores `tensor[:, col] = v` in the reset path.  A scalar is the same value for
    every host (judged like the per-host store).  An array is positional: row i gets v[i], and the
    rows of the state tensor are ordered by host_num_map (the order of the scenario's host list), so
    the array is right only if it is built by iterating the hosts in that same order."""
    cn = r.cn
    done = {}
    for e in others:
        if e.kind != "column":
            continue
        v = cn.norm(e.value)
        while v[0] in ("num", "truth"):
            v = v[1]
        desc = f"Network.reset: {e.fam} of every row := {cn.show(v)[:100]}"
        if e.fam in ("compromised", "access") and v[0] == "const":
            ok = (e.fam == "compromised" and v[1] in (0, False)) or \
                (e.fam == "access" and v[1] == lv["NONE"])
            chk.ob(f"{prefix}.reset-store", desc, ok and not [c for c in e.ev.pc
                                                             if c[0] not in ("inloop", "fact")],
                   "", e.ev.loc)
            done[e.fam] = True
            continue
        if v[0] == "const":
            chk.ob(f"{prefix}.reset-store", desc, False, "the same literal for every host: "
                   f"{e.fam} must depend on whether the host's subnet is public", e.ev.loc)
            done[e.fam] = True
            continue
        # positional value: find how it was built
        src = v
        if src[0] == "attr":
            ci = r.ip.types.class_by_name.get(r.ip.type_name(src[1]) or "")
            init = ci.find_method("__init__") if ci else None
            built = None
            if init is not None:
                import ast
                for n in ast.walk(init.node):
                    if isinstance(n, ast.Assign) and isinstance(n.targets[0], ast.Attribute) \
                            and n.targets[0].attr == src[2]:
                        built = n.value
            iters = []
            if built is not None:
                import ast
                for n in ast.walk(built):
                    if isinstance(n, ast.comprehension):
                        iters.append(ast.unparse(n.iter))
            row_order = [i for i in iters if any(k in i for k in ("host_num_map", "address_space",
                                                                 "hosts"))]
            if built is not None and not iters:
                # no comprehension in the expression itself: follow the names it is built from
                # (np.repeat(flags_per_subnet, subnet_sizes), running totals, ...)
                from .rowprov import Prov, MAP_NAMES
                leaves = Prov(r.ip.repo).closure(init, built)
                if "<per-subnet>" in leaves and not (
                        (MAP_NAMES | {"address_space", "hosts"}) & leaves):
                    iters = ["the subnet-size list, position by position"]
            if iters and not row_order:
                chk.ob(f"{prefix}.reset-store", desc, False,
                       f"the array is built by iterating {iters} - an order of its own - but row i "
                       "of the state tensor is the i-th host of the scenario's host list "
                       "(host_num_map): for a scenario whose hosts are not listed in that order "
                       "the flags land on the wrong hosts", e.ev.loc, firm=True)
                done[e.fam] = True
                continue
        chk.undecided(f"{prefix}.reset-store", desc, "positional (array) value whose row order "
                      "is not established", e.ev.loc)
        done[e.fam] = True
    return done


def check_initial_state(ctx, chk, prefix):
    """the first state of an environment (and what env.generate_initial_state() hands out) is the
    tensorised network *after* Network.reset: State.generate_initial_state returns the result of
    network.reset(<State.tensorize(network)>), not the raw tensorised state"""
    from sa.interp import Interp
    from sa.canon import Canon
    NR, TZ = "nasim.envs.network:Network.reset", "nasim.envs.state:State.tensorize"
    desc = ("State.generate_initial_state(network) returns Network.reset applied to the "
            "tensorised network (public hosts reachable and discovered)")
    try:
        fi = ctx.repo.func("nasim.envs.state", "State.generate_initial_state")
    except Exception as e:
        chk.undecided(f"{prefix}.reset-state", desc, str(e)[:100])
        return
    ps = fi.params
    ip = Interp(ctx.repo, ctx.types, param_types={ps[1]: "Network"} if len(ps) > 1 else {},
                no_inline=(NR, TZ))
    s = ip.run(fi, {ps[0]: ("classref", "State")})
    cn = Canon(ip, ctx.layout)
    resets = [ev for ev in s.events if ev.kind == "call" and ev.data["fname"] == NR]
    tens = [ev for ev in s.events if ev.kind == "call" and ev.data["fname"] == TZ]
    if len(resets) != 1 or len(tens) != 1 or len(s.returns) != 1:
        chk.undecided(f"{prefix}.reset-state", desc, f"{len(resets)} Network.reset call(s), "
                      f"{len(tens)} State.tensorize call(s), {len(s.returns)} return(s): only the "
                      "one-call form is decoded", fi.module.path)
        return
    ret = s.returns[0][1]
    ok = ret == resets[0].data["result"] and not resets[0].pc \
        and resets[0].data["args"][-1] == tens[0].data["result"]
    detail = f"returns {cn.show(ret)[:120]}"
    if ret == tens[0].data["result"]:
        detail += " - the tensorised network before Network.reset: no host is reachable or " \
                  "discovered in it"
    chk.ob(f"{prefix}.reset-state", desc, ok, detail, fi.module.path)


def check_reset(ctx, chk, prefix):
    r, cells, attrs, others = reset_facts(ctx)
    cn = r.cn
    lv = access_levels(ctx)
    # --- attribute stores of reset
    steps = [a for a in attrs if a.fam == "steps"]
    ok = len(steps) == 1 and cn.norm(steps[0].value) == C(0) and not steps[0].ev.pc
    chk.ob(f"{prefix}.reset-steps", "NASimEnv.reset: self.steps := 0 unconditionally", ok,
           f"stores: {[(cn.show(a.value), f_show(cn.conj(a.ev.pc))) for a in steps]}",
           r.fi.module.path)
    cur = [a for a in attrs if a.fam == "current_state"]
    ok = False
    detail = "no store to current_state"
    src_ok = False
    if len(cur) == 1 and not [c for c in cur[0].ev.pc if c[0] != "fact"]:
        v = cur[0].value
        detail = cn.show(v)
        if v[0] == "new" and v[1] == "State":
            tens = cn.norm(r.ip.heap[v[2]]["fields"].get(cn.tensor_attr, ("unknown", "?")))
            detail = cn.show(tens)
            # copy of the *current* state's storage
            if tens[0] == "copy" and tens[1][0] == "tensor" \
                    and cn.show(tens[1][1]).endswith(".current_state"):
                ok = True
    chk.ob(f"{prefix}.reset-state",
           "NASimEnv.reset: current_state := Network.reset(current_state) (fresh copy, then reset "
           "stores)", ok, detail, r.fi.module.path)
    check_initial_state(ctx, chk, prefix)
    net_reset = r.enters("nasim.envs.network:Network.reset")
    chk.ob(f"{prefix}.reset-call", "NASimEnv.reset calls Network.reset exactly once, "
           "unconditionally", len(net_reset) == 1 and not net_reset[0].pc,
           f"{len(net_reset)} call(s)", r.fi.module.path)
    # --- the four status stores, for all addresses
    state_cells = [c for c in cells if classify_root(cn, c.root)[1].startswith("copy(")
                   and "current_state" in classify_root(cn, c.root)[1]
                   and c.root[0] == "row"]
    by_fam = {}
    for c in state_cells:
        by_fam.setdefault(c.fam, []).append(c)
    want = {"compromised": lambda v: v == C(0) or v == C(False),
            "access": lambda v: v == C(lv["NONE"]),
            "reachable": None, "discovered": None}
    col_done = check_column_stores(chk, prefix, r, others, lv)
    for fam in ("compromised", "access", "reachable", "discovered"):
        cs = by_fam.get(fam, [])
        if fam in col_done and not cs:
            continue
        if len(cs) != 1:
            # (a "row" effect whose address is an index expression `#(...)`, not a host address)
            blind = [e for e in others if e.kind == "row"
                     and cn.show(e.addr).startswith("#(")]
            if not cs and blind:
                # stores into the state that were not decoded as one host's cell (rows addressed
                # through an index array, a mask, ...): the status store may be one of them
                chk.undecided(f"{prefix}.reset-store", f"Network.reset stores {fam} once per host",
                              f"0 decoded store(s) to {fam}; not decoded: "
                              + "; ".join(f"{e.kind} store at {e.ev.loc}" for e in blind[:4]),
                              r.fi.module.path)
                continue
            chk.ob(f"{prefix}.reset-store", f"Network.reset stores {fam} once per host",
                   False, f"{len(cs)} store(s) to {fam}", r.fi.module.path)
            continue
        c = cs[0]
        # loop coverage: directly inside one loop over the complete address list
        loops = [x for x in c.ev.pc if x[0] == "inloop"]
        conds = [x for x in c.ev.pc if x[0] not in ("inloop", "fact")]
        it = cn.show(r.ip.loops[loops[0][1]]["iter"]) if loops else "?"
        addr_ok = len(loops) == 1 and it == "scenario.address_space" and \
            cn.show(c.addr) == "each(scenario.address_space)"
        uncond = not conds
        v = cn.norm(c.value)
        while v[0] in ("num", "truth"):
            v = v[1]
        if fam in ("compromised", "access"):
            val_ok = want[fam](v)
            vdesc = "False" if fam == "compromised" else "AccessLevel.NONE"
        elif fam == "reachable":
            val_ok = cn.show(v) in ("1==scenario.topology[each(scenario.address_space)[0]][0]",
                                    "scenario.topology[each(scenario.address_space)[0]][0]==1")
            vdesc = "subnet_public(addr[0])"
        else:
            # discovered := reachable of the same row (after the reachable store) or the same
            # public() expression
            sv = cn.show(v)
            val_ok = sv in ("1==scenario.topology[each(scenario.address_space)[0]][0]",
                            "scenario.topology[each(scenario.address_space)[0]][0]==1")
            if not val_ok and v[0] == "cell" and v[2] == "reachable":
                rs = by_fam.get("reachable", [])
                val_ok = len(rs) == 1 and rs[0].ev.seq < c.ev.seq and \
                    cn.show(v[1]) == cn.show(c.root)
            vdesc = "reachable"
        chk.ob(f"{prefix}.reset-store",
               f"Network.reset: for every address, unconditionally, {fam} := {vdesc}",
               bool(addr_ok and uncond and val_ok),
               f"iterates {it}; address {cn.show(c.addr)}; condition "
               f"{f_show(cn.conj(tuple(conds)))}; value {cn.show(v)}", c.ev.loc)
    extra = [c for c in state_cells if c.fam not in want]
    chk.ob(f"{prefix}.reset-config", "Network.reset stores no configuration column",
           not extra, "; ".join(f"{c.fam} at {c.ev.loc}" for c in extra), r.fi.module.path)
    # Scenario.address_space is the complete host list
    p = envfacts.prop_term(ctx, "nasim.scenarios.scenario", "Scenario", "address_space")
    txt = [p.show(t) for _, t in p.returns]
    chk.ob(f"{prefix}.address-space", "Scenario.address_space = list(hosts.keys())",
           txt == ["list(self.scenario_dict['host'])"], str(txt),
           "nasim/scenarios/scenario.py")
    return len(state_cells)


def run(ctx, chk):
    chk.explanation = EXPLANATION
    lv = access_levels(ctx)
    n_status = 0
    n_config = 0
    for K in ctx.action_classes:
        if K not in REQUIRED:
            continue
        cf = facts(ctx, K)
        seen = set()
        for o in cf.outcomes:
            for e in cf.net_effects(o):
                key = (e["kind"], e["loc"], e.get("fam"))
                if e["kind"] == "row":
                    if key not in seen:
                        chk.ob("C04.row-store",
                               f"{K}: row store at {e['addr']} writes back {e['value']}", e["ok"],
                               "whole-row stores must write a fresh copy of the same row",
                               e["loc"], nontrivial=False)
                    seen.add(key)
                    continue
                if e["kind"] != "cell":
                    if key not in seen:
                        chk.violation("C04.no-config-store",
                                      f"{K}: unclassifiable store into {e['rootdesc']}",
                                      "cannot show that configuration columns are untouched",
                                      e["loc"])
                    seen.add(key)
                    continue
                if key in seen:
                    continue
                seen.add(key)
                fam = e["fam"]
                if fam in ("compromised", "reachable", "discovered"):
                    n_status += 1
                    v = cf.cn.norm(e["value_t"])
                    ok = v[0] == "const" and v[1] in (1, True) and not isinstance(v[1], float)
                    chk.ob("C04.status-true", f"{K}: {fam} of {e['addr']} := {e['value']}", ok,
                           "status flags may only be set, never cleared, by a step", e["loc"])
                elif fam == "access":
                    n_status += 1
                    check_level(ctx, _Wrap(chk, "C04.access-monotone"), cf, o, e, lv)
                else:
                    n_config += 1
                    chk.violation("C04.no-config-store",
                                  f"{K}: store into configuration column {fam} of {e['addr']}",
                                  f"value {e['value']}", e["loc"])
    chk.floor("C04.status-true", n_status, 2, "status stores reachable from a step")
    chk.ob("C04.no-config-store", "no store into a configuration column in any class's call tree",
           n_config == 0, f"{n_config} store(s)", "nasim/envs")
    # positive control of the classifier: a synthetic store into the value column is recognised
    cf = facts(ctx, "Exploit")
    cn = cf.cn
    # (the private name of the value column's index attribute is read off the decoded layout)
    value_attr = next((n for n in sorted(ctx.layout.forms)
                       if ctx.layout.family_of_attr(n) == ("value", "scalar")), "_value_idx")
    fake = Event("store", (), "synthetic", "synthetic",
                 {"target": "sub", "base": ("sub", ("attr", cf.d.state_param, cn.tensor_attr),
                                            ("sub", ("attr", cf.d.state_param, cn.map_attr),
                                             ("attr", cf.d.action, "target"))),
                  "idx": ("clsattr", "HostVector", value_attr), "value": C(0)}, 0, 0, ())
    ef = store_effect(cn, fake)
    if ef is None or ef.fam not in CONFIG or classify_root(cn, ef.root)[0] != "OWNED":
        from sa.model import AnalysisError
        raise AnalysisError("positive control failed: synthetic store into the value column of the "
                            "input state is not classified as a configuration store")
    n = check_reset(ctx, chk, "C04")
    chk.floor("C04.reset-store", n, 4, "reset stores")
    check_steps_writers(ctx, chk)
    chk.assume("configuration columns are written once by State.tensorize/HostVector.vectorize at "
               "construction (layout: C09)")


class _Wrap:
    """re-labels obligations produced by a shared rule"""
    def __init__(self, chk, rule):
        self.chk, self.rule = chk, rule

    def ob(self, rule, *a, **k):
        return self.chk.ob(self.rule, *a, **k)

    def undecided(self, rule, *a, **k):
        return self.chk.undecided(self.rule, *a, **k)


def check_steps_writers(ctx, chk):
    env = ctx.repo.cls(ENV_MOD, "NASimEnv")
    writers = {}
    for m in ctx.repo.modules.values():
        if not (m.name.startswith("nasim.envs") or m.name.startswith("nasim.scenarios")):
            continue
        for n in ast.walk(m.tree):
            if isinstance(n, (ast.FunctionDef,)):
                for x in ast.walk(n):
                    tgt = None
                    if isinstance(x, ast.Assign):
                        for t in x.targets:
                            if isinstance(t, ast.Attribute) and t.attr == "steps":
                                tgt = ("=", ast.unparse(x.value))
                    elif isinstance(x, ast.AugAssign) and isinstance(x.target, ast.Attribute) \
                            and x.target.attr == "steps":
                        tgt = (type(x.op).__name__, ast.unparse(x.value))
                    if tgt:
                        writers.setdefault(n.name, []).append(tgt)
    want = {"__init__": [("=", "0")], "reset": [("=", "0")], "step": [("Add", "1")]}
    chk.ob("C04.steps-writers", "writers of the step counter: __init__ (=0), reset (=0), step (+=1)",
           writers == want, f"found {writers}", env.module.path)
