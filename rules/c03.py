"""C03 - reachability and discovery follow compromise exactly.

Decides the three structural lemmas from which the invariant follows by induction over
steps (docs/C03-induction.md; the checker decides the premises, not the induction):
  C03.L1  reset: for every address reachable := public(subnet), discovered := reachable,
          compromised := False, access := NONE   (shared with C04)
  C03.L2  outside reset the only stores to `reachable` happen on every successful Exploit,
          value True, for exactly the addresses connected to the target's subnet
  C03.L3  outside reset the only stores to `discovered` happen on a successful SubnetScan
          (gated by G5), value True, for exactly the addresses connected to the target's
          subnet; the result's discovered / newly_discovered maps are filled under the same
          atom (newly: and not discovered before)
  C03.same-predicate  L2 and L3 use the same connectivity predicate with the same argument roles
"""
from sa.canon import f_show, f_equiv, f_or, f_and, f_not, f_implies, f_atoms, A
from sa.interp import C
from .gates import REQUIRED, facts, T, GATES
from .c04 import check_reset

EXPLANATION = (
    "Who-may-write analysis for the column families `reachable` and `discovered` over the "
    "per-class gate tables (stores classified through the symbolic layout), truth-table "
    "comparison of the store conditions with the connectivity atom, and the reset lemma from "
    "the abstract interpretation of NASimEnv.reset/Network.reset.")

EACH = "each(scenario.address_space)"
CONNECTED = f"1==scenario.topology[{T}[0]][{EACH}[0]]"


def loop_split(cn, d, ev, outcome):
    """conditions of a store event: (outside-the-loop part implied by the outcome?, inside part)"""
    pre, inside, seen = [], [], False
    for c in ev.pc:
        if c[0] == "inloop":
            seen = True
            continue
        (inside if seen else pre).append(c)
    return pre, inside


def run(ctx, chk):
    chk.explanation = EXPLANATION
    n = check_reset(ctx, chk, "C03.L1")
    chk.floor("C03.L1", n, 4, "reset stores")
    reach_cond = disc_cond = None
    n_reach = n_disc = 0
    blind = {}
    for K in ctx.action_classes:
        if K not in REQUIRED:
            continue
        cf = facts(ctx, K)
        cn, d = cf.cn, cf.d
        for o in cf.outcomes:
            succ = o.flag("success") is True
            for e in cf.net_effects(o):
                if succ and e["kind"] == "row" and str(e.get("addr", "")).startswith("#("):
                    # a store addressed by an index expression (array of rows, mask, (rows, col)
                    # pair) instead of one host's address: not decoded
                    blind.setdefault(K, []).append(e["loc"])
                if e["kind"] != "cell" or e["fam"] not in ("reachable", "discovered"):
                    continue
                fam = e["fam"]
                who_ok = succ and ((fam == "reachable" and K == "Exploit")
                                   or (fam == "discovered" and K == "SubnetScan"))
                rule = "C03.L2" if fam == "reachable" else "C03.L3"
                chk.ob(f"{rule}.who",
                       f"{K}: {'success' if succ else 'failure'} exit stores {fam} of {e['addr']}",
                       who_ok, "" if who_ok else "only a successful exploit may extend "
                       "reachability and only a successful subnet scan may discover hosts", e["loc"])
                if not who_ok:
                    continue
                ev = e["ev"]
                pre, inside = loop_split(cn, d, ev, o)
                loops = [x for x in ev.pc if x[0] == "inloop"]
                it = cn.show(d.ip.loops[loops[0][1]]["iter"]) if loops else None
                v = cn.norm(e["value_t"])
                lit = v[0] == "const" and v[1] in (1, True)
                # every success path reaches the loop
                pre_ok = bool(f_implies(o.G, cf.strip(cn.conj(tuple(pre)))))
                cond = cf.strip(cn.conj(tuple(inside)))
                old = A(f"copy(state)[{EACH}].{fam}")
                want = A(CONNECTED)
                # new flag = old | cond  must equal  old | connected
                eq = f_equiv(f_or([old, cond]), f_or([old, want]))
                full = len(loops) == 1 and it == "scenario.address_space" and e["addr"] == EACH
                ok = lit and pre_ok and eq and full
                if fam == "reachable":
                    n_reach += 1
                    reach_cond = cond
                else:
                    n_disc += 1
                    disc_cond = cond
                chk.ob(rule,
                       f"{K}: on every success path, for each address of the address space, "
                       f"{fam} := True exactly when connected(target subnet, address subnet)",
                       ok, f"value {e['value']}; loop over {it}; reached on every success path: "
                       f"{pre_ok}; store condition {f_show(cond)}; required {CONNECTED}", e["loc"])
                chk.sample({"rule": rule, "class": K, "store": f"{e['addr']}.{fam} := {e['value']}",
                            "condition": f_show(cond)})
        if K == "SubnetScan":
            check_result_maps(chk, cf)
    for rule, K_, n_, desc in (
            ("C03.L2.exists", "Exploit", n_reach, "a successful Exploit extends reachability (store "
             "to `reachable` found on its success exits)"),
            ("C03.L3.exists", "SubnetScan", n_disc, "a successful SubnetScan discovers hosts (store "
             "to `discovered` found on its success exit)")):
        if n_ == 0 and blind.get(K_):
            chk.undecided(rule, desc, "0 decoded store(s); stores addressed by an index expression "
                          f"were not decoded: {sorted(set(blind[K_]))[:3]}", "nasim/envs/network.py")
        else:
            chk.ob(rule, desc, n_ >= 1, f"{n_} store(s)", "nasim/envs/network.py")
    if reach_cond is not None and disc_cond is not None:
        a1 = {a for a in f_atoms(reach_cond) if "topology" in a}
        a2 = {a for a in f_atoms(disc_cond) if "topology" in a}
        if not a1 or not a2:
            # one of the two conditions has no connectivity test of its own (it may range over a
            # precomputed list): whether that side is right is the L2 / L3 obligation above; there
            # is nothing to compare here
            chk.undecided("C03.same-predicate", "reachability update and subnet scan use the same "
                          "connectivity atom (same matrix, same argument roles)",
                          f"L2 uses {sorted(a1)}, L3 uses {sorted(a2)}: one side has no "
                          "connectivity test in its store condition", "nasim/envs/network.py")
        else:
            chk.ob("C03.same-predicate", "reachability update and subnet scan use the same "
                   "connectivity atom (same matrix, same argument roles)",
                   a1 == a2 and len(a1) == 1,
                   f"L2 uses {sorted(a1)}, L3 uses {sorted(a2)}", "nasim/envs/network.py")
    # discovery is gated by G5 (scan run on a compromised host with access): C02.gate G5
    cf = facts(ctx, "SubnetScan")
    chk.ob("C03.L3.gate", "SubnetScan: success requires G5 (compromised target, required access)",
           bool(f_implies(cf.success_F, GATES["G5"])), "", cf.d.fi.module.path)
    cf = facts(ctx, "Exploit")
    chk.ob("C03.comp-implies-disc", "Exploit: success (the only way to become compromised) requires "
           "the target to be reachable and discovered", bool(f_implies(cf.success_F, GATES["G1"])),
           "", cf.d.fi.module.path)
    chk.assume("the invariant itself follows from L1-L3 by the induction written in "
               "docs/C03-induction.md (DESIGN.md Appendix B); the induction is not machine-checked")


def check_result_maps(chk, cf):
    """ActionResult.discovered / newly_discovered of the successful subnet scan"""
    cn, d = cf.cn, cf.d
    for o in cf.success:
        for field, extra in (("discovered", None), ("newly_discovered", "notdisc")):
            t = o.fields.get(field)
            if t is None or t[0] != "dictobj":
                chk.undecided("C03.L3.maps", f"SubnetScan: result.{field} is not a local dict",
                              cn.show(t) if t else "missing")
                continue
            dyn = d.ip.heap[t[1]]["dyn"]
            trues = [(k, v, pc) for k, v, pc in dyn if v == C(True)]
            falses = [(k, v, pc) for k, v, pc in dyn if v == C(False)]
            ok = len(trues) == 1 and len(falses) >= 1
            detail = f"{len(trues)} True store(s), {len(falses)} False store(s)"
            if ok:
                k, v, pc = trues[0]
                pre, inside, seen = [], [], False
                for c in pc:
                    if c[0] == "inloop":
                        seen = True
                        continue
                    (inside if seen else pre).append(c)
                cond = cf.strip(cn.conj(tuple(inside)))
                want = A(CONNECTED)
                if extra:
                    want = f_and([want, f_not(A(f"copy(state)[{EACH}].discovered"))])
                ok = cn.show(k) == EACH and f_equiv(cond, want)
                # the default False is stored for every address unconditionally in the loop
                fk, fv, fpc = falses[0]
                ok = ok and cn.show(fk) == EACH and \
                    not [c for c in fpc[len(pre):] if c[0] not in ("inloop", "fact")]
                detail = f"True under {f_show(cond)}; required {f_show(want)}"
                if cn.show(k) != EACH or cn.show(fk) != EACH:
                    detail += f"; True stored for {cn.show(k)[:120]}, the default False for " \
                              f"{cn.show(fk)[:120]} (required: {EACH})"
            chk.ob("C03.L3.maps",
                   f"SubnetScan: result.{field}[a] is True exactly for "
                   f"{'newly ' if extra else ''}discovered addresses", ok, detail,
                   d.fi.module.path)
