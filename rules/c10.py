"""C10 - Gymnasium contract (claimed for the structural clauses below).

  C10.dtype      every array that can reach a reset/step return is np.zeros(..., dtype=float32) passed
                 through flatten()/identity only
  C10.shape      the Box is built with the shape of the initial observation (flat or 2-D by the same
                 flag that selects the returned array) and with the bounds of get_space_bounds
  C10.bounds     low = min(...) containing 0 and the minima of host value and discovery value over
                 *all* hosts; high = max(...) containing 1, both maxima and AccessLevel.ROOT
  C10.accept     the type guards of get_action admit what the Gymnasium samplers return
                 (Discrete.sample -> np.int64, MultiDiscrete.sample -> np.ndarray)
  C10.tuples     reset returns (obs, {}) and step returns (obs, reward, done, limit_flag, info) with
                 info = ActionResult.info() (a dict of the result's eleven fields)
"""
from sa.canon import Canon, f_show
from sa.ctx import ENV_MOD, OBS_MOD, ACT_MOD
from sa.interp import Interp, C
from . import envfacts
from .c01 import access_levels

EXPLANATION = (
    "Abstract interpretation of NASimEnv.__init__/reset/step, Observation.get_space_bounds and "
    "the get_action guards: creation sites and dtype of returned arrays, arguments of the Box "
    "constructor, term sets of the min/max bound expressions, isinstance type sets of the guards, "
    "arities of the returned tuples.")

GYM_FACTS = {"FlatActionSpace": "numpy.integer", "ParameterisedActionSpace": "numpy.ndarray"}
INT_OK = {"numpy.integer", "numbers.Integral", "numpy.int64"}


def run(ctx, chk):
    chk.explanation = EXPLANATION
    repo = ctx.repo
    lv = access_levels(ctx)
    # ------------------------------------------------------------------ dtype / returned arrays
    ob = repo.cls(OBS_MOD, "Observation")
    for meth, want in (("numpy", "tensor"), ("numpy_flat", "tensor.flatten()")):
        m = ob.methods[meth]
        ip = Interp(repo, ctx.types, param_types={m.params[0]: "Observation"})
        s = ip.run(m)
        cn = Canon(ip, ctx.layout)
        txt = [cn.show(t) for _, t in s.returns]
        chk.ob("C10.dtype", f"Observation.{meth}() returns self.{want}",
               txt == [f"{m.params[0]}" + (".flatten()" if meth == "numpy_flat" else "")],
               str(txt), ob.module.path, nontrivial=False)
    init = ob.methods["__init__"]
    ip = Interp(repo, ctx.types)
    s = ip.run(init, {init.params[0]: ("obj", "Observation", "O")})
    cn = Canon(ip, ctx.layout)
    zs = [ev for ev in s.events if ev.kind == "call" and ev.data["fname"] == "numpy.zeros"]
    ok = len(zs) == 1 and dict(zs[0].data["kwargs"]).get("dtype") == ("ext", "numpy.float32")
    chk.ob("C10.dtype", "Observation storage is np.zeros(shape, dtype=np.float32)", ok,
           str([cn.show(z.data["result"]) for z in zs]), ob.module.path)
    # tensor is never rebound by methods used on the way (from_state/from_action_result/update)
    import ast
    reb = []
    for name, m in ob.methods.items():
        if name in ("__init__", "from_numpy"):
            continue
        for n in ast.walk(m.node):
            if isinstance(n, ast.Attribute) and isinstance(n.ctx, ast.Store) and n.attr == "tensor":
                reb.append(name)
    chk.ob("C10.dtype", "no Observation method other than __init__/from_numpy rebinds the tensor",
           not reb, str(reb), ob.module.path)
    # reset / step return the observation through numpy_flat()/numpy() only
    r = envfacts.reset_run(ctx)
    from sa.canon import f_implies, f_not, A, f_and
    # every exit hands out (observation, {}); the alternatives - one return of a conditional value,
    # or one return per branch - are judged under their own condition on flat_obs
    alts = []
    shape_ok = bool(r.returns)
    iok = bool(r.returns)
    for pc, t in r.returns:
        if not (t[0] == "tuple" and len(t[1]) == 2):
            shape_ok = False
            continue
        o, info = t[1]
        iok = iok and info[0] == "dictobj" and not r.ip.heap[info[1]]["items"] \
            and not r.ip.heap[info[1]]["dyn"]
        cond = r.cn.conj(tuple(c for c in pc if c[0] != "fact"))
        on = r.cn.norm(o)
        if on[0] == "phi":
            c_ = r.cn.formula(on[1])
            alts += [(f_and([cond, c_]), on[2]), (f_and([cond, f_not(c_)]), on[3])]
        else:
            alts.append((cond, on))
    FLAT = A("self.flat_obs")

    def is_zeros32(t):
        return t[0] == "zeros" and t[2] == ("ext", "numpy.float32")
    ok = shape_ok and len(alts) >= 2
    sites = set()
    seen_flat = seen_2d = False
    for cond, on in alts:
        if f_implies(cond, FLAT):
            good = on[0] == "mcall" and on[2] == "flatten" and is_zeros32(on[1])
            seen_flat = seen_flat or good
            sites.add(on[1] if good else None)
        elif f_implies(cond, f_not(FLAT)):
            good = is_zeros32(on)
            seen_2d = seen_2d or good
            sites.add(on if good else None)
        else:
            good = False
        ok = ok and good
    ok = ok and seen_flat and seen_2d and len(sites) == 1
    detail = "; ".join(f"{f_show(c)[:60]} -> {r.show(o)[:80]}" for c, o in alts)
    if shape_ok:
        chk.ob("C10.tuples", "reset returns (observation, {})", iok,
               str([r.show(t)[:60] for _, t in r.returns]), r.fi.module.path)
    chk.ob("C10.dtype", "reset returns the float32 zeros-based observation tensor, flattened iff "
           "flat_obs", ok, detail, r.fi.module.path)
    s = envfacts.step_shallow(ctx)
    ok = len(s.returns) == 1 and s.returns[0][1][0] == "tuple" and len(s.returns[0][1][1]) == 5
    chk.ob("C10.tuples", "step returns a 5-tuple (obs, reward, terminated, truncated, info)", ok,
           s.show(s.returns[0][1])[:200] if s.returns else "", s.fi.module.path)
    g = envfacts.gstep_shallow(ctx)
    if len(g.returns) == 1 and g.returns[0][1][0] == "tuple" and len(g.returns[0][1][1]) == 5:
        info = g.returns[0][1][1][4]
        ok = info[0] == "dictobj" and not g.ip.heap[info[1]]["dyn"]
        keys = sorted(g.ip.heap[info[1]]["items"]) if ok else []
        want = sorted(["success", "value", "services", "os", "processes", "access", "discovered",
                       "connection_error", "permission_error", "undefined_error",
                       "newly_discovered"])
        vals_ok = ok and all(g.show(v).endswith("." + k)
                             for k, v in g.ip.heap[info[1]]["items"].items())
        chk.ob("C10.tuples", "info = ActionResult.info(): dict of the result's eleven fields, each "
               "under its own name", ok and keys == want and vals_ok, str(keys), g.fi.module.path)
    # ------------------------------------------------------------------ Box construction
    fi = repo.func(ENV_MOD, "NASimEnv.__init__")
    ip = Interp(repo, ctx.types, param_types={fi.params[0]: "NASimEnv", fi.params[1]: "Scenario"},
                no_inline=("nasim.envs.state:State.generate_initial_state",
                           "nasim.envs.environment:NASimEnv.reset",
                           "nasim.envs.action:load_action_list",
                           "nasim.envs.observation:Observation.get_space_bounds"))
    si = ip.run(fi)
    cn = Canon(ip, ctx.layout)
    boxes = [ev for ev in si.events if ev.kind == "call"
             and ev.data["fname"].endswith("spaces.Box")]
    ok = len(boxes) == 1
    detail = f"{len(boxes)} Box construction(s)"
    if ok:
        kw = dict(boxes[0].data["kwargs"])
        pos = list(boxes[0].data["args"])
        low = kw.get("low", pos[0] if pos else None)
        high = kw.get("high", pos[1] if len(pos) > 1 else None)
        shape = kw.get("shape", pos[2] if len(pos) > 2 else None)
        SC = fi.params[1]
        GB = f"nasim.envs.observation:Observation.get_space_bounds({SC})"
        FO = fi.params[4] if len(fi.params) > 4 else "flat_obs"
        shp = cn.show(shape) if shape else "?"
        ok = low is not None and cn.show(low) == f"{GB}[0]" and cn.show(high) == f"{GB}[1]" and \
            shp in (f"({FO} ? self.last_obs.flatten().shape : self.last_obs.obs_shape)",
                    # the tensor's own shape is obs_shape (Observation.__init__: np.zeros(obs_shape),
                    # C09.dims)
                    f"({FO} ? self.last_obs.flatten().shape : self.last_obs.shape)")
        detail = f"Box(low={cn.show(low) if low else None}, high={cn.show(high) if high else None}, " \
                 f"shape={shp})"
        dt = kw.get("dtype")
        chk.ob("C10.dtype", "Box dtype is the default float32 (or explicitly float32)",
               dt is None or dt == ("ext", "numpy.float32"), cn.show(dt) if dt else "default",
               fi.module.path, nontrivial=False)
    chk.ob("C10.shape", "observation_space = Box(low, high of get_space_bounds(scenario), shape of "
           "the initial observation: flattened iff flat_obs)", ok, detail, fi.module.path)
    # the initial observation exists before the Box is built: reset() is called in __init__
    resets = [ev for ev in si.events if ev.kind == "call"
              and ev.data["fname"] == "nasim.envs.environment:NASimEnv.reset"]
    chk.ob("C10.shape", "__init__ calls reset() (creating last_obs) before building the Box",
           bool(resets) and bool(boxes) and resets[0].seq < boxes[0].seq and not resets[0].pc, "",
           fi.module.path, nontrivial=False)
    # ------------------------------------------------------------------ bounds
    gb = repo.func(OBS_MOD, "Observation.get_space_bounds")
    ip = Interp(repo, ctx.types, param_types={gb.params[0]: "Scenario"})
    sb = ip.run(gb)
    cn = Canon(ip, ctx.layout)
    ok = len(sb.returns) == 1 and sb.returns[0][1][0] == "tuple" and len(sb.returns[0][1][1]) == 2
    if ok:
        lo, hi = sb.returns[0][1][1]
        HD = f"{gb.params[0]}.scenario_dict['host']"
        H = f"{HD}[each({HD})]"

        from .shapes import extremum_candidates
        lo_args = extremum_candidates(ip, cn, lo, "min")
        hi_args = extremum_candidates(ip, cn, hi, "max")
        lo_need = {"0", f"{H}.value", f"{H}.discovery_value"}
        hi_need = {"1", f"{H}.value", f"{H}.discovery_value", str(lv["ROOT"])}
        ok_lo = lo_need <= lo_args
        ok_hi = hi_need <= hi_args
        chk.ob("C10.bounds", "low = min(0, min host value, min discovery value, ...) over all hosts",
               ok_lo, f"min over {sorted(lo_args)}; missing {sorted(lo_need - lo_args)}",
               gb.module.path)
        chk.ob("C10.bounds", "high = max(1, max host value, max discovery value, AccessLevel.ROOT, "
               "...) over all hosts", ok_hi,
               f"max over {[a[:60] for a in sorted(hi_args)]}; missing "
               f"{[a[:60] for a in sorted(hi_need - hi_args)]}", gb.module.path)
    else:
        chk.undecided("C10.bounds", "get_space_bounds does not return a (low, high) pair")
    # the extremes range over *all* hosts only if the stream of host values each of them consumes
    # is complete: a one-shot iterator (map / filter / zip / generator expression) bound to a
    # name and consumed twice gives its second consumer nothing
    from .shapes import exhausted_iterators
    sc = repo.cls("nasim.scenarios.scenario", "Scenario")
    todo, seen_f = [gb] + [sc.methods[n] for n in ("host_value_bounds",
                                                    "host_discovery_value_bounds")
                           if n in sc.methods], set()
    import ast as _ast
    nfun = 0
    while todo:
        f_ = todo.pop()
        if f_.fq in seen_f:
            continue
        seen_f.add(f_.fq)
        nfun += 1
        for name, bind, second in exhausted_iterators(f_.node):
            chk.ob("C10.bounds", f"{f_.qualname}: every extreme is taken over the complete "
                   "sequence of host values", False,
                   f"`{name}` is a one-shot iterator (`{_ast.unparse(bind.value)[:60]}`) and is "
                   f"consumed again at line {second.lineno}: the second consumer sees an exhausted "
                   "stream, so that extreme is not over all hosts", f"{f_.module.path}:"
                   f"{second.lineno}", firm=True)
        for n_ in _ast.walk(f_.node):
            if isinstance(n_, _ast.Call) and isinstance(n_.func, _ast.Attribute) \
                    and isinstance(n_.func.value, _ast.Name) and n_.func.value.id == "self" \
                    and f_.cls is not None and n_.func.attr in f_.cls.methods:
                todo.append(f_.cls.methods[n_.func.attr])
    chk.ob("C10.bounds", "no one-shot iterator of host values is consumed twice in the bounds "
           "computation", True, f"{nfun} function(s) examined", gb.module.path, nontrivial=False)
    # ------------------------------------------------------------------ guards
    for cls, sampled in GYM_FACTS.items():
        ci = repo.cls(ACT_MOD, cls)
        m = ci.methods["get_action"]
        ip = Interp(repo, ctx.types, param_types={m.params[0]: cls})
        sg = ip.run(m)
        cn = Canon(ip, ctx.layout)
        arg = ("param", m.params[1])
        guards = []
        unknown = []
        for ev in sg.events:
            if ev.kind == "assert" and ev.depth == 0:
                t = ev.data["test"]
                if t[0] == "call" and t[1] == "builtins.isinstance" and t[2][0] == arg:
                    c = t[2][1]
                    cs = c[1] if c[0] in ("tuple", "list") else (c,)
                    guards.append({x[1] for x in cs if x[0] in ("ext", "classref")})
                elif arg in _flatten(t):
                    unknown.append(cn.show(t))
        for u in unknown:
            chk.undecided("C10.accept", f"{cls}.get_action: unrecognised guard form on the action "
                          "argument", u, ci.module.path)
        for gset in guards:
            gset = {g.replace("builtins.", "") for g in gset}
            if cls == "FlatActionSpace":
                ok = bool(gset & INT_OK)
                need = "np.integer (what Discrete.sample() returns)"
            else:
                ok = "numpy.ndarray" in gset
                need = "np.ndarray (what MultiDiscrete.sample() returns)"
            chk.ob("C10.accept", f"{cls}.get_action: isinstance guard admits {need}", ok,
                   f"admitted types: {sorted(gset)}", f"{ci.module.path}:{m.node.lineno}")
        if not guards and not unknown:
            chk.ob("C10.accept", f"{cls}.get_action: no type guard (every sampled value accepted)",
                   True, "", ci.module.path, nontrivial=False)
    from .c11 import check_nvec
    from .c04 import _Wrap
    check_nvec(ctx, _Wrap(chk, "C10.accept-range"))
    chk.assume("frozen facts about gymnasium 1.x: Discrete.sample() -> np.int64, "
               "MultiDiscrete.sample() -> np.ndarray[int64], Box(low, high, shape) dtype float32")
    chk.assume("NOT decided: observation_space.contains(obs) at run time (float32 rounding of values "
               "at the bounds) and Gymnasium's own sampler behaviour")


def _flatten(t):
    out = set()
    if isinstance(t, tuple):
        out.add(t)
        for x in t:
            out |= _flatten(x)
    return out
