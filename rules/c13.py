"""C13 - the generative step is pure and agrees with step.

  C13.pure-stores   transitive store set of generative_step(self, state, action): every array store
                    lands on a FRESH root (np.copy / np.zeros made in this activation); no store to
                    the argument state's storage, to any attribute of the environment, the network,
                    class objects or module objects
  C13.fresh-result  for every action class and every exit of the dispatcher the returned state wraps
                    a fresh np.copy of the input tensor; State.copy / HostVector.copy are fresh by
                    their bodies; the returned Observation owns fresh np.zeros storage
  C13.delegation    step(): one call generative_step(self.current_state, action); then
                    current_state := its first result, last_obs := its second; reward/done/info
                    returned unchanged
"""
from sa.canon import f_show
from sa.ctx import classify_root
from sa.interp import C
from . import envfacts
from .envfacts import GSTEP, PERFORM, GET_OBS
from .gates import REQUIRED, facts

EXPLANATION = (
    "Write-effect analysis: abstract interpretation of NASimEnv.generative_step with the whole "
    "call tree inlined (all action classes at once); each store event's root object is "
    "classified as FRESH (np.copy/np.zeros created in the activation, freshness derived from the "
    "copy() bodies on every run) or OWNED (argument/attribute storage); plus def-use wiring of "
    "step() with generative_step kept opaque.")


def run(ctx, chk):
    chk.explanation = EXPLANATION
    d = envfacts.gstep_deep(ctx)
    cn = d.cn
    n_fresh = 0
    selfp = ("param", d.fi.params[0])
    statep = ("param", d.fi.params[1])
    actionp = ("param", d.fi.params[2])
    protected = {selfp: "the environment", ("attr", selfp, "network"): "the network",
                 statep: "the argument state", actionp: "the action object (shared with the "
                 "action space)",
                 ("attr", selfp, "current_state"): "the current state",
                 ("attr", selfp, "last_obs"): "the last observation"}
    for ef in d.stores():
        if ef.kind == "attr":
            base = ef.ev.data["base"]
            hit = [r for r in term_roots(base) if r in protected]
            if hit and base not in protected:
                base = hit[0]
            if base in protected or base[0] in ("classref", "module"):
                chk.violation("C13.pure-stores",
                              f"generative_step call tree stores attribute {ef.root}.{ef.fam}",
                              f"value {cn.show(ef.value)[:120]}: the generative step must not "
                              f"modify {protected.get(base, 'class/module state')}", ef.ev.loc)
            else:
                chk.note(f"attribute store outside the property's scope (memoisation): "
                         f"{ef.root}.{ef.fam} at {ef.ev.loc}")
            continue
        if not isinstance(ef.root, tuple):
            continue
        kind, desc, site = classify_root(cn, ef.root)
        if kind == "OTHER":
            b = ef.ev.data["base"]
            while b[0] in ("sub", "attr", "proj") and b not in protected:
                b = b[1]
            if b[0] in ("dictobj", "listobj", "new"):
                continue          # local container / fresh object
            if b not in protected and b[0] not in ("classref", "module", "clsattr", "global"):
                chk.note(f"store into {desc} at {ef.ev.loc} (not environment/state storage)")
                continue
        ok = kind == "FRESH"
        if ok:
            n_fresh += 1
        chk.ob("C13.pure-stores",
               f"{ef.ev.func.split(':')[1]}: store into {desc if ok else kind + ' ' + desc}"
               f".{ef.fam}", ok,
               "" if ok else "array store reaches storage that is not a fresh copy made by this "
               "call (the argument state / current state would be modified)", ef.ev.loc,
               nontrivial=False)
    chk.floor("C13.pure-stores", n_fresh, 4, "array stores on fresh roots")
    # in-place mutation (add/append/update/...) of containers hanging off protected objects
    MUT = {"append", "extend", "insert", "pop", "remove", "clear", "update", "setdefault",
           "popitem", "add", "discard", "sort", "reverse"}
    for ev in d.events:
        if ev.kind == "mcall" and ev.data["name"] in MUT:
            b = ev.data["recv"]
            chain = b
            while chain[0] in ("sub", "attr", "proj") and chain not in protected:
                chain = chain[1]
            if chain in protected and b[0] not in ("dictobj", "listobj"):
                chk.violation("C13.pure-stores",
                              f"generative_step call tree mutates {cn.show(b)[:80]} in place "
                              f"(.{ev.data['name']}())", f"the generative step must not modify "
                              f"{protected[chain]}", ev.loc)
    # class-level / module-level stores (HostVector layout etc.) must not happen in a step
    for ev in d.events:
        if ev.kind == "store" and ev.data["target"] == "attr" \
                and ev.data["base"][0] in ("classref", "module"):
            chk.violation("C13.pure-stores", f"generative_step call tree stores class/module "
                          f"attribute {cn.show(ev.data['base'])}.{ev.data['name']}", "", ev.loc)
    # ---- fresh results per class
    n = 0
    for K in ctx.action_classes:
        if K not in REQUIRED:
            continue
        cf = facts(ctx, K)
        kinds = {}
        for o in cf.outcomes:
            k, desc = cf.returned_state_kind(o)
            kinds.setdefault((k, desc), 0)
            kinds[(k, desc)] += 1
        n += len(cf.outcomes)
        ok = set(k for k, _ in kinds) == {"FRESH-COPY"}
        chk.ob("C13.fresh-result", f"{K}: every exit returns a State wrapping a fresh np.copy of "
               "the input tensor", ok, str(kinds), cf.d.fi.module.path)
    chk.floor("C13.fresh-result", n, 10, "dispatcher exits")
    # returned observation: fresh zeros
    sh = envfacts.gstep_shallow(ctx)
    obs_calls = sh.calls(GET_OBS)
    ok = len(obs_calls) == 1 and len(sh.returns) == 1 and \
        sh.returns[0][1][1][1] == obs_calls[0].data["result"]
    chk.ob("C13.obs-wiring", "generative_step returns the Observation built by "
           "next_state.get_observation(action, result, fully_obs)", ok, "", sh.fi.module.path)
    check_observation_fresh(ctx, chk)
    # ---- delegation
    s = envfacts.step_shallow(ctx)
    scn = s.cn
    gs = s.calls(GSTEP)
    selfp = ("param", s.fi.params[0])
    ok = len(gs) == 1 and not gs[0].pc
    detail = f"{len(gs)} call(s)"
    from .shapes import new_args
    ext = "exact"
    if ok:
        a, kw_, ext = new_args(ctx.repo, GSTEP, gs[0].data["args"],
                               dict(gs[0].data.get("kwargs", ())))
        ok = len(a) == 3 and not kw_ and a[0] == selfp \
            and a[1] == ("attr", selfp, "current_state") and a[2] == ("param", s.fi.params[1])
        detail = f"generative_step({', '.join(scn.show(x) for x in gs[0].data['args'])})"
    if ok and ext == "extended":
        chk.undecided("C13.delegation", "step: exactly one unconditional call "
                      "generative_step(self.current_state, action)", detail + ": called with an "
                      "argument the documented generative_step(state, action) does not have",
                      s.fi.module.path)
    else:
        chk.ob("C13.delegation", "step: exactly one unconditional call "
               "generative_step(self.current_state, action)", ok, detail, s.fi.module.path)
    if gs:
        res = gs[0].data["result"]
        stores = {e.fam: e for e in s.stores() if e.kind == "attr"}
        for attr, i in (("current_state", 0), ("last_obs", 1)):
            e = stores.get(attr)
            ok = e is not None and e.value == ("proj", res, i) and not e.ev.pc
            chk.ob("C13.delegation", f"step: self.{attr} := result {i} of that call", ok,
                   scn.show(e.value) if e else "no store", s.fi.module.path)
        other = [f for f in stores if f not in ("current_state", "last_obs", "steps")]
        if other:
            chk.note(f"step also writes {other} (outside the property's scope)")
        # observation returned by step is a presentation of result 1
        if len(s.returns) == 1 and s.returns[0][1][0] == "tuple":
            o = s.returns[0][1][1][0]
            txt = scn.show(o)
            okp = f"{scn.show(('proj', res, 1))}.numpy_flat()" in txt and \
                f"{scn.show(('proj', res, 1))}.numpy()" in txt
            chk.ob("C13.delegation", "step: returned observation is numpy_flat()/numpy() of the "
                   "generative step's observation", okp, txt[:200], s.fi.module.path)
    # network.perform_action's inputs are (state, action) only
    pc = sh.calls(PERFORM)
    if pc:
        a, kw_p, ext_p = new_args(ctx.repo, PERFORM, pc[0].data["args"],
                                  dict(pc[0].data.get("kwargs", ())))
        st_ok = len(a) == 3 and (a[1] == ("param", sh.fi.params[1]) or
                                 sh.show(a[1]) in (f"new State#{a[1][2]}",) and a[1][0] == "new"
                                 and sh.show(sh.ip.heap[a[1][2]]["fields"].get(
                                     sh.cn.tensor_attr, ("unknown", "?"))) ==
                                 f"copy({sh.fi.params[1]})")
        ok = len(a) == 3 and st_ok and not kw_p
        if ok and ext_p == "extended":
            chk.undecided("C13.inputs", "generative_step passes exactly (state, action) to the "
                          "transition function", "perform_action is called with an argument the "
                          "documented perform_action(state, action) does not have: "
                          f"{[sh.show(x)[:60] for x in pc[0].data['args']]}", sh.fi.module.path)
        else:
            chk.ob("C13.inputs", "generative_step passes exactly (state, action) to the transition "
                   "function", ok, f"{[sh.show(x)[:80] for x in pc[0].data['args']]}",
                   sh.fi.module.path)
    chk.assume("numpy: np.copy and np.zeros return fresh arrays; ndarray[i] on a 2-D array is a "
               "view, on a 1-D array a scalar")


def term_roots(t, depth=0):
    """objects a (possibly phi / cases valued) receiver term may denote"""
    if depth > 8 or not isinstance(t, tuple):
        return []
    if t[0] == "phi":
        return term_roots(t[2], depth + 1) + term_roots(t[3], depth + 1)
    if t[0] == "cases":
        out = []
        for _, x in t[1]:
            out += term_roots(x, depth + 1)
        return out
    if t[0] == "typed":
        return term_roots(t[2], depth + 1)
    if t[0] == "sub" and t[1][0] == "attr" and t[1][2] == "actions":
        # an element of the action space's action list is shared by all episodes
        return [t[1][1]] + term_roots(t[1][1], depth + 1)
    return [t]


def check_observation_fresh(ctx, chk):
    """Observation.__init__ creates its own zero tensor; no method of Observation used by
    get_observation re-binds self.tensor to foreign storage"""
    d = envfacts.gstep_deep(ctx)
    cn = d.cn
    bad = []
    nobs = 0
    for ev in d.events:
        if ev.kind == "store" and ev.data["target"] == "attr" and ev.data.get("fresh") \
                and ev.data["name"] == cn.tensor_attr and ev.data["base"][0] == "new" \
                and ev.data["base"][1] == "Observation":
            nobs += 1
            v = cn.norm(ev.data["value"])
            if v[0] != "zeros":
                bad.append((ev.loc, cn.show(v)))
    chk.ob("C13.fresh-result", "returned Observation owns np.zeros storage (never re-bound to state "
           "storage)", nobs >= 1 and not bad, f"{nobs} tensor binding(s); foreign: {bad}",
           "nasim/envs/observation.py")
