"""C08 - observations are truthful, minimal and complete for the action taken.

Derived per action class from the abstract interpretation of State.get_observation (with the
class-specialised branches and the constant-propagated observe(**kwargs) flags):
  C08.truthful     every store into an observed host vector copies the same column family (same
                   index / whole slice) of the *same host row* of the state the method is called on
  C08.where        host rows written: the target's, and for a subnet scan the rows of addresses a with
                   result.discovered[a]; nothing else
  C08.entitlement  families revealed per class: must-set included, nothing outside must+may (A.2)
  C08.silent       no host row is written for a NoOp or a failed action, nor outside partial mode
  C08.fully-obs    in fully observable mode the host rows are one block copy of the state tensor
  C08.aux          four unconditional aux-row stores: slot i <- (success, connection_error,
                   permission_error, undefined_error)[i], in the last row
  C08.initial      initial observation: block copy (fully observable) or address/reachable/discovered of
                   exactly the hosts whose reachable flag is set
  C08.receiver     generative_step observes the returned next state with (action, result, fully_obs)
"""
from sa.canon import Canon, f_show, f_equiv, f_and, f_not, f_implies, A, f_atoms
from sa.ctx import STATE_MOD, OBS_MOD, store_effect, classify_root
from sa.interp import Interp, C
from sa.layout import GROUPS
from sa.model import AnalysisError
from . import envfacts
from .envfacts import PERFORM, GET_OBS

EXPLANATION = (
    "Abstract interpretation of State.get_observation for each concrete action class (the "
    "observe(**obs_kwargs) flags are constant-propagated through the local dict, so disabled "
    "feature groups are pruned); every store into the fresh observation tensor/vectors is "
    "classified by column family through the symbolic layout and compared with the "
    "entitlement table of DESIGN.md A.2.")

ADDR = {"subnet_onehot", "host_onehot"}
BASE = ADDR | {"reachable", "discovered"}
ENTITLE = {   # class -> (must, may)
    "ServiceScan": (BASE | {"services"}, set()),
    "OSScan": (BASE | {"os"}, set()),
    "ProcessScan": (BASE | {"processes", "access"}, set()),
    "Exploit": (BASE | {"compromised", "services", "os", "access"}, {"value"}),
    "PrivilegeEscalation": (BASE | {"access"}, {"compromised", "processes", "os", "value"}),
    "SubnetScan": (BASE, {"compromised"}),
}
AUX = ["success", "connection_error", "permission_error", "undefined_error"]


def lin(cn, t, sign=1, acc=None):
    """linear form of an integer term: {atom string: coef, '1': const}"""
    if acc is None:
        acc = {}
    t = cn.norm(t)
    if t[0] == "const" and isinstance(t[1], int):
        acc["1"] = acc.get("1", 0) + sign * t[1]
    elif t[0] == "bin" and t[1] in ("+", "-"):
        lin(cn, t[2], sign, acc)
        lin(cn, t[3], sign if t[1] == "+" else -sign, acc)
    else:
        k = cn.show(t)
        acc[k] = acc.get(k, 0) + sign
    return {k: v for k, v in acc.items() if v}


class ObsFacts:
    def __init__(self, ctx, K):
        repo = ctx.repo
        self.fi = repo.func(STATE_MOD, "State.get_observation")
        ps = self.fi.params
        if len(ps) < 4:
            raise AnalysisError("State.get_observation no longer takes (self, action, result, "
                                "fully_obs)")
        self.ps = ps
        self.ip = Interp(repo, ctx.types, param_types={ps[0]: "State", ps[2]: "ActionResult"})
        self.act = ("obj", K, "A")
        self.s = self.ip.run(self.fi, {ps[1]: self.act})
        self.cn = Canon(self.ip, ctx.layout, names={self.act: "action", ("param", ps[0]): "S",
                                                    ("param", ps[2]): "result",
                                                    ("param", ps[3]): "fully_obs"})
        self.cn.written = None
        self.effects = [e for e in (store_effect(self.cn, ev) for ev in self.s.events
                                    if ev.kind == "store") if e is not None]
        # (the dispatch's own "not implemented for this action" arm: not the re-raise of a handler,
        # and not a KeyError / IndexError / TypeError / ValueError raised for a malformed argument)
        def _dispatch_raise(ev):
            if any(c[0] == "exc" for c in ev.pc):
                return False
            x = ev.data.get("exc")
            name = x[1] if x and x[0] in ("call", "ext") else ""
            return not any(name.endswith(t) for t in ("KeyError", "IndexError", "TypeError",
                                                      "ValueError", "AttributeError"))
        self.raises = [ev for ev in self.s.events if ev.kind == "raise" and _dispatch_raise(ev)]


def vec_cells(effects, cn, site):
    return [e for e in effects if e.kind == "cell" and e.root[0] == "zeros"
            and e.root[3] == site and e.fam != "ROW"]


def run(ctx, chk):
    chk.explanation = EXPLANATION
    SUCC, FULL = A("result.success"), A("fully_obs")
    n_copies = 0
    n_rows = 0
    for K in ctx.action_classes:
        of = ObsFacts(ctx, K)
        cn = of.cn
        fn = of.fi.module.path
        # ---- returned object is the fresh Observation
        objs = {t for _, t in of.s.returns}
        ok = len(objs) == 1 and next(iter(objs))[0] == "new" and next(iter(objs))[1] == "Observation"
        chk.ob("C08.result", f"{K}: get_observation returns one fresh Observation on every path",
               ok, str([cn.show(t) for t in objs]), fn, nontrivial=False)
        if not ok:
            continue
        obs = next(iter(objs))
        tens = cn.norm(of.ip.heap[obs[2]]["fields"].get("tensor", ("unknown", "?")))
        if tens[0] != "zeros":
            chk.violation("C08.result", f"{K}: observation storage is not fresh np.zeros",
                          cn.show(tens), fn)
            continue
        osite = tens[3]
        # ---- aux row
        aux = [e for e in of.effects if e.kind == "cell" and e.root[0] == "row"
               and e.root[1][0] == "zeros" and e.root[1][3] == osite and e.fam.startswith("@")]
        got = {}
        for e in aux:
            v = cn.norm(e.value)
            while v[0] in ("num", "truth"):
                v = v[1]
            row = e.root[2]
            rl = lin(cn, row[1]) if row[0] == "idx" else None
            got[e.fam] = (cn.show(v), rl, e.ev.pc)
        want = {f"@{i}": f"result.{f}" for i, f in enumerate(AUX)}
        ok = set(got) == set(want) and all(
            got[k][0] == want[k] and got[k][1] == {"S.shape[0]": 1} and not got[k][2] for k in want)
        chk.ob("C08.aux", f"{K}: aux row (last row) slots 0..3 <- success, connection, permission, "
               "undefined error; unconditional", ok,
               str({k: (v[0], v[1], f_show(cn.conj(v[2]))) for k, v in got.items()}), fn,
               nontrivial=(K == "Exploit"))
        # ---- fully observable: block copy
        blocks = [e for e in of.effects if e.kind == "block" and e.root[0] == "zeros"
                  and e.root[3] == osite]
        ok = len(blocks) == 1
        detail = f"{len(blocks)} block store(s)"
        if ok:
            b = blocks[0]
            sl = b.addr
            hi = lin(cn, sl[2]) if sl[0] == "slice" else None
            v = cn.norm(b.value)
            cond = cn.conj(b.ev.pc)
            ok = sl[0] == "slice" and sl[1] == C(None) and hi == {"S.shape[0]": 1} \
                and v == ("tensor", ("param", of.ps[0])) and f_equiv(cond, FULL)
            detail = f"rows [{cn.show(sl)}] <- {cn.show(v)} under {f_show(cond)}"
        chk.ob("C08.fully-obs", f"{K}: fully observable => host rows [0, #hosts) are one block copy "
               "of the state tensor", ok, detail, fn, nontrivial=(K == "Exploit"))
        # ---- host rows
        rows = [e for e in of.effects if e.kind == "cell" and e.fam == "ROW"
                and e.root[0] == "row" and e.root[1][0] == "zeros" and e.root[1][3] == osite]
        other = [e for e in of.effects if e not in aux and e not in blocks and e not in rows
                 and not (e.kind == "cell" and e.root[0] == "zeros" and e.root[3] != osite)]
        for e in other:
            # a store whose address / value the effect analysis could not put into one of the
            # three shapes (aux slot, block copy, host row): what it writes is unknown, not wrong
            chk.undecided("C08.where", f"{K}: unclassified store into the observation",
                          f"{e.kind} {e.fam} = {cn.show(e.value)[:100]}", e.ev.loc)
        if K == "NoOp":
            chk.ob("C08.silent", "NoOp: no host row is written in partial mode", not rows,
                   f"{len(rows)} row store(s)", fn)
            continue
        must, may = ENTITLE.get(K, (None, None))
        if must is None:
            chk.undecided("C08.entitlement", f"{K}: class unknown to the entitlement table")
            continue
        target_rows = []
        # stores into the observation that were not decoded as "row <- masked vector": with any of
        # them around, a missing row is not a fact (the row may be the undecoded store)
        blind = [f"{e.kind} {e.fam} at {e.ev.loc}" for e in other]
        for r in rows:
            n_rows += 1
            addr = cn.show(r.addr)
            cond = cn.conj(r.ev.pc)
            silent = f_implies(cond, f_and([SUCC, f_not(FULL)]))
            chk.ob("C08.silent", f"{K}: host row {addr} written only for a successful action in "
                   "partial mode", bool(silent), f"condition {f_show(cond)}", r.ev.loc)
            v = cn.norm(r.value)
            if v[0] != "zeros":
                chk.violation("C08.truthful", f"{K}: row {addr} <- {cn.show(v)[:80]} is not an "
                              "observed (masked) vector", "", r.ev.loc)
                blind.append(f"row {addr} at {r.ev.loc}")
                continue
            cells = vec_cells(of.effects, cn, v[3])
            fams = {}
            for c in cells:
                n_copies += 1
                val = cn.norm(c.value)
                src_ok = val[0] == "cell" and val[1][0] == "row" \
                    and val[1][1] == ("tensor", ("param", of.ps[0])) \
                    and cn.show(val[1][2]) == addr and val[2] == c.fam \
                    and (cn.show(val[3]) if isinstance(val[3], tuple) else val[3]) == \
                    (cn.show(c.elem) if isinstance(c.elem, tuple) else c.elem)
                whole = c.fam not in GROUPS or c.elem == "ALL"
                chk.ob("C08.truthful", f"{K}: observed row {addr}: {c.fam} <- same column of the "
                       "same host of the observed state" + (", whole slice" if c.fam in GROUPS
                                                             else ""), src_ok and whole,
                       f"value {cn.show(val)[:120]}", c.ev.loc, nontrivial=False)
                fams.setdefault(c.fam, []).append(cn.conj(tuple(
                    x for x in c.ev.pc if x not in r.ev.pc)))
            if addr == "action.target":
                target_rows.append((r, fams, cond))
                got = set(fams)
                miss, leak = must - got, got - must - may
                cond_ok = f_equiv(cond, f_and([SUCC, f_not(FULL)]))
                uncond = all(all(f == ("true",) for f in fs) for fs in fams.values())
                chk.ob("C08.entitlement", f"{K}: target row reveals {sorted(got)}",
                       not miss and not leak and cond_ok and uncond,
                       f"missing {sorted(miss)}; leaked {sorted(leak)}; written under "
                       f"{f_show(cond)}; unconditional within: {uncond}", r.ev.loc)
                chk.sample({"rule": "C08.entitlement", "class": K, "row": addr,
                            "families": sorted(got)})
            elif K == "SubnetScan":
                DISC = "result.discovered"
                want_addr = f"each({DISC})"
                wc = f_and([SUCC, f_not(FULL), A(f"{DISC}[{want_addr}]")])
                got = set(fams)
                base_ok = got - {"discovery_value"} == BASE and addr == want_addr \
                    and f_equiv(cond, wc)
                dv = fams.get("discovery_value", [])
                dv_ok = len(dv) == 1 and f_equiv(dv[0], A(f"result.newly_discovered[{want_addr}]"))
                others_unc = all(all(f == ("true",) for f in fs) for k, fs in fams.items()
                                 if k != "discovery_value")
                chk.ob("C08.entitlement", "SubnetScan: each discovered address reveals address, "
                       "reachable, discovered; discovery value exactly when newly discovered",
                       base_ok and dv_ok and others_unc,
                       f"families {sorted(got)}; row {addr} under {f_show(cond)}; discovery_value "
                       f"under {[f_show(x) for x in dv]}", r.ev.loc)
            else:
                chk.violation("C08.where", f"{K}: host row {addr} written (only the target's row "
                              "may be)", f"condition {f_show(cond)}", r.ev.loc)
        def present(desc, ok, detail):
            if not ok and blind:
                chk.undecided("C08.where", desc, f"{detail}; not decoded: {'; '.join(blind[:3])}", fn)
            else:
                chk.ob("C08.where", desc, ok, detail, fn)
        present(f"{K}: exactly one store of the target's row", len(target_rows) == 1,
                f"{len(target_rows)} store(s)")
        # presence: a successful action writes its target's row; a subnet scan also one row per
        # discovered address (an entitled row that is never written is an omission)
        addrs = [cn.show(r.addr) for r in rows]
        present(f"{K}: the target's row is written", "action.target" in addrs,
                f"rows written: {sorted(set(addrs))}")
        if K == "SubnetScan":
            present("SubnetScan: a row is written for each discovered address",
                    any(a != "action.target" for a in addrs), f"rows written: {sorted(set(addrs))}")
        # exhaustiveness: the NotImplementedError arm is unreachable for this class
        chk.ob("C08.exhaustive", f"{K}: has an observation branch (no raise reachable)",
               not of.raises, "; ".join(ev.loc for ev in of.raises), fn, nontrivial=False)
    chk.floor("C08.truthful", n_copies, 15, "family copies")
    chk.floor("C08.where", n_rows, 4, "host row stores")
    check_initial(ctx, chk)
    check_receiver(ctx, chk)
    chk.assume("numerical equality of observation entries with the state follows from 'same-index "
               "copy from the observed state'; the layout of the columns is C09")


def check_initial(ctx, chk):
    fi = ctx.repo.func(STATE_MOD, "State.get_initial_observation")
    ps = fi.params
    ip = Interp(ctx.repo, ctx.types, param_types={ps[0]: "State"})
    s = ip.run(fi)
    cn = Canon(ip, ctx.layout, names={("param", ps[0]): "S", ("param", ps[1]): "fully_obs"})
    cn.written = None
    effects = [e for e in (store_effect(cn, ev) for ev in s.events if ev.kind == "store")
               if e is not None]
    FULL = A("fully_obs")
    blocks = [e for e in effects if e.kind == "block"]
    ok = len(blocks) == 1 and cn.norm(blocks[0].value) == ("tensor", ("param", ps[0])) \
        and f_equiv(cn.conj(blocks[0].ev.pc), FULL)
    chk.ob("C08.initial", "initial observation, fully observable: block copy of the state tensor",
           ok, "", fi.module.path)
    rows = [e for e in effects if e.kind == "cell" and e.fam == "ROW"]
    ok = len(rows) == 1
    detail = f"{len(rows)} row store(s)"
    undec = [e for e in effects if e not in rows and e not in blocks]
    if not rows and undec:
        chk.undecided("C08.initial", "initial observation, partial: address, reachable, discovered "
                      "of exactly the hosts whose reachable flag is set",
                      "0 decoded row store(s); stores that were not decoded as one host's row: "
                      + "; ".join(f"{e.kind} {e.fam} at {e.ev.loc}" for e in undec[:3]),
                      fi.module.path)
        return
    if ok:
        r = rows[0]
        addr = cn.show(r.addr)
        cond = cn.conj(r.ev.pc)
        v = cn.norm(r.value)
        if v[0] != "zeros":
            chk.undecided("C08.initial", "initial observation, partial: address, reachable, "
                          "discovered of exactly the hosts whose reachable flag is set",
                          f"row {addr} <- {cn.show(v)[:100]} is not decoded as a masked copy of the "
                          "host's vector (built by other means than zeros + per-family copies)",
                          fi.module.path)
            return
        cells = vec_cells(effects, cn, v[3])
        fams = {c.fam for c in cells}
        src = all(cn.norm(c.value)[0] == "cell" and cn.show(cn.norm(c.value)[1][2]) == addr
                  and cn.norm(c.value)[2] == c.fam for c in cells)
        want = f_and([f_not(FULL), A(f"S[{addr}].reachable")])
        ok = fams == BASE and src and f_equiv(cond, want) and addr == "each(S.host_num_map)"
        detail = f"row {addr}: families {sorted(fams)} under {f_show(cond)}"
    chk.ob("C08.initial", "initial observation, partial: address, reachable, discovered of exactly "
           "the hosts whose reachable flag is set", ok, detail, fi.module.path)


def check_receiver(ctx, chk):
    sh = envfacts.gstep_shallow(ctx)
    oc = sh.calls(GET_OBS)
    pc = sh.calls(PERFORM)
    ok = len(oc) == 1 and len(pc) == 1
    detail = ""
    if ok:
        res = pc[0].data["result"]
        a = oc[0].data["args"]
        selfp = ("param", sh.fi.params[0])
        ok = len(a) == 4 and a[0] == ("proj", res, 0) and a[1] == pc[0].data["args"][2] \
            and a[2] == ("proj", res, 1) and a[3] == ("attr", selfp, "fully_obs")
        detail = str([sh.show(x)[:70] for x in a])
    chk.ob("C08.receiver", "generative_step: observation = next_state.get_observation(action, "
           "result, self.fully_obs)", ok, detail, sh.fi.module.path)
