"""C18 - malformed scenario files are rejected.

The catalogue of the property statement is frozen as rule schemata (DESIGN.md A.3): each names a
subject of the YAML document `Y`, a predicate, the loops that must range over *all* entries and
the only presence condition under which the check may be skipped (optional keys).  For every
required conjunct the checker must find, in the abstract interpretation of ScenarioLoader.load
(all _parse_*/_validate_* helpers inlined, boolean helpers summarised as quantified formulas),
a *rejection guard* (assert T / if not T: raise) that
  - implies the conjunct (truth table over canonical atoms),
  - sits in exactly the required loops,
  - executes whenever the presence condition holds (must-execute: its residual path condition -
    what is not already established by earlier guards - is implied by the presence condition),
  - is not swallowed by an exception handler.
"""
from sa.canon import (A, f_and, f_or, f_not, f_implies, f_show, f_equiv, f_atoms, EXISTS_PRETTY,
                      f_subst)
from sa.model import AnalysisError
from . import loaderfacts

EXPLANATION = (
    "Abstract interpretation of ScenarioLoader.load over a symbolic YAML document: 58 guard "
    "events (assert / raise) with loop context and residual conditions are matched against 42 "
    "rejection schemata by truth-table implication; must-execute is decided from the residual "
    "path condition (what earlier guards have not already established).")


def ex(binder, body):
    from sa.canon import respell_loop
    primes = len(binder) - len(binder.rstrip("'"))
    return ("exists", respell_loop(binder.rstrip("'")) + "'" * primes, body)


def forall(binder, body):
    return f_not(ex(binder, f_not(body)))


def alt(*fs, strict=()):
    """alternatives: any one of them rejects the malformation; `strict` ones also reject, but
    demand more than documented (they fail the acceptance side, C17.accept)"""
    return ("alt", tuple(fs) + tuple(strict), len(fs))


def schemata(lf):
    cn, ip = lf.cn, lf.ip
    repo = ip.repo
    mod = repo.module(loaderfacts.LOADER_MOD)

    def const_show(name):
        import ast
        ok, v = repo.const(mod, ast.Name(id=name, ctx=ast.Load()))
        if not ok:
            raise AnalysisError(f"loader constant {name} not foldable")
        return cn.show(ip._const_term(v)), v
    ek, ekv = const_show("EXPLOIT_KEYS")
    pk, pkv = const_show("PRIVESC_KEYS")
    hk, hkv = const_show("HOST_CONFIG_KEYS")
    av, avv = const_show("VALID_ACCESS_VALUES")
    SUB, TOP = "Y['subnets']", "Y['topology']"
    E = "each(Y['exploits'].items())[1]"
    P = "each(Y['privilege_escalation'].items())[1]"
    HCI = "Y['host_configurations'].items()"
    HC, HK = f"each({HCI})[1]", f"each({HCI})[0]"
    SHI = "Y['sensitive_hosts'].items()"
    SK, SV = f"each({SHI})[0]", f"each({SHI})[1]"
    e0, e1 = f"eval({SK})[0]", f"eval({SK})[1]"
    FWI = f"{HC}['firewall'].items()"
    FK, FV = f"each({FWI})[0]", f"each({FWI})[1]"
    f0, f1 = f"eval({FK})[0]", f"eval({FK})[1]"
    SENS = f"{{eval({SK}): {SV} for each({SHI})}}"
    KEYS = "enumerate(Y['sensitive_hosts'])"

    def lenpos(x):
        return A(f"0<len({x})")

    def nodup(x):
        return A(f"len({x})==len(set({x}))")

    def valid_list(binder_elem, lst):
        """_is_valid_firewall_setting(lst): list, subset of services, no duplicates"""
        en = f"enumerate({lst})"
        return [A(f"list==type({lst})"),
                forall(lst, A(f"each({lst}) in Y['services']")),
                # no duplicates: pairwise over two positions, or as many distinct values as entries
                ("alt", (f_not(ex(en, ex(en + "'", f_and([f_not(A(f"each({en})'[0]==each({en})[0]")),
                                                          A(f"each({en})'[1]==each({en})[1]")])))),
                         nodup(lst)), 2)]

    def NORM(D):
        # the OS after normalisation: 'none' (any case) -> None, anything else unchanged
        return f"(str({D}['os']).lower()=='none' ? None : {D}['os'])"

    def action_schemata(prefix, D, items, keys_show, keyname, listname):
        L = [items]
        return [
            (f"{prefix}.dict", f"every {prefix} definition is a dict", L,
             [A(f"isinstance({D}, dict)")], None),
            (f"{prefix}.keys", f"every {prefix} definition has the five required keys",
             L + [f"{keys_show}.items()"],
             [A(f"each({keys_show}.items())[0] in {D}")], None),
            (f"{prefix}.types", f"every required {prefix} field has its documented type",
             L + [f"{keys_show}.items()"],
             [A(f"isinstance({D}[each({keys_show}.items())[0]], each({keys_show}.items())[1])")],
             None),
            (f"{prefix}.{keyname}", f"{prefix} {keyname} is a declared {keyname}", L,
             [A(f"{D}['{keyname}'] in Y['{listname}']")], None),
            (f"{prefix}.os", f"{prefix} OS is 'none' (any case) or a declared OS", L,
             [f_or([A(f"'none'==str({D}['os']).lower()"), A(f"None is {D}['os']"),
                    A(f"{D}['os'] in Y['os']")])], None),
            (f"{prefix}.prob", f"{prefix} probability within [0, 1]", L,
             [f_not(A(f"{D}['prob']<0")),
              alt(f_not(A(f"1<{D}['prob']")), f_not(A(f"1.0<{D}['prob']")),
                  strict=(A(f"{D}['prob']<1"), A(f"{D}['prob']<1.0")))], None),
            (f"{prefix}.cost", f"{prefix} cost > 0", L, [A(f"0<{D}['cost']")], None),
            (f"{prefix}.access", f"{prefix} access is a valid access value", L,
             [A(f"{D}['access'] in {av}")], None),
        ]
    S = [
        ("subnets.nonempty", "subnet list is not empty", [], [lenpos(SUB)], None),
        ("subnets.positive-int", "every subnet size is an int > 0", [SUB],
         [A(f"int is type(each({SUB}))"), A(f"0<each({SUB})")], None),
        ("topology.rows", "topology has one row per subnet (incl. internet)", [],
         [A(f"len({SUB})==len({TOP})")], None),
        ("topology.row-shape", "every topology row is a list of the right length", [TOP],
         [A(f"isinstance(each({TOP}), list)"), A(f"len({SUB})==len(each({TOP}))")], None),
        ("topology.cells", "every topology cell is the int 0 or 1", [TOP, f"each({TOP})"],
         [A(f"isinstance(each(each({TOP})), int)"),
          f_or([A(f"0==each(each({TOP}))"), A(f"1==each(each({TOP}))")])], None),
        ("os.nonempty", "OS list not empty", [], [lenpos("Y['os']")], None),
        ("services.nonempty", "service list not empty", [], [lenpos("Y['services']")], None),
        ("processes.nonempty", "process list not empty", [], [lenpos("Y['processes']")], None),
        ("os.unique", "OS list has no duplicates", [], [nodup("Y['os']")], None),
        ("services.unique", "service list has no duplicates", [], [nodup("Y['services']")], None),
        ("processes.unique", "process list has no duplicates", [], [nodup("Y['processes']")], None),
        ("sensitive.count", "between 1 and #hosts sensitive hosts", [],
         [lenpos("Y['sensitive_hosts']"),
          f_not(A(f"(sum({SUB})-1)<len(Y['sensitive_hosts'])"))], None),
        ("sensitive.address", "every sensitive address is a valid (subnet, host) pair", [SHI],
         [A(f"int is type({e0})"), f_not(A(f"{e0}<1")), f_not(A(f"len({SUB})<{e0}")),
          A(f"int is type({e1})"), f_not(A(f"{e1}<0")), A(f"{e1}<{SUB}[{e0}]")], None),
        ("sensitive.value", "every sensitive value is a number > 0", [SHI],
         [A(f"isinstance({SV}, (float, int))"), A(f"0<{SV}")], None),
        ("sensitive.distinct", "sensitive addresses are pairwise distinct after evaluation",
         [KEYS, KEYS], [f_not(A(f"eval(each({KEYS})'[1])==eval(each({KEYS})[1])"))],
         f_not(A(f"each({KEYS})'[0]==each({KEYS})[0]"))),
    ]
    S += action_schemata("exploit", E, "Y['exploits'].items()", ek, "service", "services")
    S += action_schemata("escalation", P, "Y['privilege_escalation'].items()", pk, "process",
                         "processes")
    en_sub = f"enumerate({SUB}[1:])"
    rg_sub = f"range(1, len({SUB}))"
    S += [
        ("hosts.count", "as many host configurations as hosts", [],
         [A(f"(sum({SUB})-1)==len(Y['host_configurations'])")], None),
        # (two enumerations of "every address of every non-internet subnet": the tail of the
        # subnet list counted from 0, or the subnet numbers 1..n-1 themselves)
        ("hosts.all-addresses", "a configuration for every address of the network", [],
         [("alt", (
             f_not(ex(en_sub, ex(f"range(each({en_sub})[1])", f_not(A(
                 f"str(((each({en_sub})[0]+1), each(range(each({en_sub})[1])))) in "
                 f"Y['host_configurations']"))))),
             f_not(ex(rg_sub, ex(f"range({SUB}[each({rg_sub})])", f_not(A(
                 f"str((each({rg_sub}), each(range({SUB}[each({rg_sub})])))) in "
                 f"Y['host_configurations']"))))),
         ), 2)], None),
        ("host.dict", "every host configuration is a dict", [HCI],
         [A(f"isinstance({HC}, dict)")], None),
        ("host.keys", "every host configuration has os, services, processes", [HCI, hk],
         [A(f"each({hk}) in {HC}")], None),
        ("host.services", "host services are declared and not duplicated",
         [HCI, f"{HC}['services']"], [A(f"each({HC}['services']) in Y['services']")], None),
        ("host.services-unique", "host services are not duplicated", [HCI],
         [nodup(f"{HC}['services']")], None),
        ("host.processes", "host processes are declared", [HCI, f"{HC}['processes']"],
         [A(f"each({HC}['processes']) in Y['processes']")], None),
        ("host.processes-unique", "host processes are not duplicated", [HCI],
         [nodup(f"{HC}['processes']")], None),
        ("host.os", "host OS is declared", [HCI], [A(f"{HC}['os'] in Y['os']")], None),
        ("host.firewall-dict", "a host firewall is a dict", [HCI],
         [A(f"isinstance({HC}['firewall'], dict)")], A(f"'firewall' in {HC}")),
        ("host.firewall-keys", "host firewall keys are valid addresses", [HCI, FWI],
         [f_not(A("except(Exception)")),
          A(f"isinstance(eval({FK}), tuple)"), A(f"2==len(eval({FK}))"),
          forall(f"eval({FK})", A(f"isinstance(each(eval({FK})), int)")),
          A(f"0<{f0}"), A(f"{f0}<len({SUB})"), f_not(A(f"{f1}<0")), A(f"{f1}<{SUB}[{f0}]")],
         A(f"'firewall' in {HC}")),
        ("host.firewall-values", "host firewall values are valid service lists", [HCI, FWI],
         valid_list(None, FV), A(f"'firewall' in {HC}")),
        ("host.value-numeric", "a host value is a number", [HCI],
         [A(f"isinstance({HC}['value'], (int, float))")], A(f"'value' in {HC}")),
        ("host.value-sensitive", "the value of a sensitive host matches the declared one", [HCI],
         [A(f"math.isclose({HC}['value'], {SENS}[eval({HK})])")],
         f_and([A(f"'value' in {HC}"), A(f"eval({HK}) in {SENS}")])),
    ]
    en_top = f"enumerate({TOP})"
    en_row = f"enumerate(each({en_top})[1])"
    src, dst = f"each({en_top})[0]", f"each({en_row})[0]"
    S += [
        ("firewall.pairs", "both directed rules exist for every connected pair", [],
         [f_not(ex(en_top, ex(en_row, f_and([
             f_not(A(f"{src}=={dst}")), A(f"1==each({en_row})[1]"),
             f_or([f_not(A(f"str(({src}, {dst})) in Y['firewall']")),
                   f_not(A(f"str(({dst}, {src})) in Y['firewall']"))])]))))], None),
        ("firewall.rules", "every rule is a duplicate-free list of declared services",
         ["Y['firewall'].values()"], valid_list(None, "each(Y['firewall'].values())"), None),
        ("step_limit.positive", "a step limit is > 0", [], [A("0<Y['step_limit']")],
         A("'step_limit' in Y")),
    ]
    return S, {"EXPLOIT_KEYS": ekv, "PRIVESC_KEYS": pkv, "HOST_CONFIG_KEYS": hkv,
               "VALID_ACCESS_VALUES": avv}


DOC_SECTIONS = {"subnets": "list", "topology": "list", "sensitive_hosts": "dict", "os": "list",
                "services": "list", "processes": "list", "exploits": "dict",
                "privilege_escalation": "dict", "service_scan_cost": "(int, float)",
                "subnet_scan_cost": "(int, float)", "os_scan_cost": "(int, float)",
                "process_scan_cost": "(int, float)", "host_configurations": "dict",
                "firewall": "dict"}
DOC_OPTIONAL = {"step_limit": "int"}
SCAN_KEYS = ["os_scan_cost", "service_scan_cost", "subnet_scan_cost", "process_scan_cost"]


import re as _re2
_NONE_SECTION = _re2.compile(r"None is Y\['[a-z_]+'\]")


def find_guard(lf, conj, loops, allowed, swallowed):
    """a guard that implies `conj`, in the required loops, executed whenever `allowed` holds"""
    near = None
    from sa.canon import respell_loop
    loops = [respell_loop(l) for l in loops]
    for g in lf.guards:
        if g in swallowed:
            continue
        res = lf.residual_formula(g)
        # the guard lets a document pass when it is not reached (not res) or its test holds; a
        # document within the (optional-key) presence condition must then satisfy the conjunct:
        #      allowed & (!res | F)  =>  conjunct
        passes = f_or([f_not(res), g.F]) if res != ("true",) else g.F
        # a section of the document is never None once it passed the section type table (a guard
        # of its own, C18.sections.types)
        passes = f_subst(passes, lambda a: ("false",) if _NONE_SECTION.fullmatch(a) else None)
        lhs = f_and([allowed, passes]) if allowed is not None else passes
        if not (f_atoms(conj) & f_atoms(lhs)):
            continue
        if not f_implies(g.F, conj) and not f_implies(lhs, conj):
            continue
        near = near or (g, "loops" if g.loops != loops else "residual")
        if g.loops != loops:
            continue
        if f_implies(lhs, conj):
            return g, None
        near = (g, "residual")
    # the same rule stated about the whole document: ALL[loops] conj must follow from some guard in
    # its own closed form (a guard written as `all(...)`, or a validation helper whose result is
    # tested once, has no loops of its own)
    from .loaderfacts import closed
    from sa.canon import deep_atoms
    want = closed(conj, loops)
    wa = deep_atoms(want)
    for g in lf.guards:
        if g in swallowed or g.loops == loops:
            continue
        res = lf.residual_formula(g)
        passes = f_or([f_not(res), g.F]) if res != ("true",) else g.F
        lhs = closed(passes, g.loops)
        if allowed is not None:
            if loops:
                continue          # presence conditions inside loops: only the direct form
            lhs = f_and([allowed, lhs])
        if not (wa & deep_atoms(lhs)):
            continue
        if f_implies(lhs, want):
            return g, None
    return None, near


def run(ctx, chk):
    chk.explanation = EXPLANATION
    lf = loaderfacts.facts(ctx)
    cn = lf.cn
    path = lf.fi.module.path
    chk.floor("C18.guards", len(lf.guards), 30, "rejection guards in the loader")
    # guards swallowed by an exception handler that does not re-raise
    swallowed = set()
    import ast
    for ev in lf.trys:
        body = ev.data["body"]
        reraises = any(isinstance(n, ast.Raise) for st in body for n in ast.walk(st))
        always = body and isinstance(body[-1], ast.Raise)
        # can a rejection be raised inside the protected block and be caught by this handler?
        # rejections are failed asserts (AssertionError), explicit raises, and whatever a repo
        # function called in the block raises; a handler for one specific built-in exception
        # around a block that only calls methods of plain containers catches none of them
        et = ev.data["etype"]
        tb = ev.data.get("try_body") or []
        nodes = [n for st_ in tb for n in ast.walk(st_)]
        broad = et in (None, "Exception", "BaseException", "AssertionError") or "(" in (et or "")
        raises_own = any(isinstance(n, ast.Raise) and n.exc is not None
                         and et is not None and et in ast.unparse(n.exc) for n in nodes)
        repo_call = any(isinstance(n, ast.Call) and (
            (isinstance(n.func, ast.Attribute) and isinstance(n.func.value, ast.Name)
             and n.func.value.id in ("self", "cls", "u", "utils"))
            or (isinstance(n.func, ast.Name) and n.func.id not in dir(__builtins__)
                and n.func.id not in ("str", "int", "float", "len", "tuple", "list", "set",
                                      "dict", "repr", "sorted", "range", "enumerate", "zip",
                                      "isinstance", "type", "min", "max", "sum", "any", "all")))
            for n in nodes)
        has_reject = any(isinstance(n, (ast.Assert, ast.Raise)) for n in nodes)
        can_swallow = repo_call or raises_own or (broad and has_reject)
        if not can_swallow and not always:
            chk.ob("C18.not-swallowed", f"except {et} handler cannot catch a rejection (the "
                   "protected block raises none of its own and calls no validation code)", True,
                   "", ev.loc)
            continue
        chk.ob("C18.not-swallowed", f"except {ev.data['etype']} handler re-raises", bool(always),
               "an exception handler around validation code that does not raise would swallow "
               "rejections", ev.loc)
    S, consts = schemata(lf)
    # the access-value table the guards test membership in is the documented one: the two names
    # and the two levels USER, ROOT (level 0 = no access is not a grantable level)
    from .c01 import access_levels
    lv = access_levels(ctx)
    avv = consts.get("VALID_ACCESS_VALUES")
    want_av = {"user", "root", lv["USER"], lv["ROOT"]}
    try:
        got_av = set(avv) if avv is not None else None
    except TypeError:
        got_av = None
    chk.ob("C18.access-table", "VALID_ACCESS_VALUES = {'user', 'root', USER, ROOT}",
           got_av == want_av and len(list(avv)) == len(want_av), f"{avv}", path)
    n = 0
    from sa.report import opaque_reason
    # (an `except` marker is a modelled handler path here, not an unknown value)
    opaque_guards = [g for g in lf.guards
                     if opaque_reason(f_show(g.F).replace("except(", "handler("))]
    for sid, title, loops, conjs, allowed in S:
        for c in conjs:
            alts = c[1] if c[0] == "alt" else (c,)
            hit, near = None, None
            for a in alts:
                hit, nr = find_guard(lf, a, loops, allowed, swallowed)
                near = near or nr
                if hit:
                    break
            n += 1
            want = " or ".join(f_show(a) for a in alts)
            detail = ""
            if not hit:
                if near:
                    g, why = near
                    if why == "loops":
                        detail = (f"a guard with this predicate exists at {g.loc} but in loops "
                                  f"{g.loops} instead of {loops} (does not range over all entries)")
                    else:
                        detail = (f"a guard with this predicate exists at {g.loc} but it only "
                                  f"executes under {f_show(lf.residual_formula(g))[:300]}"
                                  + (f" (allowed: {f_show(allowed)})" if allowed else
                                     " (must be unconditional)"))
                else:
                    detail = f"no rejection guard implies `{want[:300]}` (in loops {loops})"
                if opaque_guards:
                    # some guard of the loader could not be modelled: its absence from the match
                    # is not evidence that the file is accepted
                    og = opaque_guards[0]
                    chk.undecided(f"C18.{sid}", f"{title}: rejected unless {want[:260]}",
                                  f"the guard at {og.loc} ({og.func}) tests a value the analysis "
                                  f"does not model: {f_show(og.F)[:160]}", path)
                    continue
            chk.ob(f"C18.{sid}", f"{title}: rejected unless {want[:260]}", hit is not None,
                   detail, hit.loc if hit else path)
            if hit:
                chk.sample({"schema": sid, "guard_at": hit.loc, "guard": f_show(hit.F)[:200],
                            "loops": hit.loops})
    chk.extra["schemata"] = len(S)
    chk.extra["conjuncts"] = n
    # ---- section table (unknown / missing / mistyped sections)
    import ast as _a
    repo = ctx.repo
    mod = repo.module(loaderfacts.LOADER_MOD)
    okv, valid = repo.const(mod, _a.Name(id="VALID_CONFIG_KEYS", ctx=_a.Load()))
    oko, opt = repo.const(mod, _a.Name(id="OPTIONAL_CONFIG_KEYS", ctx=_a.Load()))

    def tname(v):
        return getattr(v, "text", None) or str(v)
    vt = {k: tname(v) for k, v in (valid or {}).items()}
    ot = {k: tname(v) for k, v in (opt or {}).items()}
    chk.ob("C18.sections.table", "required sections and their types are the documented ones",
           okv and vt == DOC_SECTIONS, f"{vt}", path)
    chk.ob("C18.sections.optional", "optional sections: step_limit (int)",
           oko and ot == DOC_OPTIONAL, f"{ot}", path)
    K = "each(Y)"
    vshow = cn.show(lf.ip._const_term(valid)) if okv else "?"
    oshow = cn.show(lf.ip._const_term(opt)) if oko else "?"
    # the two tables may be consulted one after the other, or merged into one ({**A, **B})
    merged = []
    if okv and oko:
        merged = [cn.show(lf.ip._const_term(dict(opt, **valid))),
                  cn.show(lf.ip._const_term(dict(valid, **opt)))]
    g1 = None
    for want_k in [f_or([A(f"{K} in {vshow}"), A(f"{K} in {oshow}")])] + \
            [A(f"{K} in {m_}") for m_ in merged]:
        g1, near = find_guard(lf, want_k, ["Y.items()"], None, swallowed)
        if g1 is not None:
            break
    other_tbl = [g for g in lf.guards if g.F[0] == "atom" and g.F[1].startswith(f"{K} in ")
                 and vshow not in g.F[1] and oshow not in g.F[1]]
    if g1 is None and other_tbl:
        chk.undecided("C18.sections.unknown", "every key of the document is a required or optional "
                      "section", "a membership guard over the keys exists, in a table that is not "
                      f"decoded: {f_show(other_tbl[0].F)[:200]}", path)
    else:
        chk.ob("C18.sections.unknown", "every key of the document is a required or optional "
               "section", g1 is not None, "" if g1 else "no guard over all keys of the document",
               path)
    tg0 = [g for g in lf.guards if g.loops == ["Y"] and lf.residual_formula(g) == ("true",)
           and f_show(g.F).startswith("isinstance(Y[each(Y)], ")]
    tg = [g for g in tg0 if (vshow in f_show(g.F) and oshow in f_show(g.F))
          or any(m_ in f_show(g.F) for m_ in merged)]
    if not tg and tg0:
        chk.undecided("C18.sections.types", "every section value is checked against the type table",
                      f"an isinstance guard over all sections exists, against a table that is not "
                      f"decoded: {f_show(tg0[0].F)[:200]}", path)
    else:
        chk.ob("C18.sections.types", "every section value is checked against the type table",
               len(tg) >= 1, f"{len(tg)} guard(s)", path)
    cnt = [g for g in lf.guards if not g.loops and lf.residual_formula(g) == ("true",)
           and f_show(g.F) in (f"!len(Y)<{len(DOC_SECTIONS)}", f"{len(DOC_SECTIONS) - 1}<len(Y)")]
    # every required section is read unconditionally (a missing one raises KeyError)
    sd, _ = lf.scenario_dict()
    sd_txt = cn.show(sd) if sd is not None else ""
    guards_txt = " ".join(f_show(g.F) for g in lf.guards)
    missing = [k for k in DOC_SECTIONS if f"Y['{k}']" not in sd_txt + guards_txt]
    chk.ob("C18.sections.missing", "a missing section is rejected (count guard, and every "
           "required section is subscripted unconditionally)", bool(cnt) and not missing,
           f"count guard: {bool(cnt)}; sections never read: {missing}", path)
    # scan costs
    for k in SCAN_KEYS:
        hit = None
        for g in lf.guards:
            if lf.residual_formula(g) != ("true",):
                continue
            fs = f_show(g.F)
            if fs == f"!Y['{k}']<0" and not g.loops:
                hit = g
            if len(g.loops) == 1 and f"Y['{k}']" in g.loops[0] \
                    and fs == f"!each({g.loops[0]})[1]<0":
                hit = g
        chk.ob("C18.scan-cost", f"{k} >= 0", hit is not None,
               "" if hit else "no unconditional guard rejects a negative value", path)
    chk.assume("python -O strips assert statements (interpreter flag outside the property's "
               "quantifier)")
    chk.assume("YAML-level duplicate keys are collapsed by PyYAML before NASim sees them")
    chk.assume("unparsable address strings raise inside eval(...) (accepted as rejection)")
