"""C15 - the generator returns a well-formed scenario for every documented-valid parameter set
(claimed for the structural clauses below; tree-topology index arithmetic is declined).

  C15.domain       head guards of generate() are the documented parameter minima
  C15.division     no `/ // %` in generator.py has a denominator interval containing 0 on the
                   documented domain (interval analysis; short-circuit refinements)
  C15.loop         every `while`: counter loop with unconditional progress, or retry-until-fresh
                   with a capacity guard; `while True` resampling is listed undecided
  C15.definitions  exploit / escalation definitions reference drawn members of the declared lists,
                   the requested cost, a probability from _get_action_probs, granted access in
                   {USER, ROOT} (escalations: ROOT)
  C15.probs        _get_action_probs: list / float branches guarded to (0, 1], 'mixed' levels literal
                   in (0, 1]
  C15.counts       os/services/processes are comprehensions over range(n); exploit / escalation
                   counter-insertion pairing; subnets partition num_hosts (div/mod chunking idiom);
                   one Host per address of every non-internet subnet
  C15.hosts        OS map one-hot by construction, >= 1 service/process in the correlated branch,
                   host value from sensitive_hosts.get(address, base_host_value)
  C15.firewall     a rule is stored for (src, dest) exactly under src != dest and topology[src][dest];
                   user<->user rules are set(services); cross-zone rules come from the destination's
                   vulnerable services, at most `restrictiveness` on the sampling branch
  C15.sensitive    (SENSITIVE, 0) -> r_sensitive and one user-zone address -> r_user
  C15.core-topology the literal 4x4 internet/DMZ/sensitive/user block: symmetric, self-connected,
                   only the DMZ touches the internet
"""
import ast
import itertools

from sa.canon import Canon, f_show, f_implies, f_equiv, A, f_and, f_not, f_or, f_atoms
from sa.interp import Interp, C
from sa.model import AnalysisError, canonical_tests
from . import intervals as iv

GEN_MOD = "nasim.scenarios.generator"
EXPLANATION = (
    "Abstract interpretation of each generator method with the generator object kept symbolic "
    "(terms over G.services, G.topology ...), an interval analysis of every division "
    "denominator under the documented parameter domain, and an AST classification of the "
    "while loops (counter / retry-until-fresh with capacity guard / unbounded resampling).")

DOC_DOMAIN = {   # documented minima (generate docstring)
    "num_hosts": ("2<num_hosts",), "num_services": ("0<num_services",), "num_os": ("0<num_os",),
    "num_processes": ("0<num_processes",), "r_sensitive": ("0<r_sensitive",),
    "r_user": ("0<r_user",), "alpha_H": ("0<alpha_H",), "alpha_V": ("0<alpha_V",),
    "lambda_V": ("0<lambda_V",), "restrictiveness": ("0<restrictiveness",),
}


def method_run(ctx, name, no_inline=(), trace_reads=()):
    fi = ctx.repo.func(GEN_MOD, f"ScenarioGenerator.{name}")
    ip = Interp(ctx.repo, ctx.types, param_types={fi.rparams[0]: "ScenarioGenerator"}
                if fi.flavour != "staticmethod" else {},
                no_inline=tuple(f"{GEN_MOD}:ScenarioGenerator.{n}" for n in no_inline))
    ip.trace_reads = frozenset(trace_reads)
    s = ip.run(fi)
    cn = Canon(ip, ctx.layout, names={("param", fi.rparams[0]): "G"})
    cn.written = None
    return fi, ip, s, cn


def run(ctx, chk):
    chk.explanation = EXPLANATION
    check_domain(ctx, chk)
    check_division(ctx, chk)
    check_loops(ctx, chk)
    check_definitions(ctx, chk)
    check_probs(ctx, chk)
    check_counts(ctx, chk)
    check_hosts(ctx, chk)
    check_firewall(ctx, chk)
    check_sensitive(ctx, chk)
    check_construct(ctx, chk)
    check_core_topology(ctx, chk)
    chk.assume("NOT decided (declined): positivity of the derived subnet sizes, symmetry / "
               "self-connection of the tree-shaped user topology and 'only the DMZ is public' for "
               "the generated tree are arithmetic facts about run-time integers")
    chk.assume("NOT decided: _permutations returns the all-False row last (uniform branch relies on "
               "[:-1] to exclude the empty configuration)")
    chk.assume("almost-sure termination of `while True` resampling loops is not a static fact")


# ------------------------------------------------------------------------------ (a)
def check_domain(ctx, chk):
    fi, ip, s, cn = method_run(ctx, "generate", no_inline=(
        "_generate_subnets", "_generate_topology", "_generate_address_space_bounds",
        "_generate_os", "_generate_services", "_generate_processes", "_generate_exploits",
        "_generate_privescs", "_generate_sensitive_hosts", "_generate_uniform_hosts",
        "_generate_correlated_hosts", "_ensure_host_vulnerability", "_generate_firewall",
        "_construct_scenario"))
    H = head_guard(s, ip, cn)
    for p, (atom,) in DOC_DOMAIN.items():
        ok = bool(f_implies(H, A(atom)))
        chk.ob("C15.domain", f"generate rejects parameters outside the documented domain: {atom}",
               ok, "" if ok else "no unconditional head guard implies it", fi.module.path)
    for p in ("num_exploits", "num_privescs"):
        want = f_or([A(f"None is {p}"), A(f"0<{p}")])
        ok = bool(f_implies(H, want))
        chk.ob("C15.domain", f"generate: {p} is None or > 0", ok, "", fi.module.path)
    # defaulting None -> num_services / num_processes dominates the use
    calls = {ev.data["fname"].split(".")[-1]: ev for ev in s.events if ev.kind == "call"
             and ev.data["fname"].startswith(GEN_MOD)}
    for meth, p, dflt in (("_generate_exploits", "num_exploits", "num_services"),
                          ("_generate_privescs", "num_privescs", "num_processes")):
        ev = calls.get(meth)
        ok = ev is not None and len(ev.data["args"]) >= 2 and \
            cn.show(ev.data["args"][1]) == f"({p} is None ? {dflt} : {p})"
        chk.ob("C15.counts", f"{meth} is asked for {p}, defaulting to {dflt} when None", ok,
               cn.show(ev.data["args"][1]) if ev and len(ev.data["args"]) >= 2 else "call not found",
               fi.module.path)
    chk.extra["head_guard"] = f_show(H)


def head_guard(s, ip, cn):
    """conjunction of the unconditional rejection guards (assert or if/raise) that `generate`
    executes before it calls anything of the generator"""
    from .loaderfacts import extract_guards
    first_call = min([ev.seq for ev in s.events if ev.kind == "call"
                      and ev.data["fname"].startswith(GEN_MOD)] or [10 ** 9])
    gs = [g for g in extract_guards(ip, cn, s.events)
          # (at any depth: a validation helper that is called unconditionally at the head and whose
          # asserts are unconditional in it is part of the head)
          if g.ev.seq < first_call and not g.loops and not g.residual]
    return f_and([g.F for g in gs])


# ------------------------------------------------------------------------------ (b)
def check_division(ctx, chk):
    repo = ctx.repo
    mod = repo.module(GEN_MOD)
    consts = {}
    for name, ex in mod.assigns.items():
        ok, v = repo.const(mod, ex)
        if ok and isinstance(v, (int, float)) and not isinstance(v, bool):
            consts[name] = v
    gcls = repo.cls(GEN_MOD, "ScenarioGenerator")
    gen = gcls.methods["generate"]
    # parameter intervals from the head guards of generate
    penv = {}
    fi_, ip_, s_, cn_ = method_run(ctx, "generate", no_inline=tuple(
        n for n in gcls.methods if n != "generate"))
    H = head_guard(s_, ip_, cn_)
    conjuncts = list(H[1]) if H[0] == "and" else [H]
    for p_ in gen.rparams[1:]:
        mine = [g for g in conjuncts if any(a.endswith(f"<{p_}") for a in f_atoms(g))]
        Hp = f_and(mine) if mine else ("true",)
        for c_ in (2, 1, 0):
            if mine and f_implies(Hp, A(f"{c_}<{p_}")):
                penv[p_] = iv.Iv(c_, iv.INF, True, True)
                break
    int_params = {"num_hosts", "num_services", "num_os", "num_processes", "restrictiveness"}
    for p in int_params & set(penv):
        penv[p] = iv.Iv(penv[p].lo, iv.INF, True, True, integer=True)
    # propagate parameter intervals along self.<method>(args) calls (same-name parameters)
    envs = {"generate": dict(penv)}
    work = ["generate"]
    seen = set()
    while work:
        fn = work.pop()
        if fn in seen or fn not in gcls.methods:
            continue
        seen.add(fn)
        m = gcls.methods[fn]
        env = local_env(m, envs.get(fn, {}), consts)
        for n in ast.walk(m.node):
            if isinstance(n, ast.Call) and isinstance(n.func, ast.Attribute) \
                    and isinstance(n.func.value, ast.Name) and n.func.value.id == "self" \
                    and n.func.attr in gcls.methods:
                callee = gcls.methods[n.func.attr]
                ce = envs.setdefault(callee.name, {})
                ps = callee.rparams[1:]
                for i, a in enumerate(n.args):
                    if i < len(ps):
                        v = iv.evaluate(a, env, consts)
                        if ps[i] not in ce:
                            ce[ps[i]] = v
                work.append(callee.name)
    n_sites = 0
    for name, m in gcls.methods.items():
        env = local_env(m, envs.get(name, {}), consts)
        parents = {}
        for n in ast.walk(m.node):
            for c in ast.iter_child_nodes(n):
                parents[c] = n
        for n in ast.walk(m.node):
            if isinstance(n, ast.BinOp) and isinstance(n.op, (ast.Div, ast.FloorDiv, ast.Mod)):
                n_sites += 1
                e2 = dict(env)
                # short-circuit context: `x == 0 or <... / f(x) ...>`
                q, child = parents.get(n), n
                while q is not None and not isinstance(q, ast.stmt):
                    if isinstance(q, ast.BoolOp) and isinstance(q.op, ast.Or):
                        idx = q.values.index(child) if child in q.values else None
                        if idx:
                            for left in q.values[:idx]:
                                if isinstance(left, ast.UnaryOp) and isinstance(left.op, ast.Not) \
                                        and isinstance(left.operand, ast.Name):
                                    # `not x or ...`: for an integer, x == 0
                                    left = ast.Compare(left=left.operand, ops=[ast.Eq()],
                                                       comparators=[ast.Constant(value=0)])
                                if isinstance(left, ast.Compare) and len(left.ops) == 1 \
                                        and isinstance(left.ops[0], ast.Eq):
                                    a_, b_ = left.left, left.comparators[0]
                                    if isinstance(a_, ast.Constant):
                                        a_, b_ = b_, a_          # 0 == x
                                    if isinstance(a_, ast.Name) and isinstance(b_, ast.Constant) \
                                            and b_.value == 0 and type(b_.value) is int \
                                            and a_.id in e2:
                                        e2[a_.id] = iv.refine_nonzero(e2[a_.id])
                    child, q = q, parents.get(q)
                d = iv.evaluate(n.right, e2, consts)
                construct = f"ScenarioGenerator.{name}: {alpha_norm(n)}"
                loc = f"{m.module.path}:{n.lineno}"
                if d is iv.TOP or (d.lo == -iv.INF and d.hi == iv.INF):
                    chk.undecided("C15.division", construct,
                                  f"denominator {ast.unparse(n.right)} cannot be bounded", loc)
                else:
                    chk.ob("C15.division", construct, not d.contains_zero(),
                           f"denominator {ast.unparse(n.right)} ranges over {d} on the documented "
                           "parameter domain, which contains 0", loc)
    chk.floor("C15.division", n_sites, 5, "division sites")


def alpha_norm(expr):
    """source text of an expression with its local variable names replaced by v1, v2, ... in order
    of first appearance (a finding is not re-keyed by renaming a parameter)"""
    import copy
    e = copy.deepcopy(expr)
    names = {}
    for n in ast.walk(e):
        if isinstance(n, ast.Name):
            names.setdefault(n.id, f"v{len(names) + 1}")
            n.id = names[n.id]
    return ast.unparse(e)


def local_env(m, penv, consts):
    env = dict(penv)
    for n in ast.walk(m.node):
        if isinstance(n, ast.For) and isinstance(n.target, ast.Name) \
                and isinstance(n.iter, ast.Call) and isinstance(n.iter.func, ast.Name) \
                and n.iter.func.id == "range":
            lo = 0
            if len(n.iter.args) >= 2:
                v = iv.evaluate(n.iter.args[0], env, consts)
                lo = v.lo if v.lo != -iv.INF else -iv.INF
            env[n.target.id] = iv.Iv(lo, iv.INF, False, True, integer=True)
    # counters: x = <int const> ... x += 1
    inits, incs = {}, set()
    for n in ast.walk(m.node):
        if isinstance(n, ast.Assign) and len(n.targets) == 1 and isinstance(n.targets[0], ast.Name) \
                and isinstance(n.value, ast.Constant) and isinstance(n.value.value, int) \
                and not isinstance(n.value.value, bool):
            inits.setdefault(n.targets[0].id, []).append(n.value.value)
        if isinstance(n, ast.AugAssign) and isinstance(n.target, ast.Name) \
                and isinstance(n.op, ast.Add) and isinstance(n.value, ast.Constant) \
                and isinstance(n.value.value, int) and n.value.value > 0:
            incs.add(n.target.id)
    for name, vals in inits.items():
        if name in incs and name not in env:
            env[name] = iv.Iv(min(vals), iv.INF, False, True, integer=True)
    # callers pass counters positionally (host_num): a parameter that is only ever incremented by
    # the caller is covered by the propagation in check_division
    return env


# ------------------------------------------------------------------------------ (c)
def check_loops(ctx, chk):
    gcls = ctx.repo.cls(GEN_MOD, "ScenarioGenerator")
    n = 0
    for name, m in gcls.methods.items():
        for w in [x for x in ast.walk(canonical_tests(m.node)) if isinstance(x, ast.While)]:
            n += 1
            loc = f"{m.module.path}:{w.lineno}"
            cond = ast.unparse(w.test)
            if isinstance(w.test, ast.Constant) and w.test.value is True:
                chk.undecided("C15.loop", f"ScenarioGenerator.{name}: while True [resampling until "
                              f"a condition holds]", "termination with probability 1 is not a "
                              "static fact", loc)
                continue
            kind, detail = classify_while(m, w, gcls)
            bound_txt = ast.unparse(w.test.comparators[0]) if isinstance(w.test, ast.Compare) \
                and len(w.test.comparators) == 1 else cond
            if bound_txt in m.params:
                # name the bound by the public generate() parameter that is passed for it (else by
                # its position): renaming / reordering the helper's parameters is not a new finding
                gen = gcls.methods.get("generate")
                pub = {a_ for call, nm in self_calls(gen) if nm == name
                       for p_, a_ in arg_map(call, m).items() if p_ == bound_txt} if gen else set()
                if len(pub) == 1 and next(iter(pub)) in gen.params:
                    bound_txt = f"generate()'s parameter {next(iter(pub))}"
                else:
                    bound_txt = f"parameter {m.params.index(bound_txt)} of the method"
            # (a loop bounded by a public parameter is identified by that parameter, whatever the
            # private helper it lives in is called)
            where = "ScenarioGenerator" if bound_txt.startswith("generate()'s parameter ") \
                else f"ScenarioGenerator.{name}"
            construct = f"{where}: while-loop bounded by {bound_txt} [{kind}]" \
                if kind != "unrecognised" else f"ScenarioGenerator.{name}: while {cond} [{kind}]"
            if kind == "unrecognised":
                chk.undecided("C15.loop", construct, "the loop is not a counter / retry-until-"
                              "fresh loop (`progress < bound`): like `while True` resampling, its "
                              "termination is not a static fact", loc)
                continue
            chk.ob("C15.loop", construct, kind in ("counter", "retry-until-fresh, capacity guard"),
                   detail, loc)
    chk.floor("C15.loop", n, 2, "while loops")


def self_calls(m):
    """calls `self.<method>(...)` in method m: [(call node, method name, {callee param: arg text})]
    (callee parameter names are resolved by the caller of this function)"""
    out = []
    selfn = m.rparams[0] if m.params else "self"
    for n in ast.walk(m.node):
        if isinstance(n, ast.Call) and isinstance(n.func, ast.Attribute) \
                and isinstance(n.func.value, ast.Name) and n.func.value.id == selfn:
            out.append((n, n.func.attr))
    return out


def arg_map(call, callee):
    """{callee parameter name: source text of the argument} for a `self.m(...)` call"""
    ps = callee.rparams[1:]
    out = {}
    for i, a in enumerate(call.args):
        if i < len(ps) and not isinstance(a, ast.Starred):
            out[ps[i]] = ast.unparse(a)
    for kw in call.keywords:
        if kw.arg:
            out[kw.arg] = ast.unparse(kw.value)
    return out


def capacity_guard_before(fn_node, lineno, pool, bound):
    """a dominating `if len(pool) < bound:` whose true branch leaves (continue/return/raise) before
    line `lineno`, or whose else branch contains that line"""
    for node in ast.walk(fn_node):
        if isinstance(node, ast.If) and node.lineno < lineno:
            c = node.test
            if isinstance(c, ast.Compare) and len(c.ops) == 1 and isinstance(c.ops[0], ast.Lt) \
                    and ast.unparse(c.left) == f"len({pool})" \
                    and ast.unparse(c.comparators[0]) == bound and node.body:
                if isinstance(node.body[-1], (ast.Continue, ast.Return, ast.Raise)):
                    return True
                if node.orelse and node.orelse[0].lineno <= lineno <= max(
                        getattr(x, "end_lineno", x.lineno) for x in node.orelse):
                    return True
    return False


def classify_while(m, w, cls=None):
    t = w.test
    if not (isinstance(t, ast.Compare) and len(t.ops) == 1 and isinstance(t.ops[0], ast.Lt)):
        return "unrecognised", "loop condition is not `progress < bound`"
    prog = ast.unparse(t.left)
    # progress statements: `x += 1` (counter) or `S.add(..)` for len(S)
    top_level_progress = False
    guarded = []
    skip_guards = []          # `if c: continue` statements that precede a top-level progress
    for st in w.body:
        if isinstance(st, ast.If) and st.body and isinstance(st.body[-1], ast.Continue) \
                and not st.orelse:
            skip_guards.append(st)
        if is_progress(st, prog):
            top_level_progress = True
            break
    if top_level_progress and skip_guards:
        # progress only when no earlier `continue` guard fires: conditional progress, written as
        # guard clauses; a guard `key in container` is the retry-until-fresh test
        top_level_progress = False
        g0 = skip_guards[-1]
        neg = ast.If(test=ast.UnaryOp(op=ast.Not(), operand=g0.test), body=[], orelse=[])
        if isinstance(g0.test, ast.Compare) and len(g0.test.ops) == 1 \
                and isinstance(g0.test.ops[0], ast.In):
            neg = ast.If(test=ast.Compare(left=g0.test.left, ops=[ast.NotIn()],
                                          comparators=g0.test.comparators), body=[], orelse=[])
        neg.body = [x for x in w.body if x is not g0]
        ast.copy_location(neg, g0)
        ast.fix_missing_locations(neg)
        guarded.append(neg)
    def has_progress(stmts):
        return any(is_progress(s, prog) for s in ast.walk(ast.Module(body=stmts, type_ignores=[]))
                   if isinstance(s, ast.stmt))
    for node in ast.walk(ast.Module(body=w.body, type_ignores=[])):
        if isinstance(node, ast.If):
            if has_progress(node.body):
                guarded.append(node)
            elif has_progress(node.orelse):
                # progress on the else side: the guard is the negated test
                neg = ast.If(test=ast.UnaryOp(op=ast.Not(), operand=node.test), body=node.orelse,
                             orelse=[])
                if isinstance(node.test, ast.Compare) and len(node.test.ops) == 1 \
                        and isinstance(node.test.ops[0], ast.In):
                    neg.test = ast.Compare(left=node.test.left, ops=[ast.NotIn()],
                                           comparators=node.test.comparators)
                ast.copy_location(neg, node)
                ast.fix_missing_locations(neg)
                guarded.append(neg)
    if top_level_progress:
        return "counter", ""
    if not guarded:
        return "no progress", f"no statement in the body advances {prog}"
    g = guarded[0]
    fresh = isinstance(g.test, ast.Compare) and isinstance(g.test.ops[0], ast.NotIn)
    if not fresh:
        return "conditional progress", f"{prog} advances only under {ast.unparse(g.test)}"
    # retry-until-fresh: the candidate is re-drawn each iteration; need a capacity guard:
    # (i) the drawn element is removed from its pool in the same block (every redraw is fresh), or
    # (ii) a dominating comparison relating the pool size to the bound
    pool = None
    for node in ast.walk(ast.Module(body=w.body, type_ignores=[])):
        if isinstance(node, ast.Call) and ast.unparse(node.func).endswith("random.choice") \
                and node.args:
            a = node.args[0]
            while isinstance(a, ast.Call) and a.args:
                a = a.args[0]
            pool = ast.unparse(a)
            break
    removed = any(isinstance(x, ast.Call) and isinstance(x.func, ast.Attribute)
                  and x.func.attr in ("remove", "discard", "pop")
                  and ast.unparse(x.func.value) == pool
                  for s in g.body for x in ast.walk(s))
    bound = ast.unparse(t.comparators[0])
    # the pool may be a sorted / listed / copied view of the collection whose size is guarded
    pools = {pool} if pool is not None else set()
    for _ in range(3):
        for n_ in ast.walk(m.node):
            if isinstance(n_, ast.Assign) and len(n_.targets) == 1 \
                    and isinstance(n_.targets[0], ast.Name):
                v_ = n_.value
                src_ = None
                if isinstance(v_, ast.Call) and isinstance(v_.func, ast.Name) \
                        and v_.func.id in ("sorted", "list", "set", "tuple") and len(v_.args) == 1:
                    src_ = ast.unparse(v_.args[0])
                elif isinstance(v_, ast.Call) and isinstance(v_.func, ast.Attribute) \
                        and v_.func.attr == "copy" and not v_.args:
                    src_ = ast.unparse(v_.func.value)
                elif isinstance(v_, (ast.Name, ast.Subscript, ast.Attribute)):
                    src_ = ast.unparse(v_)
                if src_ is not None and n_.targets[0].id in pools:
                    pools.add(src_)
                elif src_ in pools:
                    pools.add(n_.targets[0].id)
    guard = any(capacity_guard_before(canonical_tests(m.node), w.lineno, p_, bound) for p_ in pools)
    if not guard and pool is not None and cls is not None and pool in m.params \
            and bound in m.params:
        # the loop lives in a helper: the guard may sit in front of every call of the helper
        sites = []
        for caller in cls.methods.values():
            for call, name in self_calls(caller):
                if name == m.name:
                    am = arg_map(call, m)
                    ap = am.get(pool)
                    # a copy handed over (set(X), sorted(X), X.copy()) has X's size
                    for _ in range(3):
                        try:
                            e_ = ast.parse(ap, mode="eval").body if ap else None
                        except SyntaxError:
                            e_ = None
                        if isinstance(e_, ast.Call) and isinstance(e_.func, ast.Name) \
                                and e_.func.id in ("set", "list", "sorted", "tuple") \
                                and len(e_.args) == 1 and not e_.keywords:
                            ap = ast.unparse(e_.args[0])
                        elif isinstance(e_, ast.Call) and isinstance(e_.func, ast.Attribute) \
                                and e_.func.attr == "copy" and not e_.args:
                            ap = ast.unparse(e_.func.value)
                        else:
                            break
                    aps = {ap}
                    for n_ in ast.walk(caller.node):
                        # ... or a local name for X[...] assigned in the caller
                        if isinstance(n_, ast.Assign) and len(n_.targets) == 1 \
                                and isinstance(n_.targets[0], ast.Name) \
                                and n_.targets[0].id == ap:
                            aps.add(ast.unparse(n_.value))
                    sites.append(pool in am and bound in am and any(capacity_guard_before(
                        canonical_tests(caller.node), call.lineno, a_, am[bound]) for a_ in aps))
        guard = bool(sites) and all(sites)
    if removed and guard:
        return "retry-until-fresh, capacity guard", ""
    if guard:
        return "retry-until-fresh, capacity guard", ""
    return ("retry-until-fresh, no capacity guard",
            f"{prog} advances only when a re-drawn name is fresh ({ast.unparse(g.test)}); nothing "
            f"relates the number of distinct candidates to the bound {bound}, so for a "
            "documented-valid request larger than the candidate pool the loop never ends")


def is_progress(st, prog):
    if isinstance(st, ast.AugAssign) and isinstance(st.op, ast.Add) \
            and ast.unparse(st.target) == prog:
        return True
    # len(D) advances by D[key] = ... (a fresh key)
    if isinstance(st, ast.Assign) and len(st.targets) == 1 \
            and isinstance(st.targets[0], ast.Subscript) \
            and prog == f"len({ast.unparse(st.targets[0].value)})":
        return True
    if isinstance(st, ast.Expr) and isinstance(st.value, ast.Call) \
            and isinstance(st.value.func, ast.Attribute) and st.value.func.attr in ("add", "append") \
            and prog == f"len({ast.unparse(st.value.func.value)})":
        return True
    return False


# ------------------------------------------------------------------------------ (d)
def passed_as(ctx, caller, callee, public):
    """the callee's own name for the value the caller passes as `public` (private helpers:
    parameter names and positions are not an interface), or None"""
    got = {p_ for call, name in self_calls(caller) if name == callee.name
           for p_, a_ in arg_map(call, callee).items() if a_ == public}
    return got.pop() if len(got) == 1 else None


def probs_helper(ctx, meth, public):
    """(helper, spec parameter, count parameter) of the method that turns the public
    `exploit_probs` / `privesc_probs` specification into one probability per action: the callee
    that receives that specification inside the definition generator - found by what it is passed,
    not by its name"""
    gcls = ctx.repo.cls(GEN_MOD, "ScenarioGenerator")
    gen = ctx.repo.func(GEN_MOD, "ScenarioGenerator.generate")
    fi = ctx.repo.func(GEN_MOD, f"ScenarioGenerator.{meth}")
    spec = passed_as(ctx, gen, fi, public) or public
    for call, name in self_calls(fi):
        callee = gcls.methods.get(name)
        if callee is None:
            continue
        am = arg_map(call, callee)
        hit = [p_ for p_, a_ in am.items() if a_ == spec]
        if len(hit) == 1:
            rest = [p_ for p_ in callee.rparams[1:] if p_ != hit[0]]
            return callee, hit[0], (rest[0] if len(rest) == 1 else None)
    return None, None, None


def fresh_store_sites(fn):
    """[(assign node, guarded)] for every `D[key] = {...}` inside a while loop of fn: guarded when
    the statement is reached only under `key not in D` (an enclosing if, the else of `key in D`,
    or an earlier `if key in D: continue` of the same iteration)"""
    out = []

    def is_in(test, key, d, op):
        return isinstance(test, ast.Compare) and len(test.ops) == 1 \
            and isinstance(test.ops[0], op) and ast.unparse(test.left) == key \
            and ast.unparse(test.comparators[0]) == d

    def visit(stmts, guards):
        guards = set(guards)
        for st in stmts:
            if isinstance(st, ast.Assign) and len(st.targets) == 1 \
                    and isinstance(st.targets[0], ast.Subscript) \
                    and isinstance(st.value, ast.Dict) and st.value.keys:
                key, d = ast.unparse(st.targets[0].slice), ast.unparse(st.targets[0].value)
                out.append((st, (key, d) in guards))
            elif isinstance(st, ast.If):
                t = st.test
                pos = neg = None
                if isinstance(t, ast.Compare) and len(t.ops) == 1 \
                        and isinstance(t.ops[0], (ast.In, ast.NotIn)):
                    kd = (ast.unparse(t.left), ast.unparse(t.comparators[0]))
                    if isinstance(t.ops[0], ast.NotIn):
                        pos = kd
                    else:
                        neg = kd
                elif isinstance(t, ast.UnaryOp) and isinstance(t.op, ast.Not) \
                        and isinstance(t.operand, ast.Compare) and len(t.operand.ops) == 1 \
                        and isinstance(t.operand.ops[0], ast.In):
                    pos = (ast.unparse(t.operand.left), ast.unparse(t.operand.comparators[0]))
                visit(st.body, guards | ({pos} if pos else set()))
                visit(st.orelse, guards | ({neg} if neg else set()))
                # `if key in D: continue` : the rest of the iteration runs under key not in D
                if neg and st.body and isinstance(st.body[-1], (ast.Continue, ast.Break,
                                                                ast.Return, ast.Raise)):
                    guards.add(neg)
                if pos and st.orelse and isinstance(st.orelse[-1], (ast.Continue, ast.Break,
                                                                    ast.Return, ast.Raise)):
                    guards.add(pos)
            elif isinstance(st, (ast.For, ast.With, ast.Try)):
                for blk in ("body", "orelse", "finalbody"):
                    visit(getattr(st, blk, []) or [], guards)
    for w in ast.walk(fn):
        if isinstance(w, ast.While):
            visit(w.body, set())
    return out


def check_definitions(ctx, chk):
    for meth, field, pool, key2, cost_p, probs_p in (
            ("_generate_exploits", "service", "G.services", "exploits", "exploit_cost",
             "exploit_probs"),
            ("_generate_privescs", "process", "G.processes", "privescs", "privesc_cost",
             "privesc_probs")):
        ph, _, _ = probs_helper(ctx, meth, probs_p)
        ph_name = ph.name if ph is not None else "_get_action_probs"
        fi, ip, s, cn = method_run(ctx, meth, no_inline=(ph_name,))
        defs = [ev for ev in s.events if ev.kind == "store" and ev.data["target"] == "sub"
                and ev.data["value"][0] == "dictobj" and ip.heap[ev.data["value"][1]]["items"]]
        ok = len(defs) == 1
        if not ok:
            chk.ob("C15.definitions", f"{meth}: exactly one definition-insertion site", False,
                   f"{len(defs)} site(s)", fi.module.path)
            continue
        ev = defs[0]
        items = {k: cn.show(v) for k, v in ip.heap[ev.data["value"][1]]["items"].items()}
        # a definition is stored once: inside the drawing loop the store happens only for a name
        # that is not in the table yet (a name drawn again must not replace the earlier
        # definition - its probability is the one requested for *that* position)
        sites = fresh_store_sites(canonical_tests(fi.node))
        for node, guarded in sites:
            chk.ob("C15.definitions", f"{meth}: a definition is stored only under a name that is "
                   "not in the table yet (a name drawn twice does not overwrite the earlier "
                   "definition)", guarded,
                   f"`{ast.unparse(node.targets[0])} = ...` is not guarded by "
                   f"`{ast.unparse(node.targets[0].slice)} not in "
                   f"{ast.unparse(node.targets[0].value)}`: a repeated draw replaces the stored "
                   "definition (its probability, access level)",
                   f"{fi.module.path}:{node.lineno}", firm=True)
        counter = "exploits_added" if meth == "_generate_exploits" else "privescs_added"
        probs_call = [e for e in s.events if e.kind == "call"
                      and e.data["fname"].endswith("." + ph_name)]
        pc_show = cn.show(probs_call[0].data["result"]) if probs_call else "?"
        gen = ctx.repo.func(GEN_MOD, "ScenarioGenerator.generate")
        cost_p = passed_as(ctx, gen, fi, cost_p) or cost_p
        want = {field: f"np.random.choice({pool})", "cost": cost_p}
        for k, w in want.items():
            chk.ob("C15.definitions", f"{meth}: definition['{k}'] = {w}", items.get(k) == w,
                   str(items.get(k)), ev.loc)
        pv = items.get("prob", "")
        if not probs_call:
            chk.undecided("C15.definitions", f"{meth}: definition['prob'] is an element of the "
                          "per-action probabilities computed from the specification",
                          "the helper that receives the probability specification was not found; "
                          f"definition['prob'] = {pv[:120]}", ev.loc)
        else:
            chk.ob("C15.definitions", f"{meth}: definition['prob'] is an element of "
                   "_get_action_probs(count, spec)", pv.startswith(pc_show + "["), pv[:160], ev.loc)
        osv = items.get("os", "")
        if meth == "_generate_exploits":
            chk.ob("C15.definitions", f"{meth}: definition['os'] drawn from declared OSs or None",
                   osv == "np.random.choice((G.os+[None]))", osv, ev.loc)
            chk.ob("C15.definitions", f"{meth}: granted access drawn from {{USER, ROOT}}",
                   items.get("access") == "np.random.randint(1, 3)", str(items.get("access")),
                   ev.loc)
        else:
            okos = "np.random.choice((G.os+[None])" in osv and "[None" in osv
            chk.ob("C15.definitions", f"{meth}: definition['os'] is an element of os_choices (drawn "
                   "from declared OSs or None)", okos, osv[:200], ev.loc)
            chk.ob("C15.definitions", f"{meth}: escalations grant ROOT", items.get("access") == "2",
                   str(items.get("access")), ev.loc)


# ------------------------------------------------------------------------------ (e)
def check_probs(ctx, chk):
    ph, spec_p, count_p = probs_helper(ctx, "_generate_exploits", "exploit_probs")
    fi, ip, s, cn = method_run(ctx, ph.name if ph is not None else "_get_action_probs")
    from .loaderfacts import extract_guards, closed
    gs = extract_guards(ip, cn, s.events)
    guards = [(closed(g.F, g.loops), g) for g in gs]
    P = spec_p if ph is not None else fi.rparams[2]
    N = count_p if ph is not None and count_p else fi.rparams[1]
    want_float = f_and([A(f"0.0<{P}"), f_not(A(f"1.0<{P}"))])
    want_list = closed(f_and([A(f"0.0<each({P})"), f_not(A(f"1.0<each({P})"))]), [P])
    okf = any(f_equiv(F, want_float) for F, _ in guards)
    okl = any(f_equiv(F, want_list) for F, g in guards)
    chk.ob("C15.probs", "_get_action_probs: a float specification is guarded to (0, 1]", okf,
           str([f_show(F) for F, _ in guards]), fi.module.path)
    chk.ob("C15.probs", "_get_action_probs: every element of a list specification is guarded to "
           "(0, 1]", okl, "", fi.module.path)
    lens = any(f_show(F) == f"len({P})=={N}" for F, _ in guards)
    chk.ob("C15.probs", "_get_action_probs: a list specification has one entry per action", lens, "",
           fi.module.path)
    # accept side: every rejection guard of the function is one of the documented ones - a
    # specification in the documented domain (None, 'mixed', list of (0,1], float in (0,1]) is
    # never rejected
    allowed = [want_float, want_list, A(f"len({P})=={N}"),
               A(f"isinstance({P}, float)")]
    for F, g in guards:
        ok_g = any(f_equiv(F, a) for a in allowed)
        chk.ob("C15.probs", f"_get_action_probs: the guard at line {g.loc.split(':')[1]} rejects "
               "only specifications outside the documented domain", ok_g, f_show(F)[:200], g.loc,
               nontrivial=False)
    # 'mixed' levels: the population np.random.choice draws from (the call that carries p=...) is
    # made of literals in (0, 1], on every path
    bad = []
    nlev = 0

    def leaves(t):
        if t[0] == "phi":
            return leaves(t[2]) + leaves(t[3])
        if t[0] == "cases":
            return [x for _, v in t[1] for x in leaves(v)]
        return [t]
    und = None
    for ev in s.events:
        if ev.kind == "call" and ev.data["fname"] == "numpy.random.choice" \
                and "p" in dict(ev.data.get("kwargs") or ()) and ev.data["args"]:
            for lf_ in leaves(ev.data["args"][0]):
                els = ip._literal_elements(lf_)
                if els is None:
                    und = cn.show(lf_)
                    continue
                for e in els:
                    nlev += 1
                    if not (e[0] == "const" and isinstance(e[1], (int, float))
                            and not isinstance(e[1], bool) and 0 < e[1] <= 1):
                        bad.append(cn.show(e))
    if und is not None and not bad:
        chk.undecided("C15.probs", "_get_action_probs: 'mixed' levels are literals in (0, 1]",
                      f"population of the weighted draw is not a literal list: {und[:120]}",
                      fi.module.path)
    else:
        chk.ob("C15.probs", "_get_action_probs: 'mixed' levels are literals in (0, 1]",
               nlev >= 2 and not bad, f"{nlev} level literal(s); outside (0,1]: {bad}",
               fi.module.path)
    # None branch: the raw draw random_sample(n) lies in [0, 1) (0.0 has probability 2^-53: noted);
    # any quantisation of it makes exactly 0.0 (or 1.0 -> fine) a likely value
    none_vals = [t for pc, t in s.returns
                 if any(f_show(cn.formula(c)) == f"None is {P}" for c in pc if c[0] != "fact")]

    def none_branch(t):
        if t[0] == "phi":
            if f_show(cn.formula(t[1])) == f"None is {P}":
                return [t[2]]
            return none_branch(t[2]) + none_branch(t[3])
        return []
    for pc, t in s.returns:
        none_vals += none_branch(t)
    n_arg = N
    for t in none_vals:
        txt = cn.show(t)
        raw = f"np.random.random_sample({n_arg})"
        if txt == raw:
            chk.ob("C15.probs", "_get_action_probs: unspecified probabilities are raw uniform draws "
                   "from [0, 1)", True, "", fi.module.path)
        elif raw in txt and any(q in txt for q in ("round(", "around(", "floor(", "trunc(",
                                                    "astype(", "rint(", "//", "fix(")):
            chk.ob("C15.probs", "_get_action_probs: unspecified probabilities are raw uniform draws "
                   "from [0, 1)", False, f"the draw is quantised ({txt}): exactly 0.0 becomes a likely "
                   "value, outside the documented (0, 1]", fi.module.path)
        else:
            chk.undecided("C15.probs", "_get_action_probs: value returned when the probabilities are "
                          "unspecified", txt[:200], fi.module.path)


# ------------------------------------------------------------------------------ (i)
def check_counts(ctx, chk):
    for meth, attr, par in (("_generate_os", "os", "num_os"),
                            ("_generate_services", "services", "num_services"),
                            ("_generate_processes", "processes", "num_processes")):
        fi, ip, s, cn = method_run(ctx, meth)
        st = [ev for ev in s.events if ev.kind == "store" and ev.data.get("name") == attr]
        ok = len(st) == 1 and st[0].data["value"][0] == "comp" and \
            cn.show(st[0].data["value"][3][0][1]) == f"range({fi.rparams[1]})" and \
            not st[0].data["value"][3][0][2]
        # element is an f-string of the loop variable => distinct names
        distinct = False
        for n in ast.walk(fi.node):
            if isinstance(n, ast.ListComp) and isinstance(n.elt, ast.JoinedStr):
                tv = n.generators[0].target
                distinct = any(isinstance(v, ast.FormattedValue) and isinstance(v.value, ast.Name)
                               and isinstance(tv, ast.Name) and v.value.id == tv.id
                               for v in n.elt.values)
        chk.ob("C15.counts", f"{meth}: exactly {par} distinct names (comprehension over range({par}) "
               "formatting the index)", ok and distinct,
               cn.show(st[0].data["value"]) if st else "no store", fi.module.path)
    # counter-insertion pairing
    gcls = ctx.repo.cls(GEN_MOD, "ScenarioGenerator")
    for meth, counter in (("_generate_exploits", "exploits_added"),
                          ("_generate_privescs", "privescs_added")):
        m = gcls.methods[meth]
        ok, detail = counter_pairing(m)
        desc = (f"{meth}: the count of definitions advances by exactly one with each insertion of a "
                "fresh key, and the loop exits when it reaches the requested number")
        if ok is None:
            chk.undecided("C15.counts", desc, detail, f"{m.module.path}:{m.node.lineno}")
        else:
            chk.ob("C15.counts", desc, ok, detail, f"{m.module.path}:{m.node.lineno}")
    # subnets partition
    fi, ip, s, cn = method_run(ctx, "_generate_subnets")
    st = [ev for ev in s.events if ev.kind == "store" and ev.data.get("name") == "subnets"]
    N = fi.rparams[1]
    ok = False
    detail = "no store to self.subnets"
    if len(st) == 1:
        # however the list is put together (literal elements, appends, `+` / `+=` of a repeated
        # element): its parts in order, as (kind, element, count | condition)
        from .shapes import list_elements
        v = st[0].data["value"]
        U = f"(({N}-math.ceil(({N}/40)))-math.ceil(({N}/41)))"

        def parts(t):
            if t[0] == "bin" and t[1] == "+":
                a, b = parts(t[2]), parts(t[3])
                return None if a is None or b is None else a + b
            if t[0] == "bin" and t[1] == "*":
                for lst, cnt in ((t[2], t[3]), (t[3], t[2])):
                    le = list_elements(ip, cn, lst)
                    if le is not None and len(le) == 1 and not le[0][1] and not le[0][2]:
                        return [("repeat", cn.show(le[0][0]), cn.show(cnt))]
                return None
            le = list_elements(ip, cn, t)
            if le is None:
                return None
            out = []
            for e, loops, conds in le:
                if loops:
                    return None
                out.append(("one", cn.show(e), f_show(f_and([cn.formula(c) for c in conds]))))
            return out
        ps = parts(v)
        # elements appended to the finished list value
        late = [ev for ev in s.events if ev.kind == "mcall" and ev.data["name"] == "append"
                and ev.data["recv"] == v]
        for ev in late:
            ps = None if ps is None else ps + [("one", cn.show(ev.data["args"][0]), f_show(cn.conj(
                tuple(c for c in ev.pc if c[0] != "fact"))))]
        want = [("one", "1", "TRUE"), ("one", f"math.ceil(({N}/40))", "TRUE"),
                ("one", f"math.ceil(({N}/41))", "TRUE"), ("repeat", "5", f"({U}//5)"),
                ("one", f"({U}%5)", f"!({U}%5)==0")]
        detail = cn.show(v)[:300] if ps is None else str(ps)
        if ps is None:
            chk.undecided("C15.counts", "_generate_subnets: subnets = [1, dmz, sensitive] + "
                          "chunks(u, 5) with u = num_hosts - dmz - sensitive (div/mod partition => "
                          "sizes sum to num_hosts)", "the list stored into self.subnets is not a "
                          "concatenation of literal elements, appends and one repeated element: "
                          + detail, fi.module.path)
        ok = ps == want
    if len(st) != 1 or ps is not None:
        chk.ob("C15.counts", "_generate_subnets: subnets = [1, dmz, sensitive] + chunks(u, 5) with "
               "u = num_hosts - dmz - sensitive (div/mod partition => sizes sum to num_hosts)", ok,
               detail, fi.module.path)
    # hosts: one per address of every non-internet subnet
    for meth in ("_generate_uniform_hosts", "_generate_correlated_hosts"):
        fi, ip, s, cn = method_run(ctx, meth, no_inline=(
            "_possible_host_configs", "_get_host_config", "_convert_to_os_map",
            "_convert_to_service_map", "_convert_to_process_map", "_get_host_value"))
        news = [ev for ev in s.events if ev.kind == "new" and ev.data["cls"] == "Host"]
        stores = [ev for ev in s.events if ev.kind == "store" and ev.data["target"] == "sub"
                  and ev.data["value"][0] == "new" and ev.data["value"][1] == "Host"]
        ok = len(news) == 1 and len(stores) == 1
        detail = f"{len(news)} Host construction(s), {len(stores)} store(s)"
        if ok:
            ev = stores[0]
            E = "each(enumerate(G.subnets))"
            idx = cn.show(ev.data["idx"])
            cond = f_show(cn.conj(tuple(c for c in ev.pc if c[0] not in ("inloop", "fact"))))
            loops = [cn.show(ip.loops[c[1]]["iter"]) for c in ev.pc if c[0] == "inloop"]
            addr = cn.show(dict(news[0].data["kwargs"]).get("address", C(None)))
            # two enumerations of "every (subnet, index) of every non-internet subnet": all
            # subnets with subnet 0 skipped, or the tail subnets[1:] counted from 1
            E2 = "each(enumerate(G.subnets[1:]))"
            form_a = idx == f"({E}[0], each(range({E}[1])))" and cond == f"!0=={E}[0]" and \
                loops == ["enumerate(G.subnets)", f"range({E}[1])"]
            form_b = idx == f"(({E2}[0]+1), each(range({E2}[1])))" and cond == "TRUE" and \
                loops == ["enumerate(G.subnets[1:])", f"range({E2}[1])"]
            ok = (form_a or form_b) and addr == idx
            detail = f"hosts[{idx}] under {cond} in loops {loops}; Host(address={addr})"
        chk.ob("C15.counts", f"{meth}: one Host per (subnet, index) of every non-internet subnet, "
               "stored under its own address", ok, detail, fi.module.path)


def counter_pairing(m):
    """while c < n: ... if key not in D: D[key] = ...; c += 1"""
    mnode = canonical_tests(m.node)
    ws = [x for x in ast.walk(mnode) if isinstance(x, ast.While)
          and isinstance(x.test, ast.Compare) and isinstance(x.test.ops[0], ast.Lt)
          and isinstance(x.test.left, ast.Name)]
    for w in ws:
        c = w.test.left.id
        init = [n for n in ast.walk(mnode) if isinstance(n, ast.Assign)
                and isinstance(n.targets[0], ast.Name) and n.targets[0].id == c]
        incs = [n for n in ast.walk(mnode) if isinstance(n, ast.AugAssign)
                and isinstance(n.target, ast.Name) and n.target.id == c]
        if len(init) != 1 or not (isinstance(init[0].value, ast.Constant)
                                  and init[0].value.value == 0):
            continue
        if len(incs) != 1 or not (isinstance(incs[0].op, ast.Add)
                                  and isinstance(incs[0].value, ast.Constant)
                                  and incs[0].value.value == 1):
            return False, f"counter {c} is not incremented by exactly 1 in exactly one place"
        # the increment sits in an `if key not in D:` block that also stores D[key]
        for node in ast.walk(w):
            arm = node.body if isinstance(node, ast.If) and incs[0] in node.body else \
                node.orelse if isinstance(node, ast.If) and incs[0] in node.orelse else None
            if arm is not None:
                t = node.test
                # (`if key not in D: <store, count>` or, with an else branch and the test
                # written positively, `if key in D: ... else: <store, count>`)
                if isinstance(t, ast.Compare) and isinstance(
                        t.ops[0], ast.NotIn if arm is node.body else ast.In):
                    key, d = ast.unparse(t.left), ast.unparse(t.comparators[0])
                    ins = [s for s in arm if isinstance(s, ast.Assign)
                           and isinstance(s.targets[0], ast.Subscript)
                           and ast.unparse(s.targets[0].value) == d
                           and ast.unparse(s.targets[0].slice) == key]
                    other_ins = [s for s in ast.walk(mnode) if isinstance(s, ast.Assign)
                                 and isinstance(s.targets[0], ast.Subscript)
                                 and ast.unparse(s.targets[0].value) == d and s not in ins]
                    if len(ins) == 1 and not other_ins:
                        return True, ""
                    return False, f"insertions into {d}: {len(ins)} paired, {len(other_ins)} other"
                return False, f"increment of {c} is not under a freshness test"
        return False, f"increment of {c} is not paired with an insertion"
    # the count may be the size of the definitions dict itself: `while len(D) < n` with insertions
    # D[key] = ... only (no deletions) is paired by construction
    for w in ast.walk(mnode):
        if isinstance(w, ast.While) and isinstance(w.test, ast.Compare) \
                and len(w.test.ops) == 1 and isinstance(w.test.ops[0], ast.Lt):
            left = w.test.left
            if isinstance(left, ast.Call) and isinstance(left.func, ast.Name) \
                    and left.func.id == "len" and len(left.args) == 1:
                d = ast.unparse(left.args[0])
                removes = [n for n in ast.walk(mnode) if isinstance(n, ast.Call)
                           and isinstance(n.func, ast.Attribute)
                           and n.func.attr in ("pop", "popitem", "clear")
                           and ast.unparse(n.func.value) == d] + \
                          [n for n in ast.walk(mnode) if isinstance(n, ast.Delete)]
                if not removes:
                    return True, ""
                return False, f"{d} also shrinks inside the generating loop"
    return None, "generating loop `while counter < n` not found"


# ------------------------------------------------------------------------------ (f)
def check_hosts(ctx, chk):
    fi, ip, s, cn = method_run(ctx, "_convert_to_os_map")
    from .shapes import as_mapping
    mp = as_mapping(ip, cn, s.returns[0][1]) if len(s.returns) == 1 else None
    rt = s.returns[0][1] if len(s.returns) == 1 else None
    if rt is not None and rt[0] == "dictobj" and not ip.heap[rt[1]]["items"] \
            and not ip.heap[rt[1]]["dyn"]:
        chk.ob("C15.hosts", "_convert_to_os_map: os_map[name] = (name == os) for every declared OS "
               "(one-hot by construction)", False, "the returned dict is never filled",
               fi.module.path)
    elif mp is None:
        chk.undecided("C15.hosts", "_convert_to_os_map: os_map[name] = (name == os) for every "
                      "declared OS (one-hot by construction)", "the returned value is not a "
                      "mapping built uniformly over one iterable: "
                      + str([cn.show(t)[:120] for _, t in s.returns]), fi.module.path)
    else:
        ks, vs, loops, cond = mp
        x, y = sorted(["each(G.os)", fi.rparams[1]])
        ok = ks == "each(G.os)" and vs == f"{x}=={y}" and loops == ["G.os"] \
            and cond == ("true",)
        chk.ob("C15.hosts", "_convert_to_os_map: os_map[name] = (name == os) for every declared OS "
               "(one-hot by construction)", ok, str(mp), fi.module.path)
    fi, ip, s, cn = method_run(ctx, "_dirichlet_process")
    st = [ev for ev in s.events if ev.kind == "store" and ev.data["target"] == "sub"
          and ev.data["value"] == C(True)]
    ok = len(st) == 1
    detail = f"{len(st)} True store(s)"
    if ok:
        loops = [cn.show(ip.loops[c[1]]["iter"]) for c in st[0].pc if c[0] == "inloop"]
        cond = [c for c in st[0].pc if c[0] not in ("inloop", "fact")]
        import re as _re
        # (whichever parameter carries the Poisson mean: the helper may be a static method)
        ok = len(loops) == 1 and not cond and _re.fullmatch(
            r"range\(max\(np\.random\.poisson\(\w+\), 1\)\)", loops[0]) is not None
        detail = f"loops {loops}, condition {f_show(cn.conj(tuple(cond)))}"
    chk.ob("C15.hosts", "_dirichlet_process: at least one option set (loop over "
           "range(max(poisson, 1)) sets an entry unconditionally)", ok, detail, fi.module.path)
    check_permutations(ctx, chk)
    fi, ip, s, cn = method_run(ctx, "_get_host_value")
    txt = [cn.show(t) for _, t in s.returns]
    A_ = fi.rparams[1]
    chk.ob("C15.hosts", "_get_host_value = sensitive_hosts.get(address, base_host_value)",
           txt in ([f"G.sensitive_hosts.get({A_}, G.base_host_value)"],
                   [f"({A_} in G.sensitive_hosts ? G.sensitive_hosts[{A_}] : G.base_host_value)"]),
           str(txt), fi.module.path)


def check_permutations(ctx, chk):
    """uniform branch: _possible_host_configs drops one row of _permutations(n); that row must be
    the all-False one.  Two shapes of _permutations are recognised; anything else is undecided."""
    gcls = ctx.repo.cls(GEN_MOD, "ScenarioGenerator")
    pm = gcls.methods.get("_permutations")
    ph = gcls.methods.get("_possible_host_configs")
    if pm is None or ph is None:
        chk.undecided("C15.hosts", "uniform branch: configuration enumeration helpers not found")
        return
    last_false = first_false = None     # is the last / first row all False?
    # shape (a): recursion  base [[True],[False]] ; step appends [True]+p then [False]+p
    base = [n for n in ast.walk(pm.node) if isinstance(n, ast.Return)
            and isinstance(n.value, ast.List) and n.value.elts
            and all(isinstance(e, ast.List) for e in n.value.elts)]
    loops = [n for n in ast.walk(pm.node) if isinstance(n, ast.For)
             and isinstance(n.iter, ast.Call) and "_permutations" in ast.unparse(n.iter.func)]
    if base and loops:
        rows = [[getattr(x, "value", None) for x in e.elts] for e in base[-1].value.elts]
        apps = [st.value.args[0] for st in loops[0].body if isinstance(st, ast.Expr)
                and isinstance(st.value, ast.Call) and isinstance(st.value.func, ast.Attribute)
                and st.value.func.attr == "append" and st.value.args]

        def head(a):
            if isinstance(a, ast.BinOp) and isinstance(a.op, ast.Add) \
                    and isinstance(a.left, ast.List) and len(a.left.elts) == 1 \
                    and isinstance(a.left.elts[0], ast.Constant) \
                    and isinstance(a.right, ast.Name) and a.right.id == ast.unparse(loops[0].target):
                return a.left.elts[0].value
            return "?"
        if apps and all(head(a) in (True, False) for a in apps) and len(apps) == len(loops[0].body):
            last_false = rows[-1] == [False] and head(apps[-1]) is False
            first_false = rows[0] == [False] and head(apps[0]) is False
    # shape (b): itertools.product(<literal list>, repeat=n)
    for n in ast.walk(pm.node):
        if isinstance(n, ast.Call) and ast.unparse(n.func).endswith("product") and n.args \
                and isinstance(n.args[0], (ast.List, ast.Tuple)) \
                and all(isinstance(e, ast.Constant) for e in n.args[0].elts) \
                and any(k.arg == "repeat" for k in n.keywords):
            vals = [e.value for e in n.args[0].elts]
            last_false, first_false = vals[-1] is False, vals[0] is False
    # which row does _possible_host_configs drop?
    drops = set()
    for n in ast.walk(ph.node):
        if isinstance(n, ast.Subscript) and isinstance(n.slice, ast.Slice) \
                and "_permutations" in ast.unparse(n.value):
            sl = ast.unparse(n.slice)
            drops.add({":-1": "last", "1:": "first"}.get(sl, sl))
    if last_false is None or not drops:
        chk.undecided("C15.hosts", "uniform branch: the all-False configuration is excluded",
                      "shape of _permutations / of the slice not recognised", pm.module.path)
        return
    # which list sizes the two configuration pools are enumerated for: services first, processes
    # second (that is how _generate_uniform_hosts consumes the pair)
    fi_, ip_, s_, cn_ = method_run(ctx, "_possible_host_configs", no_inline=("_permutations",))
    sizes = None
    if len(s_.returns) == 1 and s_.returns[0][1][0] == "tuple" and len(s_.returns[0][1][1]) == 2:
        sizes = []
        for part in s_.returns[0][1][1]:
            calls_ = []

            def walk(t):
                if isinstance(t, tuple):
                    if len(t) >= 3 and t[0] == "call" and isinstance(t[1], str) \
                            and t[1].endswith("._permutations"):
                        calls_.append(t)
                    for x in t:
                        walk(x)
            walk(part)
            sizes.append(cn_.show(calls_[0][2][-1]) if len(calls_) == 1 and calls_[0][2] else None)
    desc_sz = ("uniform branch: service configurations are enumerated for len(services), process "
               "configurations for len(processes)")
    if sizes is None or None in sizes:
        chk.undecided("C15.hosts", desc_sz, "the pair returned by _possible_host_configs is not "
                      f"decoded: {[cn_.show(t)[:80] for _, t in s_.returns]}", ph.module.path)
    else:
        chk.ob("C15.hosts", desc_sz, sizes == ["len(G.services)", "len(G.processes)"], str(sizes),
               f"{ph.module.path}:{ph.node.lineno}")
    ok = (drops == {"last"} and last_false) or (drops == {"first"} and first_false)
    chk.ob("C15.hosts", "uniform branch: the one configuration dropped from _permutations(n) is the "
           "all-False row (every host keeps >= 1 service and >= 1 process)", bool(ok),
           f"dropped row: {sorted(drops)}; last row all-False: {last_false}; first row all-False: "
           f"{first_false}", f"{ph.module.path}:{ph.node.lineno}")


# ------------------------------------------------------------------------------ (g)
def check_firewall(ctx, chk):
    fi, ip, s, cn = method_run(ctx, "_generate_firewall",
                               no_inline=("_host_is_vulnerable_to_exploit",))
    R = fi.rparams[1]
    N = "range(len(G.subnets))"
    SRC, DST = f"each({N})", f"each({N})'"
    stores = [ev for ev in s.events if ev.kind == "store" and ev.data["target"] == "sub"
              and cn.show(ev.data["idx"]) == f"({SRC}, {DST})"]
    chk.ob("C15.firewall", "_generate_firewall stores rules only under key (src, dest) of the "
           "double loop over all subnets", len(stores) >= 1, f"{len(stores)} store site(s)",
           fi.module.path)
    x, y = sorted([SRC, DST])
    connected = f_and([f_not(A(f"{x}=={y}")), A(f"G.topology[{SRC}][{DST}]")])
    userzone = f_and([A(f"2<{SRC}"), A(f"2<{DST}")])
    conds = []
    for ev in stores:
        F = cn.conj(tuple(c for c in ev.pc if c[0] not in ("inloop", "fact")))
        conds.append(F)
        imp = bool(f_implies(F, connected))
        chk.ob("C15.firewall", f"rule stored at line {ev.loc.split(':')[1]} only for src != dest "
               "connected pairs", imp, f"condition {f_show(F)[:300]}", ev.loc)
        val = cn.show(ev.data["value"])
        if f_implies(F, userzone):
            chk.ob("C15.firewall", "user<->user rule allows every declared service",
                   is_all_services(val), val[:200], ev.loc)
        if is_all_services(val):
            # ... and only user<->user pairs get the unrestricted rule (a rule that crosses zones
            # is limited by `restrictiveness`)
            chk.ob("C15.firewall", "the unrestricted rule is stored exactly for connected pairs of "
                   "user subnets (both indices above the sensitive subnet)",
                   bool(f_equiv(F, f_and([connected, userzone]))),
                   f"stored under {f_show(F)[:300]}", ev.loc)
    # every connected pair gets a rule: disjunction of the store conditions == connected
    cover = f_or(conds) if conds else ("false",)
    # draws are opaque atoms; project: for every valuation of the structural atoms some store fires
    struct = f_atoms(connected) | f_atoms(userzone) | {f"len(G.subnet_services[{DST}])<{R}"}
    chk.ob("C15.firewall", "a rule is stored for every connected ordered pair",
           bool(f_implies(connected, _drop_atoms(cover, struct))),
           f"union of store conditions: {f_show(cover)[:400]}", fi.module.path)
    # the pool that drawn services are removed from is private to one (src, dest) rule: removing
    # from the per-subnet table itself would starve every later rule into the same destination
    removes = [ev for ev in s.events if ev.kind == "mcall"
               and ev.data["name"] in ("remove", "discard", "pop", "clear", "difference_update")]
    for ev in removes:
        r = ev.data["recv"]
        private = r[0] in ("setlit", "listobj", "dictobj", "comp") or \
            (r[0] == "mcall" and r[2] == "copy") or \
            (r[0] == "call" and r[1] in ("builtins.set", "builtins.list", "builtins.sorted",
                                         "copy.copy", "copy.deepcopy"))
        shared = r[0] == "sub" and r[1][0] in ("dictobj", "attr")
        if private or shared:
            chk.ob("C15.firewall", f"_generate_firewall: {ev.data['name']}() at line "
                   f"{ev.loc.split(':')[1]} works on a private copy of the destination's services",
                   private, "the receiver is an entry of the per-subnet table itself (a subscript "
                   "of the dict the method filled earlier), not a copy: services removed for one "
                   "rule are missing from every later rule into the same destination subnet",
                   ev.loc, firm=True)
        else:
            chk.undecided("C15.firewall", f"_generate_firewall: {ev.data['name']}() at line "
                          f"{ev.loc.split(':')[1]} works on a private copy of the destination's "
                          "services", f"receiver {cn.show(r)[:160]} not classified", ev.loc)
    # sampling branch: at most `restrictiveness` services
    # (the loop may live in a helper that receives the restrictiveness as an argument)
    import re
    gcls = ctx.repo.cls(GEN_MOD, "ScenarioGenerator")
    cands = [(fi, R)]
    for call, name in self_calls(fi):
        callee = gcls.methods.get(name)
        if callee is not None:
            for p_, a_ in arg_map(call, callee).items():
                if a_ == R:
                    cands.append((callee, p_))
    tests = []
    ok = False
    for f_, r_ in cands:
        for x in ast.walk(canonical_tests(f_.node)):
            if isinstance(x, ast.While):
                tests.append(f"{f_.name}: {ast.unparse(x.test)}")
                if re.fullmatch(rf"len\(\w+\) < {re.escape(r_)}", ast.unparse(x.test)):
                    ok = True
    chk.ob("C15.firewall", "sampling branch stops at `restrictiveness` services "
           "(while len(<chosen set>) < restrictiveness)", ok, str(tests), fi.module.path)


def is_all_services(val):
    import re
    return re.fullmatch(r"set\((sorted\(|list\(|tuple\()?G\.services\)?\)", val) is not None


def _drop_atoms(F, keep):
    """existentially project away atoms not in `keep` (treat them as satisfiable either way):
    used only on the covering check, where draw-dependent atoms partition the cases"""
    k = F[0]
    if k == "atom":
        return F if F[1] in keep else ("true",)
    if k == "not":
        inner = F[1]
        if inner[0] == "atom" and inner[1] not in keep:
            return ("true",)
        return f_not(_drop_atoms(inner, keep))
    if k == "and":
        return f_and([_drop_atoms(x, keep) for x in F[1]])
    if k == "or":
        return f_or([_drop_atoms(x, keep) for x in F[1]])
    return ("true",)


# ------------------------------------------------------------------------------ (h)
def check_sensitive(ctx, chk):
    # read from generate() with the private helper inlined: what ends up in self.sensitive_hosts
    # in terms of generate's own (public) parameters - the helper's name, signature, and whether
    # it stores or returns the dict are not part of the rule
    fi, ip, s, cn = method_run(ctx, "generate", no_inline=tuple(
        n for n in ctx.repo.cls(GEN_MOD, "ScenarioGenerator").methods
        if n not in ("generate", "_generate_sensitive_hosts")))
    rs, ru = "r_sensitive", "r_user"
    # the entries of the dict that ends up in self.sensitive_hosts, however they are written:
    # literal items, item stores, a key chosen by a conditional (one entry per alternative)
    from sa.canon import f_not as _n
    attr_st = [ev for ev in s.events if ev.kind == "store" and ev.data["target"] == "attr"
               and ev.data.get("name") == "sensitive_hosts"]
    entries = []          # (key text, value text, condition formula)
    dv = attr_st[-1].data["value"] if attr_st else None
    if dv is not None and dv[0] == "dictobj":
        h = ip.heap[dv[1]]
        pc0 = tuple(h.get("pc0", ()))

        def split(key, val, F):
            if key[0] == "phi":
                c_ = cn.formula(key[1])
                split(key[2], val, f_and([F, c_]))
                split(key[3], val, f_and([F, _n(c_)]))
            else:
                entries.append((cn.show(key), cn.show(val), F))
        for k_, v_ in h["items"].items():
            entries.append((cn.show(C(k_)), cn.show(v_), ("true",)))
        for k_, v_, pc_ in h["dyn"]:
            rel = tuple(c for c in (pc_[len(pc0):] if tuple(pc_[:len(pc0)]) == pc0 else pc_)
                        if c[0] != "fact")
            split(k_, v_, cn.conj(rel))
    if dv is None or dv[0] != "dictobj":
        chk.undecided("C15.sensitive", "generate: the dict stored in self.sensitive_hosts is built "
                      "where the analysis can enumerate its entries",
                      "no store of a dict display / item-assigned dict into self.sensitive_hosts "
                      "found in generate() and its sensitive-host helper", fi.module.path)
        return
    got = [(k_, v_, f_show(F_)) for k_, v_, F_ in entries]
    want1 = ("(2, 0)", rs, "TRUE")
    ok1 = want1 in got
    chk.ob("C15.sensitive", "sensitive host (SENSITIVE subnet, 0) with value r_sensitive, always",
           ok1, str(got)[:300], fi.module.path)
    users = [g for g in got if g[1] == ru]
    fixed = [g for g in users if g[0] == "((len(G.subnets)-1), (G.subnets[-1]-1))"]
    rnd = [g for g in users if g[0].startswith("(np.random.randint(3, len(G.subnets)), "
                                               "np.random.randint(0, G.subnets[")]
    conds_ok = False
    if len(fixed) == 1 and len(rnd) == 1:
        # the two user-goal entries are under complementary conditions
        c1 = [F_ for k_, v_, F_ in entries if v_ == ru]
        conds_ok = len(c1) == 2 and f_equiv(c1[0], _n(c1[1]))
    chk.ob("C15.sensitive", "exactly one user-zone sensitive host with value r_user (last host of "
           "the last subnet, or a random user-subnet host when random_goal)",
           len(users) == 2 and len(fixed) == 1 and len(rnd) == 1 and conds_ok, str(users)[:400],
           fi.module.path)
    chk.ob("C15.sensitive", "no other sensitive host is defined", len(got) == 3, str(len(got)),
           fi.module.path, nontrivial=False)


def check_construct(ctx, chk):
    """the scenario handed out is made of the generator's own results: every section of the
    scenario dict is the attribute generated for it, and generate() passes the requested sensitive
    values in the order the helper takes them"""
    try:
        fi, ip, s, cn = method_run(ctx, "_construct_scenario")
    except AnalysisError as e:
        chk.undecided("C15.construct", "_construct_scenario found", str(e)[:120])
        return
    news = [ev for ev in s.events if ev.kind == "new" and ev.data["cls"] == "Scenario"]
    want = {"subnets": "subnets", "address_space_bounds": "address_space_bounds",
            "topology": "topology", "services": "services", "processes": "processes", "os": "os",
            "sensitive_hosts": "sensitive_hosts", "exploits": "exploits",
            "privilege_escalation": "privescs", "service_scan_cost": "service_scan_cost",
            "os_scan_cost": "os_scan_cost", "subnet_scan_cost": "subnet_scan_cost",
            "process_scan_cost": "process_scan_cost", "firewall": "firewall", "host": "hosts",
            "step_limit": "step_limit"}
    d = news[0].data["args"][0] if len(news) == 1 and news[0].data["args"] else None
    if d is None or d[0] != "dictobj" or ip.heap[d[1]]["dyn"]:
        chk.undecided("C15.construct", "the scenario dict pairs every section with the attribute "
                      "generated for it", "the dict handed to Scenario(...) is not a literal / "
                      "item-assigned dict the analysis can enumerate", fi.module.path)
    else:
        items = {k: cn.show(v) for k, v in ip.heap[d[1]]["items"].items()}
        bad = {k: items.get(k) for k, a in want.items() if items.get(k) != f"G.{a}"}
        chk.ob("C15.construct", "the scenario dict pairs every section with the attribute generated "
               "for it (16 sections)", not bad and set(items) <= set(want),
               f"wrong or missing: {bad}; extra: {sorted(set(items) - set(want))}", fi.module.path)


# ------------------------------------------------------------------------------ core topology
def check_core_topology(ctx, chk):
    """the fixed block of _generate_topology is written by a double loop over literal ranges: the
    path condition of its store is evaluated for every (row, col) of the block - whatever way the
    exclusions are written (continue, negated if, named booleans)"""
    from sa.evalterm import eval_term, Undecidable
    fi, ip, s, cn = method_run(ctx, "_generate_topology")

    def lit_range(lid):
        it = ip.loops.get(lid, {}).get("iter")
        if it is not None and it[0] == "call" and it[1] == "builtins.range" and len(it[2]) == 1 \
                and it[2][0][0] == "const" and isinstance(it[2][0][1], int):
            return it[2][0][1]
        return None
    block = []
    for ev in s.events:
        if ev.kind != "store" or ev.data["target"] != "sub":
            continue
        loops = [c[1] for c in ev.pc if c[0] == "inloop"]
        base, idx = ev.data["base"], ev.data["idx"]
        if len(loops) == 2 and all(lit_range(l) is not None for l in loops) \
                and base[0] == "sub" and base[2][0] == "elem" and idx[0] == "elem" \
                and {base[2][2], idx[2]} == set(loops) and ev.data["value"] == C(1):
            block.append((ev, base[2], idx))
    if not block:
        chk.undecided("C15.core-topology", "_generate_topology: no store topology[row][col] = 1 "
                      "inside a double loop over literal ranges found")
        return
    n = max(lit_range(l) for ev, r, c in block for l in (r[2], c[2]))
    mat = [[0] * n for _ in range(n)]
    try:
        for ev, rt, ct in block:
            conds = [c for c in ev.pc if c[0] not in ("inloop", "fact")]
            for r in range(lit_range(rt[2])):
                for c in range(lit_range(ct[2])):
                    def lookup(t):
                        if t == rt:
                            return r
                        if t == ct:
                            return c
                        raise KeyError(t)
                    if all(eval_term(x, lookup) for x in conds):
                        mat[r][c] = 1
    except (Undecidable, KeyError) as ex:
        chk.undecided("C15.core-topology", "_generate_topology: fixed block conditions not "
                      f"evaluable: {str(ex)[:120]}")
        return
    sym = all(mat[r][c] == mat[c][r] for r in range(n) for c in range(n))
    selfc = all(mat[r][r] == 1 for r in range(n))
    public = [r for r in range(1, n) if mat[r][0] == 1]
    chk.ob("C15.core-topology", "fixed internet/DMZ/sensitive/user block is symmetric and "
           "self-connected, and only the DMZ (subnet 1) touches the internet",
           sym and selfc and public == [1], f"matrix {mat}", block[0][0].loc)


def eval_bool(e, env, fold):
    if isinstance(e, ast.BoolOp):
        vals = [eval_bool(v, env, fold) for v in e.values]
        if None in vals:
            return None
        return all(vals) if isinstance(e.op, ast.And) else any(vals)
    if isinstance(e, ast.Compare) and len(e.ops) == 1:
        def val(x):
            if isinstance(x, ast.Name) and x.id in env:
                return env[x.id]
            ok, v = fold(x)
            return v if ok else None
        a, b = val(e.left), val(e.comparators[0])
        if a is None or b is None:
            return None
        op = e.ops[0]
        return {ast.Eq: a == b, ast.NotEq: a != b, ast.Lt: a < b, ast.LtE: a <= b, ast.Gt: a > b,
                ast.GtE: a >= b}.get(type(op))
    return None
