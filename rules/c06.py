"""C06 - termination and step-limit signals are exact.

  C06.done-wiring   generative_step returns, as terminal flag, goal_reached(<returned next state>)
  C06.goal          goal_reached(s) is a universal ROOT-access test over all sensitive addresses, for
                    an explicit state and for the default (current) state alike
  C06.sensitive-all Scenario.sensitive_addresses = list(sensitive_hosts.keys()) (all of them)
  C06.increment     step(): exactly one `steps += 1`, unconditional
  C06.limit         the limit flag is `limit is not None and steps_after_increment >= limit` with
                    limit = scenario.step_limit (dict.get(..., None))
  C06.tuple         step returns (obs, reward, done, limit_flag, info) with done/reward/info being the
                    values generative_step returned
  C06.no-count      no store to the step counter in generative_step's call tree
"""
from sa.canon import f_show, f_equiv, f_and, f_not, f_or, A, f_subst
from sa.interp import C
from . import envfacts
from .envfacts import PERFORM, GOAL, GSTEP
from .c01 import access_levels

EXPLANATION = (
    "Abstract interpretation of NASimEnv.generative_step, goal_reached and step: def-use "
    "identity of the state passed to the goal test and the state returned; the goal test's "
    "truth condition as a quantified formula compared by truth table with 'all sensitive "
    "addresses have access >= ROOT'; the limit flag expressed over the pre-state after "
    "substituting the increment.")


def check_goal_definition_immutable(ctx, chk):
    """the terminal test ranges over the scenario's sensitive hosts; what it ranges over must be the
    same collection for the whole life of the environment: nothing in nasim/envs mutates a
    container that is (an alias of) sensitive_addresses / sensitive_hosts - directly, or through
    a parameter that a call site binds to it"""
    import ast
    from .rowprov import Prov
    pr = ctx.__dict__.setdefault("_rule_cache", {}).get("rowprov")
    if pr is None:
        pr = ctx.__dict__["_rule_cache"]["rowprov"] = Prov(ctx.repo)
    MUT = {"pop", "popitem", "remove", "clear", "append", "extend", "insert", "sort", "reverse",
           "update", "setdefault", "add", "discard"}
    GOALSETS = {"sensitive_addresses", "sensitive_hosts"}

    def alias_roots(fi, expr, depth, seen=None):
        seen = set() if seen is None else seen
        if isinstance(expr, ast.Attribute):
            return {expr.attr}
        if not isinstance(expr, ast.Name) or (fi.qualname, expr.id) in seen:
            return set()
        seen.add((fi.qualname, expr.id))
        out = set()
        for n in ast.walk(fi.node):
            if isinstance(n, ast.Assign) and any(isinstance(t, ast.Name) and t.id == expr.id
                                                 for t in n.targets):
                out |= alias_roots(fi, n.value, depth, seen)
        params = [a.arg for a in fi.node.args.posonlyargs + fi.node.args.args]
        if expr.id in params and depth > 0:
            k = params.index(expr.id)
            for cf, call in pr.calls_of.get(fi.name, []):
                off = 1 if (params and params[0] in ("self", "cls")
                            and isinstance(call.func, ast.Attribute)) else 0
                arg = None
                if 0 <= k - off < len(call.args) \
                        and not any(isinstance(x, ast.Starred) for x in call.args):
                    arg = call.args[k - off]
                for kw in call.keywords:
                    if kw.arg == expr.id:
                        arg = kw.value
                if arg is not None:
                    out |= alias_roots(cf, arg, depth - 1, seen)
        return out

    n = 0
    for fi in ctx.repo.all_functions():
        if not fi.module.name.startswith("nasim.envs") or fi.name == "__init__":
            continue
        for node in ast.walk(fi.node):
            recv = None
            if isinstance(node, ast.Call) and isinstance(node.func, ast.Attribute) \
                    and node.func.attr in MUT:
                recv = node.func.value
            elif isinstance(node, (ast.Assign, ast.AugAssign, ast.Delete)):
                ts = node.targets if isinstance(node, (ast.Assign, ast.Delete)) else [node.target]
                for t in ts:
                    if isinstance(t, ast.Subscript):
                        recv = t.value
            if recv is None or not isinstance(recv, (ast.Name, ast.Attribute)):
                continue
            n += 1
            # only the container itself (not what it is computed from): follow whole-value aliases
            # (`x = y`, `x = self.a.b`, a parameter bound at a call site), never contents
            hit = bool(GOALSETS & alias_roots(fi, recv, 3))
            if hit:
                chk.ob("C06.goal-set", f"{fi.qualname}: the collection of sensitive hosts the goal "
                       "test ranges over is never modified after construction", False,
                       f"`{ast.unparse(node)[:80]}` modifies a container that is (an alias of) the "
                       "environment's sensitive_addresses / sensitive_hosts: afterwards the terminal "
                       "test ranges over a different set of hosts",
                       f"{fi.module.path}:{node.lineno}", firm=True)
    chk.ob("C06.goal-set", "no function of nasim/envs modifies the collection of sensitive hosts",
           True, f"{n} mutation site(s) examined", "nasim/envs", nontrivial=False)


def run(ctx, chk):
    chk.explanation = EXPLANATION
    check_goal_definition_immutable(ctx, chk)
    lv = access_levels(ctx)
    r = envfacts.gstep_shallow(ctx)
    cn = r.cn
    calls = r.calls(PERFORM)
    goals = r.calls(GOAL)
    ok = len(r.returns) == 1 and len(calls) == 1 and len(goals) == 1
    detail = f"{len(r.returns)} return(s), {len(calls)} perform_action, {len(goals)} goal_reached"
    if ok:
        ret = r.returns[0][1]
        res = calls[0].data["result"]
        g = goals[0]
        ok = ret[0] == "tuple" and len(ret[1]) == 5 and ret[1][3] == g.data["result"] \
            and len(g.data["args"]) == 2 and g.data["args"][1] == ("proj", res, 0) \
            and ret[1][0] == ("proj", res, 0) and not g.pc
        detail = f"done = {cn.show(ret[1][3])[:200]}; returned state = {cn.show(ret[1][0])[:120]}"
    chk.ob("C06.done-wiring", "generative_step: terminal flag = goal_reached(returned next state)",
           ok, detail, r.fi.module.path)
    # ---- goal test
    gr = envfacts.goal_run(ctx)
    gcn = gr.cn
    true_f = f_or([gcn.conj(pc) for pc, t in gr.returns if t == C(True)] +
                  [f_and([gcn.conj(pc), gcn.formula(t)]) for pc, t in gr.returns
                   if t[0] != "const"])
    nonbool = [t for pc, t in gr.returns if t[0] == "const" and not isinstance(t[1], bool)]
    sp = gr.fi.params[1] if len(gr.fi.params) > 1 else "state"
    SENS = "scenario.sensitive_addresses"
    none_atom = f"None is {sp}"
    for mode, which, root in (("explicit state", False, sp),
                              ("default (current) state", True, "self.current_state")):
        F = f_subst(true_f, lambda a: (("true",) if which else ("false",))
                    if a == none_atom else None)
        want = f_not(("exists", SENS, A(f"{root}[each({SENS})].access<{lv['ROOT']}")))
        ok = f_equiv(F, want) and not nonbool
        chk.ob("C06.goal", f"goal_reached, {mode}: True exactly when every sensitive address has "
               f"access >= ROOT", ok, f"derived {f_show(F)[:300]}; required {f_show(want)}",
               gr.fi.module.path)
    chk.sample({"rule": "C06.goal", "derived_true_condition": f_show(true_f)[:400]})
    p = envfacts.prop_term(ctx, "nasim.scenarios.scenario", "Scenario", "sensitive_addresses")
    txt = [p.show(t) for _, t in p.returns]
    chk.ob("C06.sensitive-all", "Scenario.sensitive_addresses = list(sensitive_hosts.keys())",
           txt == ["list(self.scenario_dict['sensitive_hosts'])"], str(txt),
           "nasim/scenarios/scenario.py")
    # ---- step
    s = envfacts.step_shallow(ctx)
    scn = s.cn
    gs = s.calls(GSTEP)
    stores = [e for e in s.stores() if e.kind == "attr"]
    steps = [e for e in stores if e.fam == "steps"]
    selfp = ("param", s.fi.params[0])
    inc = ("bin", "+", ("attr", selfp, "steps"), C(1))
    ok = len(steps) == 1 and not steps[0].ev.pc and steps[0].value == inc
    chk.ob("C06.increment", "step: exactly one unconditional `steps += 1`", ok,
           f"{[(scn.show(e.value), f_show(scn.conj(e.ev.pc))) for e in steps]}", s.fi.module.path)
    ok = len(s.returns) == 1 and len(gs) == 1
    detail = f"{len(s.returns)} return(s), {len(gs)} generative_step call(s)"
    if ok:
        ret = s.returns[0][1]
        res = gs[0].data["result"]
        ok = ret[0] == "tuple" and len(ret[1]) == 5
        if ok:
            lim = scn.formula(ret[1][3])
            D = "self.scenario.scenario_dict"
            L = f"{D}['step_limit']"
            # limit = D.get('step_limit', None): present, not None, and reached
            want = f_and([A(f"'step_limit' in {D}"), f_not(A(f"None is {L}")),
                          f_not(A(f"(self.steps+1)<{L}"))])
            lok = f_equiv(lim, want)
            chk.ob("C06.limit", "step: limit flag = step_limit is not None and "
                   "steps_after_increment >= step_limit", lok,
                   f"derived {f_show(lim)}; required {f_show(want)}", s.fi.module.path)
            wire = ret[1][1] == ("proj", res, 2) and ret[1][2] == ("proj", res, 3) \
                and ret[1][4] == ("proj", res, 4)
            chk.ob("C06.tuple", "step returns (obs, reward, done, limit_flag, info) with reward, "
                   "done and info unchanged from generative_step", wire,
                   f"({', '.join(scn.show(x)[:60] for x in ret[1])})", s.fi.module.path)
    if not ok:
        chk.ob("C06.tuple", "step returns a 5-tuple built from one generative_step call", False,
               detail, s.fi.module.path)
    # ---- the count restarts at reset
    rr = envfacts.reset_run(ctx)
    rs = [e for e in rr.stores() if e.kind == "attr" and e.fam == "steps"]
    chk.ob("C06.reset-count", "reset: the step counter is set to 0 unconditionally",
           len(rs) == 1 and rs[0].value == C(0) and not [c for c in rs[0].ev.pc if c[0] != "fact"],
           f"{[(rr.show(e.value), f_show(rr.cn.conj(e.ev.pc))) for e in rs]}", rr.fi.module.path,
           # one store of 0 that sits under a condition: decoded, whatever the condition reads
           firm=(len(rs) == 1 and rs[0].value == C(0)))
    # ---- generative steps do not count
    d = envfacts.gstep_deep(ctx)
    bad = [e for e in d.stores() if e.kind == "attr" and e.fam == "steps"]
    chk.ob("C06.no-count", "no store to the step counter in generative_step's call tree",
           not bad, "; ".join(e.ev.loc for e in bad), d.fi.module.path)
    chk.assume("the step counter is an attribute only step/reset/__init__ write (C04.steps-writers)")
