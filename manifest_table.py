# pid -> claim(...) / NOT_APPLICABLE[pid] = reason.  Kept current as checks are built.
TB = ("Trusts CPython's ast, the sa/ engine (abstract interpreter, canonicaliser, truth-table comparison with "
      "distinct canonical atoms treated as independent) and the frozen summaries of numpy/builtin callees "
      "(DESIGN.md A.4). Decides structural facts of the source, does not observe runs; ")
GT = "static analysis: per-action-class partial evaluation of the transition dispatcher (gate table); "

claim("C01", GT + "who-may-write over column families; truth-table comparison of guards; finite enumeration of the access-level update",
      "Decides which stores can reach the compromised/access columns for each of the 7 action classes (only successful Exploit/PrivilegeEscalation, only the target row), that their guards are the service/OS resp. compromised+access+process/OS atoms, that the required gates together force success, and that the stored level equals max(previous, granted) for all 6 combinations. A fact about every path of the code, hence about every scenario, state, action and draw.",
      TB + "that predicate helpers index the right column relies on the layout check (C09).", "DESIGN.md C01")
claim("C02", GT + "truth-table comparison of success conditions with the required gates; address-key kind analysis for the host firewall",
      "Decides for every concrete action class that each success exit of Network.perform_action implies the discovery/reachability, pivot-permission, subnet-firewall (direction-sensitive), host-firewall and on-host access gates required by the property, and that every failure exit returns an unmodified fresh copy.",
      TB + "scenario tables are assumed to say what the file says (C17).", "DESIGN.md C02")
claim("C03", GT + "who-may-write for reachable/discovered; store-condition equivalence with the connectivity atom; reset lemma; written induction",
      "Decides the three lemmas (reset, reachable-update, discovery) from which the invariant follows by the induction in docs/C03-induction.md: the only writers of the two columns, their literal values, loop coverage of the whole address space and equivalence of their conditions with connected(target subnet, host subnet).",
      TB + "the induction from the lemmas to the invariant is a written argument, not machine-checked.", "DESIGN.md C03, docs/C03-induction.md")
claim("C04", GT + "column-family classification of all stores; literal-value and loop-coverage checks on reset; AST scan of step-counter writers",
      "Decides that every status store reachable from a step has value True (access: max(previous, granted)), that no store reaches a configuration column (count 0 with a classifier positive control), that whole-row stores write back the same row, and that reset stores the four initial status values for every address unconditionally and zeroes the counter.",
      TB + "configuration columns are filled once at construction (C09).", "DESIGN.md C04")
claim("C05", "static analysis: def-use/linear-form of the reward expression; literal reading of all ActionResult sites; finite enumeration of the value expression; pay=>mark pairing by path condition",
      "Decides reward = +result.value - action.cost of the same perform_action call; all failure results and scan results carry literal 0; exploit/escalation results carry the host value exactly when ROOT is newly obtained; discovery value is added exactly for connected not-yet-discovered addresses on the path that marks them discovered.",
      TB + "'at most once over an episode' additionally uses C04 (flags never cleared).", "DESIGN.md C05")
claim("C06", "static analysis: def-use wiring of the terminal flag; quantified goal condition compared by truth table; step-limit expression over the pre-state",
      "Decides that the terminal flag is goal_reached(returned state), that goal_reached is the universal ROOT test over all sensitive addresses for explicit and default state, that step increments the counter exactly once unconditionally and reports limit-not-None and steps-after-increment >= limit, and that generative steps never touch the counter.",
      TB + "dict.get(key, None) semantics for the absent step limit.", "DESIGN.md C06")
claim("C07", GT + "draw-site count, draw-atom shape, exhaustive valuation enumeration for independence of the result from the draw when a gate fails; literal flags of all ActionResult sites",
      "Decides one np.random draw per path compared as draw > action.prob => fail, the chance exit (undefined_error only, value 0, unchanged copy), that results do not depend on the draw when a network-level gate fails, the re-exploit bypass, flag exclusivity over all 16+ result sites and the [0,1] guard on prob. Host-level gates evaluated after the draw are reported as known finding F-C07-1 (5 entries).",
      TB + "numpy's rand() is uniform on [0,1); > vs >= differ only on a measure-zero draw.", "DESIGN.md C07")
claim("C13", "static analysis: write-effect analysis with fresh/owned root classification over the inlined call tree of generative_step; def-use wiring of step",
      "Decides that every array store in the call tree of generative_step lands on a fresh np.copy/np.zeros made by the call, that no attribute of the environment/network/state argument is stored, that every dispatcher exit returns a State wrapping a fresh copy, and that step is one call generative_step(self.current_state, action) whose results are installed/returned unchanged.",
      TB + "numpy copy/view semantics (np.copy fresh, 2-D indexing gives a view).", "DESIGN.md C13")
for _p in ["C08","C09","C10","C11","C12","C14","C15","C16","C17","C18","C19"]:
    NOT_APPLICABLE[_p] = "check under construction in this round (see DESIGN.md section 3 for the planned static rule); not claimed until its rule module is committed"
NOT_APPLICABLE["C20"] = "bound correctness is a combinatorial-optimality statement over topologies and episode returns; no structural necessary condition is checkable without executing or proving the algorithm"
