# pid -> claim(...) / NOT_APPLICABLE[pid] = reason.  Kept current as checks are built.
claim("C02", "static analysis: per-action-class partial evaluation of the transition dispatcher; truth-table comparison of success conditions with required gates",
      "Decides for every concrete action class that each success exit of Network.perform_action implies the discovery/reachability, pivot-permission, firewall and on-host access gates required by the property, and that every failure exit returns an unmodified fresh copy. Holds for all scenarios/states/draws at once because it is a fact about the path conditions of the code.",
      "Trusts CPython's ast, the sa/ engine (abstract interpreter, canonicaliser) and that distinct canonical atoms are independent; scenario tables are assumed to say what the file says (C17). Does not observe runs.",
      "DESIGN.md C02")
for _p in ["C01","C03","C04","C05","C06","C07","C08","C09","C10","C11","C12","C13","C14","C15","C16","C17","C18","C19"]:
    NOT_APPLICABLE[_p] = "check under construction in this round (see DESIGN.md section 3 for the planned static rule); not claimed until its rule module is committed"
NOT_APPLICABLE["C20"] = "bound correctness is a combinatorial-optimality statement over topologies and episode returns; no structural necessary condition is checkable without executing or proving the algorithm"
