"""Symbolic host-vector layout: evaluates the index assignments of the layout
classmethod of HostVector as linear forms over B0, B1 (address-space bounds),
nOS, nS, nP, and maps index expressions to *column families* by comparing with the
documented layout (HostVector docstring / property C09)."""
import ast

from .model import AnalysisError

HV_MOD = "nasim.envs.host_vector"

# documented layout (oracle): family -> (start linear form, length linear form)
SCALARS = ["compromised", "reachable", "discovered", "value", "discovery_value", "access"]


def lf(const=0, **syms):
    d = {k: v for k, v in syms.items() if v}
    if const:
        d["1"] = const
    return d


def lf_add(a, b, sign=1):
    out = dict(a)
    for k, v in b.items():
        out[k] = out.get(k, 0) + sign * v
        if out[k] == 0:
            del out[k]
    return out


def lf_key(a):
    return tuple(sorted(a.items()))


def lf_str(a):
    if not a:
        return "0"
    parts = []
    for k, v in sorted(a.items(), key=lambda kv: (kv[0] == "1", kv[0])):
        if k == "1":
            parts.append(str(v))
        elif v == 1:
            parts.append(k)
        else:
            parts.append(f"{v}*{k}")
    return "+".join(parts).replace("+-", "-")


def documented_layout():
    fam = {}
    fam["subnet_onehot"] = (lf(), lf(B0=1))
    fam["host_onehot"] = (lf(B0=1), lf(B1=1))
    base = lf(B0=1, B1=1)
    for i, n in enumerate(SCALARS):
        fam[n] = (lf_add(base, lf(i)), lf(1))
    o = lf_add(base, lf(6))
    fam["os"] = (o, lf(nOS=1))
    s = lf_add(o, lf(nOS=1))
    fam["services"] = (s, lf(nS=1))
    p = lf_add(s, lf(nS=1))
    fam["processes"] = (p, lf(nP=1))
    size = lf_add(p, lf(nP=1))
    return fam, size


GROUPS = ("subnet_onehot", "host_onehot", "os", "services", "processes")
STATUS = ("compromised", "reachable", "discovered", "access")
CONFIG = ("subnet_onehot", "host_onehot", "value", "discovery_value", "os", "services",
          "processes")


class Layout:
    def __init__(self, repo):
        self.repo = repo
        self.hv = repo.cls(HV_MOD, "HostVector")
        self.doc, self.doc_size = documented_layout()
        self.symbols = {}       # class attr name -> symbol (num_os -> nOS ...)
        self.forms = {}         # class attr name -> linear form
        self.assign_nodes = {}  # class attr name -> ast node of the assignment
        self.layout_fn = None
        self.init_fn = None
        self.failed = None
        self.bounds_names = set()
        self.local_forms = {}
        try:
            self._find_functions()
            self._bind_symbols()
            self._eval_layout()
        except AnalysisError as e:
            # the class that owns the layout was restructured beyond what is decoded here: no
            # column classification is possible, and nothing derived from one is a verdict
            # (sa/driver.py turns every failed obligation of such a run into "not decided")
            self.failed = str(e)
            self.forms = {}

    # the layout function: the classmethod that assigns cls.state_size
    def _find_functions(self):
        for fi in self.hv.methods.values():
            stores = {n.attr for n in ast.walk(fi.node)
                      if isinstance(n, ast.Attribute) and isinstance(n.ctx, ast.Store)
                      and isinstance(n.value, ast.Name) and n.value.id in ("cls", "HostVector")}
            if "state_size" in stores:
                self.layout_fn = fi
            if "address_space_bounds" in stores and any(
                    isinstance(n, ast.Call) and isinstance(n.func, ast.Name)
                    and n.func.id == "len" for n in ast.walk(fi.node)):
                self.init_fn = fi
        if self.layout_fn is None or self.init_fn is None:
            raise AnalysisError("HostVector layout/initialise classmethods not found")

    def _bind_symbols(self):
        """cls.num_X = len(<param>) in the initialiser; the param is bound at the
        call in vectorize to host.<os|services|processes>."""
        init = self.init_fn
        params = init.params[1:]
        # find the call site of the initialiser
        call = None
        for fi in self.hv.methods.values():
            for n in ast.walk(fi.node):
                if isinstance(n, ast.Call) and isinstance(n.func, ast.Attribute) \
                        and n.func.attr == init.name:
                    call = n
        if call is None:
            raise AnalysisError("call site of HostVector initialiser not found")
        actual = {}
        for p, a in zip(params, call.args):
            actual[p] = a
        for kw in call.keywords:
            actual[kw.arg] = kw.value
        self.init_actuals = actual
        sym_of_host_attr = {"os": "nOS", "services": "nS", "processes": "nP"}
        for n in ast.walk(init.node):
            if isinstance(n, ast.Assign) and len(n.targets) == 1 \
                    and isinstance(n.targets[0], ast.Attribute) \
                    and isinstance(n.value, ast.Call) and isinstance(n.value.func, ast.Name) \
                    and n.value.func.id == "len" and isinstance(n.value.args[0], ast.Name):
                p = n.value.args[0].id
                a = actual.get(p)
                if isinstance(a, ast.Attribute) and a.attr in sym_of_host_attr:
                    self.symbols[n.targets[0].attr] = sym_of_host_attr[a.attr]
            if isinstance(n, ast.Assign) and len(n.targets) == 1 \
                    and isinstance(n.targets[0], ast.Attribute) \
                    and n.targets[0].attr == "address_space_bounds" \
                    and isinstance(n.value, ast.Name):
                self.bounds_param = n.value.id
        if set(self.symbols.values()) != {"nOS", "nS", "nP"}:
            raise AnalysisError(f"cannot bind layout size symbols: {self.symbols}")
        # the layout function may receive the bounds (or a size) as an argument instead of
        # reading the class attribute: bind its parameters at its call site
        self.bounds_names = set()
        self.local_forms = {}
        lay = self.layout_fn
        for fi in self.hv.methods.values():
            for n in ast.walk(fi.node):
                if isinstance(n, ast.Call) and isinstance(n.func, ast.Attribute) \
                        and n.func.attr == lay.name:
                    acts = dict(zip(lay.params[1:], n.args))
                    acts.update({kw.arg: kw.value for kw in n.keywords if kw.arg})
                    for p, a in acts.items():
                        if (isinstance(a, ast.Name) and fi is init
                                and a.id == getattr(self, "bounds_param", None)) \
                                or (isinstance(a, ast.Attribute)
                                    and a.attr == "address_space_bounds"):
                            self.bounds_names.add(p)
                        elif isinstance(a, ast.Attribute) and a.attr in self.symbols:
                            self.local_forms[p] = lf(**{self.symbols[a.attr]: 1})
                        elif fi is init and isinstance(a, ast.Call) \
                                and isinstance(a.func, ast.Name) and a.func.id == "len" \
                                and len(a.args) == 1 and isinstance(a.args[0], ast.Name):
                            act = actual.get(a.args[0].id)
                            if isinstance(act, ast.Attribute) and act.attr in sym_of_host_attr:
                                self.local_forms[p] = lf(**{sym_of_host_attr[act.attr]: 1})

    def _lin(self, e):
        if isinstance(e, ast.Constant) and isinstance(e.value, int):
            return lf(e.value)
        if isinstance(e, ast.Attribute) and isinstance(e.value, ast.Name) \
                and e.value.id in ("cls", "self", "HostVector"):
            if e.attr in self.forms:
                return dict(self.forms[e.attr])
            if e.attr in self.symbols:
                return lf(**{self.symbols[e.attr]: 1})
            return {f"?{e.attr}": 1}
        if isinstance(e, ast.Subscript) and (
                (isinstance(e.value, ast.Attribute) and e.value.attr == "address_space_bounds")
                or (isinstance(e.value, ast.Name) and e.value.id in self.bounds_names)) \
                and isinstance(e.slice, ast.Constant) and e.slice.value in (0, 1):
            return lf(**{f"B{e.slice.value}": 1})
        if isinstance(e, ast.Name) and e.id in self.local_forms:
            return dict(self.local_forms[e.id])
        if isinstance(e, ast.BinOp) and isinstance(e.op, (ast.Add, ast.Sub)):
            return lf_add(self._lin(e.left), self._lin(e.right),
                          1 if isinstance(e.op, ast.Add) else -1)
        if isinstance(e, ast.BinOp) and isinstance(e.op, ast.Mult):
            a, b = self._lin(e.left), self._lin(e.right)
            if set(a) <= {"1"}:
                return {k: v * a.get("1", 0) for k, v in b.items() if v * a.get("1", 0)}
            if set(b) <= {"1"}:
                return {k: v * b.get("1", 0) for k, v in a.items() if v * b.get("1", 0)}
        return {f"?{ast.unparse(e)}": 1}

    def _eval_layout(self):
        # class-level defaults first (e.g. _subnet_address_idx = 0)
        for name, ex in self.hv.class_attrs.items():
            if isinstance(ex, ast.Constant) and isinstance(ex.value, int) \
                    and not isinstance(ex.value, bool):
                self.forms[name] = lf(ex.value)
        for st in self.layout_fn.node.body:
            if isinstance(st, ast.Assign) and len(st.targets) == 1 \
                    and isinstance(st.targets[0], ast.Attribute):
                self.forms[st.targets[0].attr] = self._lin(st.value)
                self.assign_nodes[st.targets[0].attr] = st
            elif isinstance(st, ast.Expr) and isinstance(st.value, ast.Constant):
                continue
            elif isinstance(st, ast.Assign) and len(st.targets) == 1 \
                    and isinstance(st.targets[0], ast.Name):
                # explaining local: `bounds = cls.address_space_bounds`, `base = b0 + b1`
                v = st.value
                if (isinstance(v, ast.Attribute) and v.attr == "address_space_bounds") \
                        or (isinstance(v, ast.Name) and v.id in self.bounds_names):
                    self.bounds_names.add(st.targets[0].id)
                else:
                    self.local_forms[st.targets[0].id] = self._lin(v)
            elif isinstance(st, ast.Assign) and len(st.targets) == 1 \
                    and isinstance(st.targets[0], ast.Tuple) and len(st.targets[0].elts) == 2 \
                    and all(isinstance(x, ast.Name) for x in st.targets[0].elts) \
                    and ((isinstance(st.value, ast.Attribute)
                          and st.value.attr == "address_space_bounds")
                         or (isinstance(st.value, ast.Name)
                             and st.value.id in self.bounds_names)):
                for i, x in enumerate(st.targets[0].elts):
                    self.local_forms[x.id] = lf(**{f"B{i}": 1})
            else:
                # any other statement shape in the layout function is not understood
                self.assign_nodes.setdefault("?other", st)

    # ------------------------------------------------------------- family lookup
    def family_of_form(self, form):
        """(family, kind) where kind is 'scalar' | 'start' | 'end' (= size)"""
        k = lf_key(form)
        out = []
        for fam, (start, length) in self.doc.items():
            if lf_key(start) == k:
                out.append((fam, "scalar" if fam in SCALARS else "start"))
        return out

    def family_of_attr(self, name):
        if name not in self.forms:
            return None
        r = self.family_of_form(self.forms[name])
        # a zero-length-ambiguous start (two groups starting at the same offset cannot
        # happen in the documented layout), so at most one
        return r[0] if r else None

    def family_of_slice(self, lo_form, hi_form):
        for fam, (start, length) in self.doc.items():
            if lf_key(start) == lf_key(lo_form) and \
                    lf_key(lf_add(start, length)) == lf_key(hi_form):
                return fam
        return None
