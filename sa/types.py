"""Flow-insensitive, interprocedural, set-valued receiver-type inference
(0-CFA style) over the nasim package.  Produces

  attr_types[(Class, attr)]   -> set of class names held by that attribute
  ret_types[fq]               -> set of class names returned
  ret_tuple[fq][i]            -> set of class names at position i of returned tuples
  param_types[(fq, param)]    -> set of class names passed at resolved call sites
  elem_types[(Class, attr)]   -> class names of the values/elements of a container attribute

Only repo classes are tracked; everything else is "unknown" (empty set).
"""
import ast

# element types that cannot be derived without modelling dict-of-section plumbing:
# Scenario.hosts is `scenario_dict["host"]`, which loader and generator both fill
# with `Host(...)` objects (checked by rule C17.routing / C15).
FROZEN_ELEM = {("Scenario", "hosts"): {"Host"}}


class Types:
    def __init__(self, repo):
        self.repo = repo
        self.attr_types = {}
        self.ret_types = {}
        self.ret_tuple = {}
        self.param_types = {}
        self.elem_types = {k: set(v) for k, v in FROZEN_ELEM.items()}
        self.class_by_name = {}
        for c in repo.all_classes():
            self.class_by_name.setdefault(c.name, c)
        self.iterations = 0
        self._changed = True
        while self._changed and self.iterations < 12:
            self._changed = False
            self.iterations += 1
            for fi in list(repo.all_functions()):
                self._scan(fi)

    # ------------------------------------------------------------------ helpers
    def _add(self, table, key, vals):
        if not vals:
            return
        s = table.setdefault(key, set())
        n = len(s)
        s |= vals
        if len(s) != n:
            self._changed = True

    def lookup_attr(self, clsname, attr):
        ci = self.class_by_name.get(clsname)
        out = set()
        if ci is None:
            return out
        for c in ci.mro():
            out |= self.attr_types.get((c.name, attr), set())
        for sub in self.repo.subclasses(ci):
            out |= self.attr_types.get((sub.name, attr), set())
        return out

    def lookup_elem(self, clsname, attr):
        ci = self.class_by_name.get(clsname)
        out = set()
        if ci is None:
            return out
        for c in ci.mro():
            out |= self.elem_types.get((c.name, attr), set())
        return out

    def method(self, clsname, name):
        ci = self.class_by_name.get(clsname)
        return ci.find_method(name) if ci else None

    # --------------------------------------------------------------- per function
    def _scan(self, fi):
        env = {}      # local -> set of class names
        elem = {}     # local -> elem class names (containers)
        params = fi.params
        if fi.cls is not None and params and fi.flavour not in ("staticmethod",):
            if fi.flavour == "classmethod":
                env[params[0]] = {"type:" + fi.cls.name}
            else:
                env[params[0]] = {fi.cls.name}
        for p in params:
            env.setdefault(p, set())
            env[p] = env[p] | self.param_types.get((fi.fq, p), set())

        # `if not isinstance(x, K): ...` : inside the block (up to the first re-assignment of x)
        # x is not a K - the one flow fact the otherwise flow-insensitive scan honours
        narrow = {}
        for n in ast.walk(fi.node):
            if not isinstance(n, ast.If):
                continue
            t, neg = n.test, False
            if isinstance(t, ast.UnaryOp) and isinstance(t.op, ast.Not):
                t, neg = t.operand, True
            if not (isinstance(t, ast.Call) and isinstance(t.func, ast.Name)
                    and t.func.id == "isinstance" and len(t.args) == 2
                    and isinstance(t.args[0], ast.Name)):
                continue
            ks = {k.id for k in (t.args[1].elts if isinstance(t.args[1], ast.Tuple)
                                 else [t.args[1]]) if isinstance(k, ast.Name)}
            var = t.args[0].id
            for st_ in (n.body if neg else n.orelse):
                stored = False
                for x in ast.walk(st_):
                    if isinstance(x, ast.Name) and x.id == var:
                        if isinstance(x.ctx, ast.Load):
                            narrow.setdefault(id(x), set()).update(ks)
                        else:
                            stored = True
                if stored:
                    break

        def ty(e):
            if isinstance(e, ast.Name):
                if e.id in env:
                    return set(env[e.id]) - narrow.get(id(e), set())
                r = self.repo.resolve_name(fi.module, e.id)
                if r and r[0] == "class":
                    return {"type:" + r[1].name}
                return set()
            if isinstance(e, ast.Attribute):
                r = self.repo.resolve_attr_chain(fi.module, e) \
                    if self._is_static_chain(e, env) else None
                if r and r[0] == "class":
                    return {"type:" + r[1].name}
                out = set()
                for t in ty(e.value):
                    if t.startswith("type:"):
                        continue
                    m = self.method(t, e.attr)
                    if m is not None and m.flavour == "property":
                        out |= self.ret_types.get(m.fq, set())
                    else:
                        out |= self.lookup_attr(t, e.attr)
                return out
            if isinstance(e, ast.Call):
                return call_ty(e)[0]
            if isinstance(e, ast.Subscript):
                return el(e.value)
            if isinstance(e, ast.IfExp):
                return ty(e.body) | ty(e.orelse)
            return set()

        def el(e):
            """element/value types of a container expression"""
            if isinstance(e, ast.Name):
                return set(elem.get(e.id, set()))
            if isinstance(e, ast.Attribute):
                out = set()
                for t in ty(e.value):
                    if not t.startswith("type:"):
                        out |= self.lookup_elem(t, e.attr)
                return out
            if isinstance(e, ast.Call) and isinstance(e.func, ast.Attribute) \
                    and e.func.attr in ("values", "copy"):
                return el(e.func.value)
            if isinstance(e, ast.Call) and isinstance(e.func, ast.Name) \
                    and e.func.id in ("list", "sorted", "tuple") and e.args:
                return el(e.args[0])
            return set()

        def targets_of(e):
            """callee FuncInfos (and constructor classes) for a call"""
            f = e.func
            outs = []
            if isinstance(f, ast.Name):
                if f.id in env:
                    for t in env[f.id]:
                        if t.startswith("type:"):
                            outs.append(("ctor", self.class_by_name.get(t[5:])))
                    return outs
                r = self.repo.resolve_name(fi.module, f.id)
                if r and r[0] == "class":
                    outs.append(("ctor", r[1]))
                elif r and r[0] == "func":
                    outs.append(("func", r[1], None))
                return outs
            if isinstance(f, ast.Attribute):
                if isinstance(f.value, ast.Call) and isinstance(f.value.func, ast.Name) \
                        and f.value.func.id == "super" and fi.cls is not None:
                    for b in fi.cls.mro()[1:]:
                        if f.attr in b.methods:
                            outs.append(("func", b.methods[f.attr], "self"))
                            break
                    return outs
                if self._is_static_chain(f, env):
                    r = self.repo.resolve_attr_chain(fi.module, f)
                    if r and r[0] == "class":
                        return [("ctor", r[1])]
                    if r and r[0] == "func":
                        return [("func", r[1], "static")]
                for t in ty(f.value):
                    tn = t[5:] if t.startswith("type:") else t
                    m = self.method(tn, f.attr)
                    if m is not None:
                        outs.append(("func", m, "recv"))
            return outs

        def call_ty(e):
            outs = set()
            tup = {}
            for tg in targets_of(e):
                if tg[0] == "ctor" and tg[1] is not None:
                    outs.add(tg[1].name)
                    init = tg[1].find_method("__init__")
                    if init is not None:
                        bind(init, e, skip_self=True)
                elif tg[0] == "func":
                    m = tg[1]
                    rt = self.ret_types.get(m.fq, set())
                    for r in rt:
                        if r == "cls":
                            # classmethod returning cls(...): the receiver class
                            if isinstance(e.func, ast.Attribute):
                                for t in ty(e.func.value):
                                    outs.add(t[5:] if t.startswith("type:") else t)
                            elif m.cls is not None:
                                outs.add(m.cls.name)
                        else:
                            outs.add(r)
                    for i, s in self.ret_tuple.get(m.fq, {}).items():
                        tup.setdefault(i, set()).update(s)
                    bind(m, e, skip_self=(m.cls is not None
                                          and m.flavour not in ("staticmethod",)))
            return outs, tup

        def bind(m, e, skip_self):
            ps = m.params[1:] if skip_self else m.params
            for i, a in enumerate(e.args):
                if isinstance(a, ast.Starred):
                    break
                if i < len(ps):
                    self._add(self.param_types, (m.fq, ps[i]),
                              {t for t in ty(a) if not t.startswith("type:")})
            for kw in e.keywords:
                if kw.arg is not None and kw.arg in m.params:
                    self._add(self.param_types, (m.fq, kw.arg),
                              {t for t in ty(kw.value) if not t.startswith("type:")})

        def assign(target, value):
            if isinstance(target, ast.Name):
                t = ty(value)
                if t - env.get(target.id, set()):
                    env[target.id] = env.get(target.id, set()) | t
                    return True
                ev = el(value)
                if ev - elem.get(target.id, set()):
                    elem[target.id] = elem.get(target.id, set()) | ev
                    return True
            elif isinstance(target, ast.Attribute) and fi.cls is not None \
                    and isinstance(target.value, ast.Name) \
                    and target.value.id in ("self", "cls"):
                self._add(self.attr_types, (fi.cls.name, target.attr),
                          {t for t in ty(value) if not t.startswith("type:")})
                self._add(self.elem_types, (fi.cls.name, target.attr), el(value))
            elif isinstance(target, ast.Subscript) and isinstance(target.value, ast.Name):
                t = {x for x in ty(value) if not x.startswith("type:")}
                if t - elem.get(target.value.id, set()):
                    elem[target.value.id] = elem.get(target.value.id, set()) | t
                    return True
            elif isinstance(target, (ast.Tuple, ast.List)) and isinstance(value, ast.Call):
                _, tup = call_ty(value)
                ch = False
                for i, tt in enumerate(target.elts):
                    if isinstance(tt, ast.Name) and tup.get(i):
                        if tup[i] - env.get(tt.id, set()):
                            env[tt.id] = env.get(tt.id, set()) | tup[i]
                            ch = True
                return ch
            return False

        for _ in range(4):
            changed = False
            for n in ast.walk(fi.node):
                if isinstance(n, ast.Assign):
                    for t in n.targets:
                        changed |= bool(assign(t, n.value))
                elif isinstance(n, ast.For):
                    it = n.iter
                    ev = set()
                    if isinstance(it, ast.Call) and isinstance(it.func, ast.Attribute) \
                            and it.func.attr == "items":
                        ev = el(it.func.value)
                        if isinstance(n.target, ast.Tuple) and len(n.target.elts) == 2 \
                                and isinstance(n.target.elts[1], ast.Name):
                            nm = n.target.elts[1].id
                            if ev - env.get(nm, set()):
                                env[nm] = env.get(nm, set()) | ev
                                changed = True
                    else:
                        ev = el(it)
                        if isinstance(n.target, ast.Name) and ev - env.get(n.target.id, set()):
                            env[n.target.id] = env.get(n.target.id, set()) | ev
                            changed = True
                elif isinstance(n, ast.Call):
                    call_ty(n)
                elif isinstance(n, ast.Return) and n.value is not None:
                    v = n.value
                    if isinstance(v, ast.Tuple):
                        d = self.ret_tuple.setdefault(fi.fq, {})
                        for i, e in enumerate(v.elts):
                            t = {x for x in ty(e) if not x.startswith("type:")}
                            if t - d.get(i, set()):
                                d[i] = d.get(i, set()) | t
                                self._changed = True
                    else:
                        t = set()
                        for x in ty(v):
                            if x.startswith("type:"):
                                continue
                            t.add(x)
                        if isinstance(v, ast.Call) and isinstance(v.func, ast.Name) \
                                and v.func.id == "cls":
                            t.add("cls")
                        self._add(self.ret_types, fi.fq, t)
            if not changed:
                break
        self._locals = getattr(self, "_locals", {})
        self._locals[fi.fq] = env

    @staticmethod
    def _is_static_chain(e, env):
        while isinstance(e, ast.Attribute):
            e = e.value
        return isinstance(e, ast.Name) and e.id not in env

    def local_types(self, fq):
        return self._locals.get(fq, {})
