"""Program model of /repo's nasim package: parsed modules, classes, functions,
imports and folded constants.  Nothing from nasim is ever imported or executed.
"""
import ast
import os
import hashlib
import json

REPO = os.environ.get("NASIM_REPO", "/repo")


class AnalysisError(Exception):
    """The analysis itself cannot run (anchor vanished, parse error, vacuous
    rule ...).  Never a property verdict: exit code 2."""


class FuncInfo:
    def __init__(self, module, cls, node):
        self.module = module          # ModuleInfo
        self.cls = cls                # ClassInfo or None
        self.node = node              # ast.FunctionDef
        self.name = node.name
        self.flavour = "plain"        # plain|property|setter|classmethod|staticmethod
        self.setter_of = None
        for d in node.decorator_list:
            if isinstance(d, ast.Name) and d.id in ("property", "classmethod",
                                                    "staticmethod"):
                self.flavour = d.id
            elif isinstance(d, ast.Attribute) and d.attr == "setter":
                self.flavour = "setter"
                self.setter_of = d.value.id if isinstance(d.value, ast.Name) else None

    @property
    def qualname(self):
        if self.cls is not None:
            return f"{self.cls.name}.{self.name}"
        return self.name

    @property
    def fq(self):
        return f"{self.module.name}:{self.qualname}"

    @property
    def params(self):
        a = self.node.args
        return [x.arg for x in a.posonlyargs + a.args]

    @property
    def rparams(self):
        """parameters with the receiver slot first: a static method of a class gets a placeholder,
        so that index k >= 1 is the k-th explicit parameter whatever the flavour (rules about
        private helpers must not depend on a helper using `self`)"""
        if self.cls is not None and self.flavour == "staticmethod":
            return ["<static>"] + self.params
        return self.params

    def __repr__(self):
        return f"<Func {self.fq}>"


def fingerprint(fi):
    """hash of a function's parameters and body with its own name (and docstring) left out"""
    node = fi.node
    body = list(node.body)
    if body and isinstance(body[0], ast.Expr) and isinstance(body[0].value, ast.Constant) \
            and isinstance(body[0].value.value, str):
        body = body[1:]
    txt = ast.dump(node.args) + "|" + "|".join(ast.dump(b) for b in body)
    # recursive calls mention the function's own name
    txt = txt.replace(f"'{node.name}'", "'<self>'")
    return hashlib.sha256(txt.encode()).hexdigest()[:24]


class ClassInfo:
    def __init__(self, module, node):
        self.module = module
        self.node = node
        self.name = node.name
        self.base_exprs = node.bases
        self.bases = []               # resolved ClassInfo (repo classes only)
        self.ext_bases = []           # dotted names of external bases
        self.methods = {}             # name -> FuncInfo (getter for properties)
        self.setters = {}             # name -> FuncInfo
        self.class_attrs = {}         # name -> ast expr (last class-level assignment)
        for st in node.body:
            if isinstance(st, ast.FunctionDef):
                fi = FuncInfo(module, self, st)
                if fi.flavour == "setter":
                    self.setters[st.name] = fi
                else:
                    self.methods[st.name] = fi
            elif isinstance(st, ast.Assign):
                for t in st.targets:
                    if isinstance(t, ast.Name):
                        self.class_attrs[t.id] = st.value
            elif isinstance(st, ast.AnnAssign) and isinstance(st.target, ast.Name) \
                    and st.value is not None:
                self.class_attrs[st.target.id] = st.value

    def mro(self):
        out, todo = [], [self]
        while todo:
            c = todo.pop(0)
            if c not in out:
                out.append(c)
                todo.extend(c.bases)
        return out

    def find_method(self, name):
        for c in self.mro():
            if name in c.methods:
                return c.methods[name]
        return None

    def find_setter(self, name):
        for c in self.mro():
            if name in c.setters:
                return c.setters[name]
        return None

    def find_class_attr(self, name):
        for c in self.mro():
            if name in c.class_attrs:
                return c, c.class_attrs[name]
        return None, None

    def is_subclass_of(self, other):
        return other in self.mro()

    def __repr__(self):
        return f"<Class {self.module.name}:{self.name}>"


def _worklist_for(body, i, uses):
    """`L = list(X)` [`L.reverse()`] `while L: T = L.pop()|L.pop(0); ...` where the local L occurs
    nowhere else in the function: the loop is `for T in X` (or over reversed(X)).  Returns
    (for_node, statements consumed) or None."""
    st = body[i]
    if not (isinstance(st, ast.Assign) and len(st.targets) == 1
            and isinstance(st.targets[0], ast.Name)):
        return None
    comp = isinstance(st.value, ast.ListComp) and len(st.value.generators) == 1 \
        and not st.value.generators[0].is_async
    if not comp and not (isinstance(st.value, ast.Call)
                         and isinstance(st.value.func, ast.Name)
                         and st.value.func.id in ("list", "sorted")
                         and not st.value.keywords and len(st.value.args) == 1):
        return None
    L = st.targets[0].id
    src, rev = st.value, False
    if comp:
        # [e for v in reversed(X) if c], taken from the end, is [e for v in X if c] in order
        g = src.generators[0]
        if isinstance(g.iter, ast.Call) and isinstance(g.iter.func, ast.Name) \
                and g.iter.func.id == "reversed" and len(g.iter.args) == 1 \
                and not g.iter.keywords:
            src = ast.ListComp(elt=src.elt, generators=[ast.comprehension(
                target=g.target, iter=g.iter.args[0], ifs=g.ifs, is_async=0)])
            ast.copy_location(src, st.value)
            rev = True
    elif src.func.id == "list":
        src = src.args[0]
        if isinstance(src, ast.Call) and isinstance(src.func, ast.Name) \
                and src.func.id == "reversed" and len(src.args) == 1 and not src.keywords:
            src, rev = src.args[0], True
    j, n_uses = i + 1, 3
    if j < len(body) and isinstance(body[j], ast.Expr) and isinstance(body[j].value, ast.Call) \
            and isinstance(body[j].value.func, ast.Attribute) \
            and isinstance(body[j].value.func.value, ast.Name) \
            and body[j].value.func.value.id == L and body[j].value.func.attr == "reverse" \
            and not body[j].value.args:
        rev, j, n_uses = not rev, j + 1, 4
    # initialisations of other locals to empty / constant values may stand in between
    inits = []
    while j < len(body) and isinstance(body[j], ast.Assign) and len(body[j].targets) == 1 \
            and isinstance(body[j].targets[0], ast.Name) and body[j].targets[0].id != L and (
                isinstance(body[j].value, ast.Constant)
                or (isinstance(body[j].value, (ast.List, ast.Tuple, ast.Set)) and not body[j].value.elts)
                or (isinstance(body[j].value, ast.Dict) and not body[j].value.keys)
                or (isinstance(body[j].value, ast.Call) and isinstance(body[j].value.func, ast.Name)
                    and body[j].value.func.id in ("list", "dict", "set")
                    and not body[j].value.args and not body[j].value.keywords)):
        inits.append(body[j])
        j += 1
    if j >= len(body) or not isinstance(body[j], ast.While) or uses.get(L) != n_uses:
        return None
    w = body[j]
    t = w.test
    if isinstance(t, ast.Compare) and len(t.ops) == 1 and isinstance(t.left, ast.Call) \
            and isinstance(t.left.func, ast.Name) and t.left.func.id == "len" \
            and isinstance(t.comparators[0], ast.Constant) and t.comparators[0].value == 0 \
            and isinstance(t.ops[0], (ast.Gt, ast.NotEq)) and len(t.left.args) == 1:
        t = t.left.args[0]
    elif isinstance(t, ast.Call) and isinstance(t.func, ast.Name) and t.func.id == "len" \
            and len(t.args) == 1:
        t = t.args[0]
    if not (isinstance(t, ast.Name) and t.id == L and w.body):
        return None
    first = w.body[0]
    if not (isinstance(first, ast.Assign) and len(first.targets) == 1
            and isinstance(first.value, ast.Call) and isinstance(first.value.func, ast.Attribute)
            and first.value.func.attr == "pop" and isinstance(first.value.func.value, ast.Name)
            and first.value.func.value.id == L and not first.value.keywords):
        return None
    a = first.value.args
    if not a:
        from_end = True
    elif len(a) == 1 and isinstance(a[0], ast.Constant) and a[0].value == 0:
        from_end = False
    else:
        return None
    forward = (rev and from_end) or (not rev and not from_end)
    it = src if forward else ast.Call(func=ast.Name(id="reversed", ctx=ast.Load()),
                                      args=[src if comp else st.value], keywords=[])
    rest = w.body[1:] or [ast.Pass()]
    new = ast.For(target=first.targets[0], iter=it, body=rest, orelse=w.orelse, type_comment=None)
    ast.copy_location(new, w)
    ast.fix_missing_locations(new)
    return inits + [new], j + 1 - i


def _all_but_position(tree):
    """inside `for i, x in enumerate(L)`: `for y in L[:i] + L[i+1:]` visits every other entry in
    order - it is `for j, y in enumerate(L): if i == j: continue`"""
    k = 0
    for outer in ast.walk(tree):
        if not (isinstance(outer, ast.For) and isinstance(outer.iter, ast.Call)
                and isinstance(outer.iter.func, ast.Name) and outer.iter.func.id == "enumerate"
                and len(outer.iter.args) == 1 and not outer.iter.keywords
                and isinstance(outer.target, ast.Tuple) and len(outer.target.elts) == 2
                and isinstance(outer.target.elts[0], ast.Name)):
            continue
        i, L = outer.target.elts[0].id, ast.dump(outer.iter.args[0])
        for st in outer.body:
            for f in ast.walk(st):
                if not (isinstance(f, ast.For) and isinstance(f.iter, ast.BinOp)
                        and isinstance(f.iter.op, ast.Add)):
                    continue
                a, b = f.iter.left, f.iter.right
                if not (isinstance(a, ast.Subscript) and isinstance(b, ast.Subscript)
                        and ast.dump(a.value) == L and ast.dump(b.value) == L
                        and isinstance(a.slice, ast.Slice) and isinstance(b.slice, ast.Slice)
                        and a.slice.lower is None and a.slice.step is None
                        and isinstance(a.slice.upper, ast.Name) and a.slice.upper.id == i
                        and b.slice.upper is None and b.slice.step is None
                        and isinstance(b.slice.lower, ast.BinOp)
                        and isinstance(b.slice.lower.op, ast.Add)
                        and isinstance(b.slice.lower.left, ast.Name)
                        and b.slice.lower.left.id == i
                        and isinstance(b.slice.lower.right, ast.Constant)
                        and b.slice.lower.right.value == 1):
                    continue
                k += 1
                j = f"_pos{k}"
                skip = ast.If(test=ast.Compare(left=ast.Name(id=i, ctx=ast.Load()),
                                               ops=[ast.Eq()],
                                               comparators=[ast.Name(id=j, ctx=ast.Load())]),
                              body=[ast.Continue()], orelse=[])
                f.target = ast.Tuple(elts=[ast.Name(id=j, ctx=ast.Store()), f.target],
                                     ctx=ast.Store())
                f.iter = ast.Call(func=ast.Name(id="enumerate", ctx=ast.Load()),
                                  args=[a.value], keywords=[])
                f.body = [skip] + f.body
                for n in (skip, f.target, f.iter):
                    ast.copy_location(n, f)
                ast.fix_missing_locations(f)


def normalise_worklists(tree):
    """rewrite worklist loops over a local copy (see _worklist_for) into the for-loop they are"""
    _all_but_position(tree)
    for fn in ast.walk(tree):
        if not isinstance(fn, (ast.FunctionDef, ast.AsyncFunctionDef)):
            continue
        if not any(isinstance(n, ast.While) for n in ast.walk(fn)):
            continue
        uses = {}
        for n in ast.walk(fn):
            if isinstance(n, ast.Name):
                uses[n.id] = uses.get(n.id, 0) + 1
        for node in ast.walk(fn):
            for fld in ("body", "orelse", "finalbody"):
                b = getattr(node, fld, None)
                if not (isinstance(b, list) and b and isinstance(b[0], ast.stmt)):
                    continue
                i, out, changed = 0, [], False
                while i < len(b):
                    m = _worklist_for(b, i, uses)
                    if m:
                        out.extend(m[0])
                        i += m[1]
                        changed = True
                    else:
                        out.append(b[i])
                        i += 1
                if changed:
                    setattr(node, fld, out)


class ModuleInfo:
    def __init__(self, name, path, src, tree=None):
        self.name = name
        self.path = path
        self.src = src
        self.tree = tree if tree is not None else ast.parse(src, filename=path)
        normalise_worklists(self.tree)
        self.classes = {}
        self.functions = {}
        self.assigns = {}             # module-level name -> ast expr (last assignment)
        self.imports = {}             # local name -> ("module", dotted) | ("from", dotted, attr)
        for st in self.tree.body:
            if isinstance(st, ast.ClassDef):
                self.classes[st.name] = ClassInfo(self, st)
            elif isinstance(st, ast.FunctionDef):
                self.functions[st.name] = FuncInfo(self, None, st)
            elif isinstance(st, ast.Assign):
                for t in st.targets:
                    if isinstance(t, ast.Name):
                        self.assigns[t.id] = st.value
            elif isinstance(st, ast.Import):
                for al in st.names:
                    if al.asname:
                        self.imports[al.asname] = ("module", al.name)
                    else:
                        self.imports[al.name.split(".")[0]] = ("module", al.name.split(".")[0])
            elif isinstance(st, ast.ImportFrom):
                mod = st.module or ""
                if st.level:
                    base = name.split(".")
                    if not path.endswith("__init__.py"):
                        base = base[:-1]
                    base = base[:len(base) - (st.level - 1)]
                    mod = ".".join(base + ([mod] if mod else []))
                for al in st.names:
                    self.imports[al.asname or al.name] = ("from", mod, al.name)

    def __repr__(self):
        return f"<Module {self.name}>"


class Repo:
    def __init__(self, root=None, overrides=None):
        """overrides: dict relpath -> source text (used by in-memory self
        validation); everything else is read from the working tree."""
        self.root = root or REPO
        self.modules = {}
        self.digest = hashlib.sha256()
        pkg = os.path.join(self.root, "nasim")
        if not os.path.isdir(pkg):
            raise AnalysisError(f"package directory {pkg} not found")
        files = []
        for dp, dn, fn in os.walk(pkg):
            dn.sort()
            for f in sorted(fn):
                if f.endswith(".py"):
                    files.append(os.path.join(dp, f))
        for path in files:
            rel = os.path.relpath(path, self.root)
            if overrides and rel in overrides:
                src = overrides[rel]
            else:
                with open(path, encoding="utf-8") as fh:
                    src = fh.read()
            self.digest.update(rel.encode() + b"\0" + src.encode() + b"\0")
            name = rel[:-3].replace(os.sep, ".")
            if name.endswith(".__init__"):
                name = name[:-9]
            try:
                self.modules[name] = ModuleInfo(name, rel, src)
            except SyntaxError as e:
                raise AnalysisError(f"cannot parse {rel}: {e}")
        self._link_classes()
        self._const_cache = {}
        self._alias_renamed_anchors()

    def _alias_renamed_anchors(self):
        """an anchored private helper that no longer exists under its name but whose body lives on
        under another name in the same class / module (a pure rename) is found again: the function
        is registered under the anchored name too and carries that name from here on, so that
        every rule sees the program it was written for.  Fingerprints: /verif/anchors.json."""
        path = os.path.join(os.path.dirname(os.path.dirname(os.path.abspath(__file__))),
                            "anchors.json")
        self.renamed = {}
        try:
            with open(path) as fh:
                table = json.load(fh)
        except Exception:
            return
        for key, fp in table.items():
            modname, qual = key.split(":")
            m = self.modules.get(modname)
            if m is None:
                continue
            if "." in qual:
                cname, fname = qual.split(".", 1)
                ci = m.classes.get(cname)
                if ci is None or fname in ci.methods:
                    continue
                pool = ci.methods
            else:
                fname = qual
                if fname in m.functions:
                    continue
                pool = m.functions
            known = {k.split(":")[1].split(".")[-1] for k in table}
            cands = [fi for n, fi in pool.items() if n not in known and fingerprint(fi) == fp]
            if len(cands) == 1:
                self.renamed[key] = cands[0].name
        if not self.renamed:
            return
        # the identifier is put back everywhere (definition, call sites, references, imports) in
        # the parsed program - never on disk -, unless the anchored name is in use for something
        # else or two helpers would receive the same name
        back = {}
        for key, new in self.renamed.items():
            oldname = key.split(":")[1].split(".")[-1]
            if new in back and back[new] != oldname:
                back[new] = None
            else:
                back.setdefault(new, oldname)
        used = set()
        for m in self.modules.values():
            for n in ast.walk(m.tree):
                if isinstance(n, ast.Attribute):
                    used.add(n.attr)
                elif isinstance(n, ast.Name):
                    used.add(n.id)
                elif isinstance(n, (ast.FunctionDef, ast.ClassDef)):
                    used.add(n.name)
                elif isinstance(n, ast.arg):
                    used.add(n.arg)
        back = {new: o for new, o in back.items() if o is not None and o not in used}
        self.renamed = {k: v for k, v in self.renamed.items() if v in back}
        if not back:
            return
        for name, m in list(self.modules.items()):
            for n in ast.walk(m.tree):
                if isinstance(n, ast.Attribute) and n.attr in back:
                    n.attr = back[n.attr]
                elif isinstance(n, ast.Name) and n.id in back:
                    n.id = back[n.id]
                elif isinstance(n, ast.FunctionDef) and n.name in back:
                    n.name = back[n.name]
                elif isinstance(n, ast.alias) and n.name in back:
                    n.name = back[n.name]
            self.modules[name] = ModuleInfo(m.name, m.path, m.src, tree=m.tree)
        self._link_classes()

    # ------------------------------------------------------------------ lookup
    def module(self, name):
        if name not in self.modules:
            raise AnalysisError(f"anchor module {name} not found")
        return self.modules[name]

    def cls(self, modname, clsname):
        m = self.module(modname)
        if clsname not in m.classes:
            raise AnalysisError(f"anchor class {modname}:{clsname} not found")
        return m.classes[clsname]

    def func(self, modname, qualname, required=True):
        m = self.module(modname)
        fi = None
        if "." in qualname:
            c, f = qualname.split(".", 1)
            ci = m.classes.get(c)
            if ci is not None:
                fi = ci.methods.get(f)
        else:
            fi = m.functions.get(qualname)
        if fi is None and required:
            raise AnalysisError(f"anchor function {modname}:{qualname} not found")
        return fi

    def all_classes(self):
        for m in self.modules.values():
            yield from m.classes.values()

    def all_functions(self):
        for m in self.modules.values():
            yield from m.functions.values()
            for c in m.classes.values():
                yield from c.methods.values()
                yield from c.setters.values()

    def resolve_name(self, module, name, _depth=0):
        """Resolve a bare name in module scope to
        ('class', ClassInfo) | ('func', FuncInfo) | ('module', ModuleInfo) |
        ('assign', ModuleInfo, expr) | ('ext', dotted) | None"""
        if _depth > 8:
            return None
        if name in module.classes:
            return ("class", module.classes[name])
        if name in module.functions:
            return ("func", module.functions[name])
        if name in module.assigns:
            return ("assign", module, module.assigns[name])
        imp = module.imports.get(name)
        if imp is None:
            return None
        if imp[0] == "module":
            if imp[1] in self.modules:
                return ("module", self.modules[imp[1]])
            return ("ext", imp[1])
        _, mod, attr = imp
        full = f"{mod}.{attr}" if mod else attr
        if full in self.modules:
            return ("module", self.modules[full])
        if mod in self.modules:
            r = self.resolve_name(self.modules[mod], attr, _depth + 1)
            if r is not None:
                return r
            return None
        return ("ext", full)

    def resolve_attr_chain(self, module, expr):
        """Resolve Name / Attribute chains that denote module members
        (u.EXPLOIT_PROB, benchmark.AVAIL_GEN_BENCHMARKS, np.random.rand)."""
        if isinstance(expr, ast.Name):
            return self.resolve_name(module, expr.id)
        if isinstance(expr, ast.Attribute):
            base = self.resolve_attr_chain(module, expr.value)
            if base is None:
                return None
            if base[0] == "module":
                return self.resolve_name(base[1], expr.attr)
            if base[0] == "ext":
                return ("ext", base[1] + "." + expr.attr)
            if base[0] == "class":
                ci = base[1]
                fi = ci.find_method(expr.attr)
                if fi is not None:
                    return ("func", fi)
                oc, ex = ci.find_class_attr(expr.attr)
                if ex is not None:
                    return ("classattr", oc, expr.attr, ex)
        return None

    def _link_classes(self):
        for m in self.modules.values():
            for c in m.classes.values():
                for b in c.base_exprs:
                    r = self.resolve_attr_chain(m, b)
                    if r and r[0] == "class":
                        c.bases.append(r[1])
                    elif r and r[0] == "ext":
                        c.ext_bases.append(r[1])
                    else:
                        c.ext_bases.append(ast.unparse(b))

    def subclasses(self, ci):
        return [c for c in self.all_classes() if ci in c.mro()]

    # --------------------------------------------------------- constant folding
    def const(self, module, expr, _depth=0):
        """Fold expr (in module scope) to a Python constant.  Returns
        (True, value) or (False, None)."""
        if _depth > 12:
            return False, None
        if isinstance(expr, ast.Constant):
            return True, expr.value
        if isinstance(expr, (ast.Tuple, ast.List)):
            vals = []
            for e in expr.elts:
                if isinstance(e, ast.Starred):
                    # [*A, *range(n)]: splice a foldable sequence / the keys of a foldable dict
                    ok, v = self.const(module, e.value, _depth + 1)
                    if not ok or not isinstance(v, (list, tuple, dict, range)):
                        return False, None
                    vals.extend(list(v))
                    continue
                ok, v = self.const(module, e, _depth + 1)
                if not ok:
                    return False, None
                vals.append(v)
            return True, (tuple(vals) if isinstance(expr, ast.Tuple) else vals)
        if isinstance(expr, ast.Call) and isinstance(expr.func, ast.Name) \
                and expr.func.id in ("range", "list", "tuple", "sorted", "len", "frozenset") \
                and not expr.keywords and 1 <= len(expr.args) <= 3:
            args = []
            for a in expr.args:
                ok, v = self.const(module, a, _depth + 1)
                if not ok:
                    return False, None
                args.append(v)
            try:
                if expr.func.id == "range" and all(isinstance(a, int) for a in args) \
                        and len(range(*args)) <= 64:
                    return True, list(range(*args))
                if expr.func.id == "frozenset" and len(args) == 1 \
                        and isinstance(args[0], (list, tuple)):
                    return True, frozenset(args[0])
                if expr.func.id in ("list", "tuple", "sorted", "len") and len(args) == 1 \
                        and isinstance(args[0], (list, tuple, dict)):
                    seq = list(args[0])
                    return True, {"list": seq, "tuple": tuple(seq), "sorted": sorted(seq),
                                  "len": len(seq)}[expr.func.id]
            except Exception:
                return False, None
            return False, None
        if isinstance(expr, ast.Dict):
            d = {}
            for k, v in zip(expr.keys, expr.values):
                if k is None:
                    ok, vv = self.const(module, v, _depth + 1)
                    if not ok or not isinstance(vv, dict):
                        return False, None
                    d.update(vv)
                    continue
                ok1, kk = self.const(module, k, _depth + 1)
                ok2, vv = self.const(module, v, _depth + 1)
                if not ok1:
                    return False, None
                d[kk] = vv if ok2 else _Unfolded(ast.unparse(v))
            return True, d
        if isinstance(expr, ast.UnaryOp) and isinstance(expr.op, ast.USub):
            ok, v = self.const(module, expr.operand, _depth + 1)
            if ok and isinstance(v, (int, float)):
                return True, -v
            return False, None
        if isinstance(expr, ast.BinOp):
            ok1, a = self.const(module, expr.left, _depth + 1)
            ok2, b = self.const(module, expr.right, _depth + 1)
            if ok1 and ok2:
                try:
                    if isinstance(expr.op, ast.Add):
                        return True, a + b
                    if isinstance(expr.op, ast.Sub):
                        return True, a - b
                    if isinstance(expr.op, ast.Mult):
                        return True, a * b
                except Exception:
                    return False, None
            return False, None
        if isinstance(expr, (ast.Name, ast.Attribute)):
            r = self.resolve_attr_chain(module, expr)
            if r is None:
                return False, None
            if r[0] == "assign":
                return self.const(r[1], r[2], _depth + 1)
            if r[0] == "classattr":
                oc = r[1]
                # enum members / class level constants
                if isinstance(r[3], ast.Constant) or isinstance(r[3], (ast.BinOp, ast.Name)):
                    return self.class_const(oc, r[2], _depth + 1)
                return self.const(oc.module, r[3], _depth + 1)
            if r[0] == "class":
                return True, ClassRef(r[1])
            return False, None
        if isinstance(expr, ast.Call) and isinstance(expr.func, ast.Name) \
                and expr.func.id == "dict" and not expr.args:
            d = {}
            for kw in expr.keywords:
                if kw.arg is None:
                    return False, None
                ok, v = self.const(module, kw.value, _depth + 1)
                d[kw.arg] = v if ok else _Unfolded(ast.unparse(kw.value))
            return True, d
        return False, None

    def class_const(self, ci, name, _depth=0):
        """Fold a class-level attribute whose expression may refer to sibling
        class-level names (Observation._conn_error_idx = _success_idx + 1)."""
        oc, ex = ci.find_class_attr(name)
        if ex is None or _depth > 12:
            return False, None

        def ev(e, d):
            if isinstance(e, ast.Constant):
                return True, e.value
            if isinstance(e, ast.Name):
                c2, e2 = oc.find_class_attr(e.id)
                if e2 is not None and d < 12:
                    return ev(e2, d + 1)
                return self.const(oc.module, e, d + 1)
            if isinstance(e, ast.BinOp):
                o1, a = ev(e.left, d + 1)
                o2, b = ev(e.right, d + 1)
                if o1 and o2 and isinstance(a, (int, float)) and isinstance(b, (int, float)):
                    if isinstance(e.op, ast.Add):
                        return True, a + b
                    if isinstance(e.op, ast.Sub):
                        return True, a - b
                return False, None
            return self.const(oc.module, e, d + 1)
        return ev(ex, _depth)


class ClassRef:
    def __init__(self, ci):
        self.ci = ci

    def __repr__(self):
        return f"ClassRef({self.ci.name})"

    def __eq__(self, o):
        return isinstance(o, ClassRef) and o.ci is self.ci

    def __hash__(self):
        return hash(id(self.ci))


class _Unfolded:
    def __init__(self, text):
        self.text = text

    def __repr__(self):
        return f"<unfolded {self.text}>"


def loc(fi_or_mod, node):
    path = fi_or_mod.module.path if hasattr(fi_or_mod, "module") else fi_or_mod.path
    return f"{path}:{getattr(node, 'lineno', 0)}"


# ------------------------------------------------------------------------------------------
# one spelling per test, for the (few) rules that match statement shapes syntactically
_NEG_OP = {ast.In: ast.NotIn, ast.NotIn: ast.In, ast.Eq: ast.NotEq, ast.NotEq: ast.Eq,
           ast.Is: ast.IsNot, ast.IsNot: ast.Is}
_POSITIVE = (ast.Lt, ast.In, ast.Eq, ast.Is)


class _CanonTests(ast.NodeTransformer):
    """`a > b` is `b < a`; `a >= b` is `b <= a`; `not (x op y)` is the comparison with the negated
    operator (order comparisons are negated only between len()/integer-counter operands by the
    callers that rely on it: `not a < b` is `b <= a`); an if/else whose test is a negative
    comparison is the if/else of the positive one with the branches exchanged."""

    def visit_Compare(self, node):
        self.generic_visit(node)
        if len(node.ops) == 1 and isinstance(node.ops[0], (ast.Gt, ast.GtE)):
            new = ast.Compare(left=node.comparators[0],
                              ops=[ast.Lt() if isinstance(node.ops[0], ast.Gt) else ast.LtE()],
                              comparators=[node.left])
            return ast.copy_location(new, node)
        return node

    def visit_UnaryOp(self, node):
        self.generic_visit(node)
        if isinstance(node.op, ast.Not):
            x = node.operand
            if isinstance(x, ast.Compare) and len(x.ops) == 1:
                op = type(x.ops[0])
                if op in _NEG_OP:
                    return ast.copy_location(
                        ast.Compare(left=x.left, ops=[_NEG_OP[op]()], comparators=x.comparators),
                        node)
                if op in (ast.Lt, ast.LtE):       # (Gt / GtE are already mirrored)
                    return ast.copy_location(
                        ast.Compare(left=x.comparators[0],
                                    ops=[ast.LtE() if op is ast.Lt else ast.Lt()],
                                    comparators=[x.left]), node)
        return node

    def visit_Assign(self, node):
        # x = x + e  (x = e + x for +)  is  x += e
        self.generic_visit(node)
        if len(node.targets) == 1 and isinstance(node.targets[0], ast.Name) \
                and isinstance(node.value, ast.BinOp) \
                and isinstance(node.value.op, (ast.Add, ast.Sub)):
            x, v = node.targets[0].id, node.value
            if isinstance(v.left, ast.Name) and v.left.id == x:
                return ast.copy_location(ast.AugAssign(
                    target=ast.Name(id=x, ctx=ast.Store()), op=v.op, value=v.right), node)
            if isinstance(v.op, ast.Add) and isinstance(v.right, ast.Name) and v.right.id == x \
                    and isinstance(v.left, ast.Constant) and isinstance(v.left.value, int):
                return ast.copy_location(ast.AugAssign(
                    target=ast.Name(id=x, ctx=ast.Store()), op=v.op, value=v.left), node)
        return node

    def visit_If(self, node):
        self.generic_visit(node)
        if node.orelse and not (len(node.orelse) == 1 and isinstance(node.orelse[0], ast.If)):
            t = node.test
            flip = None
            if isinstance(t, ast.UnaryOp) and isinstance(t.op, ast.Not):
                flip = t.operand
            elif isinstance(t, ast.Compare) and len(t.ops) == 1 \
                    and not isinstance(t.ops[0], _POSITIVE):
                op = type(t.ops[0])
                if op in _NEG_OP:
                    flip = ast.Compare(left=t.left, ops=[_NEG_OP[op]()], comparators=t.comparators)
                elif op is ast.LtE:
                    flip = ast.Compare(left=t.comparators[0], ops=[ast.Lt()], comparators=[t.left])
            if flip is not None:
                ast.copy_location(flip, t)
                node.test = flip
                node.body, node.orelse = node.orelse, node.body
        return node


_canon_cache = {}


def canonical_tests(node):
    """a copy of a function's syntax tree (line numbers kept) with one spelling per test"""
    import copy
    key = id(node)
    hit = _canon_cache.get(key)
    if hit is None or hit[0] is not node:
        new = _CanonTests().visit(copy.deepcopy(node))
        ast.fix_missing_locations(new)
        hit = _canon_cache[key] = (node, new)
    return hit[1]


def private_names(repo):
    """every identifier with one leading underscore that the library defines: attributes that are
    stored, functions / methods, module-level and class-level names"""
    out = set()
    for m in repo.modules.values():
        for n in ast.walk(m.tree):
            name = None
            if isinstance(n, ast.Attribute) and isinstance(n.ctx, ast.Store):
                name = n.attr
            elif isinstance(n, (ast.FunctionDef, ast.ClassDef)):
                name = n.name
            elif isinstance(n, ast.Name) and isinstance(n.ctx, ast.Store):
                name = n.id
            if name and name.startswith("_") and not name.startswith("__"):
                out.add(name)
    return out
