"""Shared analysis context: repo model, types, layout, and the per-action-class
partial evaluation of the transition function (the *gate table*)."""
import ast

from .model import Repo, AnalysisError
from .types import Types
from .layout import Layout
from .interp import Interp, C
from .canon import (Canon, f_and, f_or, f_not, f_atoms, f_eval, f_show, f_key, A,
                    f_implies)

NET_MOD = "nasim.envs.network"
ACT_MOD = "nasim.envs.action"
ENV_MOD = "nasim.envs.environment"
STATE_MOD = "nasim.envs.state"
HV_MOD = "nasim.envs.host_vector"
OBS_MOD = "nasim.envs.observation"

ACTION = ("obj", None, "A")


class Ctx:
    def __init__(self, overrides=None, root=None):
        self.repo = Repo(root=root, overrides=overrides)
        self.types = Types(self.repo)
        self.layout = Layout(self.repo)
        self._dispatch = {}
        self.action_classes = self._action_classes()

    def _action_classes(self):
        base = self.repo.cls(ACT_MOD, "Action")
        out = [c.name for c in self.repo.subclasses(base) if c is not base]
        if len(out) < 7:
            raise AnalysisError(f"expected >= 7 concrete action classes, found {out}")
        return sorted(out)

    def interp(self, **param_types):
        return Interp(self.repo, self.types, param_types=param_types)

    def dispatch(self, K):
        if K not in self._dispatch:
            self._dispatch[K] = Dispatch(self, K)
        return self._dispatch[K]


class Effect:
    """a store into array storage (or a non-fresh attribute) with its classification"""
    def __init__(self, ev, kind, root, addr, fam, elem, value):
        self.ev, self.kind, self.root, self.addr = ev, kind, root, addr
        self.fam, self.elem, self.value = fam, elem, value

    def __repr__(self):
        return f"<Effect {self.kind} {self.root} {self.addr} {self.fam} @{self.ev.loc}>"


def classify_root(cn, t):
    """root object of a normalised storage term -> (kind, description, site)
    kinds: PARAM_STATE (caller-owned storage), FRESH (np.copy / np.zeros made in this
    activation), OTHER"""
    if t[0] == "tensor":
        return ("OWNED", cn.show(t[1]), None)
    if t[0] == "copy":
        return ("FRESH", f"copy({cn.show(t[1])})", t[2])
    if t[0] == "zeros":
        return ("FRESH", "zeros", t[3])
    if t[0] == "row":
        k, d, s = classify_root(cn, t[1])
        return (k, d, s)
    if t[0] == "rows":
        return classify_root(cn, t[1])
    return ("OTHER", cn.show(t), None)


def _arrayish(t, depth=0):
    if not isinstance(t, tuple) or not t or depth > 12:
        return False
    k = t[0]
    if k in ("comp", "listobj", "list", "tuple", "setlit", "slice", "cmp", "loopout", "unknown"):
        return True
    if k == "call" and isinstance(t[1], str) and (t[1].startswith("numpy.") or t[1].startswith("?")):
        return True
    if k == "attr" and isinstance(t[2], str) and t[2].startswith("_"):
        return True
    if k == "const":
        return isinstance(t[1], (tuple, list))
    return any(_arrayish(x, depth + 1) for x in t[1:] if isinstance(x, tuple))


def store_effect(cn, ev):
    """classify a store event into an Effect (or None for local containers / fresh
    object fields)"""
    d = ev.data
    if d["target"] == "attr":
        if d.get("fresh"):
            return None
        return Effect(ev, "attr", cn.show(d["base"]), None, d["name"], None, d["value"])
    base = cn.norm(d["base"])
    idx = cn.norm(d["idx"])
    if d["base"][0] in ("dictobj", "listobj"):
        return None
    if base[0] in ("tensor", "copy", "zeros") and cn._is_tensor(base):
        # row or block store
        if idx[0] == "sub" and idx[1][0] == "attr" and idx[1][2] == cn.map_attr:
            return Effect(ev, "row", base, idx[2], "ROW", "ALL", d["value"])
        if idx[0] == "slice":
            return Effect(ev, "block", base, idx, "ALL", "ALL", d["value"])
        if idx[0] == "tuple" and len(idx[1]) == 2 and idx[1][0][0] == "slice" \
                and idx[1][0][1] == C(None) and idx[1][0][2] == C(None):
            # T[:, col] = v : one column of every row
            fam, elem = cn.index_family(idx[1][1])
            return Effect(ev, "column", base, "ALL-ROWS", fam, elem, d["value"])
        r0 = idx[1][0] if idx[0] == "tuple" and len(idx[1]) == 2 else None
        # (one row - not an index array / mask: nothing in the row index is a sequence, a numpy
        # call or a private table)
        scalar_row = r0 is not None and not _arrayish(r0)
        if scalar_row and idx[1][1][0] != "slice" and d["idx"][0] == "tuple":
            # T[r, c] = v  is  T[r][c] = v : one cell of the row r
            import copy as _copy
            ev2 = _copy.copy(ev)
            ev2.data = dict(d, base=("sub", d["base"], d["idx"][1][0]), idx=d["idx"][1][1])
            return store_effect(cn, ev2)
        return Effect(ev, "row", base, ("idx", idx), "ROW", "ALL", d["value"])
    if cn._is_vector(base):
        fam, elem = cn.index_family(idx)
        addr = None
        b = base
        while b[0] == "copy":
            b = b[1]
        if b[0] == "row":
            addr = b[2]
        return Effect(ev, "cell", base, addr, fam, elem, d["value"])
    if base[0] == "row" or (base[0] == "sub"):
        return Effect(ev, "other", base, None, "?", None, d["value"])
    return Effect(ev, "other", base, None, "?", None, d["value"])


class Outcome:
    def __init__(self, pc, state_t, result_t, fields, F):
        self.pc, self.state_t, self.result_t, self.fields, self.F = pc, state_t, result_t, fields, F

    def flag(self, name):
        v = self.fields.get(name)
        if v is not None and v[0] == "const":
            return v[1]
        return v


class Dispatch:
    """Partial evaluation of Network.perform_action for one concrete action class."""

    def __init__(self, ctx, K):
        self.ctx = ctx
        self.K = K
        repo = ctx.repo
        self.fi = repo.func(NET_MOD, "Network.perform_action")
        if len(self.fi.params) < 3:
            raise AnalysisError("Network.perform_action no longer takes (self, state, action)")
        p_self, p_state, p_action = self.fi.params[:3]
        self.ip = Interp(repo, ctx.types, param_types={p_self: "Network", p_state: "State"})
        self.action = ("obj", K, "A")
        self.summary = self.ip.run(self.fi, {p_action: self.action})
        self.cn = Canon(self.ip, ctx.layout,
                        names={self.action: "action", ("param", p_self): "net",
                               ("param", p_state): "state"})
        self.state_param = ("param", p_state)
        self._sat_cache = {}
        self._collect_effects()
        self._collect_outcomes()

    # ------------------------------------------------------------------
    def _collect_effects(self):
        cn = self.cn
        self.effects = []
        for ev in self.summary.events:
            if ev.kind != "store":
                continue
            ef = store_effect(cn, ev)
            if ef is not None:
                self.effects.append(ef)
        # copies whose column family is never written read through to their source
        written = set()
        for ef in self.effects:
            if ef.kind in ("cell", "row", "block") and isinstance(ef.root, tuple):
                r = ef.root
                while r[0] == "row":
                    r = r[1]
                if r[0] in ("copy", "zeros"):
                    site = r[2] if r[0] == "copy" else r[3]
                    written.add((site, ef.fam))
        self.written = written
        cn.written = written
        cn._memo.clear()
        self.draws = [ev for ev in self.summary.events
                      if ev.kind == "call" and ev.data["fname"].startswith("numpy.random.")]
        self.other_entropy = [ev for ev in self.summary.events
                              if ev.kind == "call" and (
                                  ev.data["fname"].startswith("random.")
                                  or ev.data["fname"].split(".")[0] in ("time", "uuid",
                                                                       "secrets")
                                  or ev.data["fname"] == "os.urandom")]

    def _collect_outcomes(self):
        self.outcomes = []
        self.malformed = []
        work = list(self.summary.returns)
        while work:
            pc, t = work.pop(0)
            # a conditional result (helper with two exits, conditional expression) is one outcome
            # per alternative
            if t[0] == "phi":
                work[:0] = [(tuple(pc) + (t[1],), t[2]), (tuple(pc) + (("not", t[1]),), t[3])]
                continue
            if t[0] == "cases":
                work[:0] = [(tuple(pc) + tuple(c for c in cpc if c not in pc), x)
                            for cpc, x in t[1]]
                continue
            if not sat(self.conj(pc)):
                continue            # infeasible combination of a conditional value's alternatives
            if t[0] != "tuple" or len(t[1]) != 2:
                self.malformed.append((pc, t))
                continue
            st, res = t[1]
            fields = None
            if res[0] == "new" and res[1] == "ActionResult":
                fields = self.ip.heap[res[2]]["fields"]
            else:
                self.malformed.append((pc, t))
                continue
            self.outcomes.append(Outcome(pc, st, res, fields, self.conj(pc)))

    # ------------------------------------------------------------------ helpers
    def conj(self, pc):
        return self.cn.conj(pc)

    def strip_assumptions(self, F, allowed_prefixes=("action.target", "net.subnets",
                                                     "len(net.subnets)", "0")):
        return F

    def effects_under(self, outcome):
        """effects that can have happened on the path to this outcome: their path
        condition is jointly satisfiable with the outcome's"""
        out = []
        rset = set(outcome.pc)
        for ef in self.effects:
            if all((c in rset) or c[0] == "inloop" for c in ef.ev.pc):
                out.append(ef)
                continue
            key = (ef.ev.seq, outcome.pc)
            if key not in self._sat_cache:
                g = self.conj(ef.ev.pc)
                self._sat_cache[key] = sat(f_and([g, outcome.F]))
            if self._sat_cache[key]:
                out.append(ef)
        return out


def sat(F):
    atoms = sorted(f_atoms(F))
    if len(atoms) > 18:
        return True
    import itertools
    for bits in itertools.product((False, True), repeat=len(atoms)):
        if f_eval(F, dict(zip(atoms, bits))):
            return True
    return False
