"""Thorough tier, common part: (1) the property's self-validation catalogue (seeded mutants must be
reported, benign variants must not), (2) a second extractor - store / call / comparison sites
re-derived from bytecode (compile + dis, nothing executed) must agree with the AST fact base,
(3) a whole-package scan for escape hatches that would defeat the static model."""
import ast
import dis
import os

from .model import AnalysisError


def bytecode_crosscheck(repo):
    """per function: number of subscript/attribute stores and of comparison operators seen in
    the AST vs. in the compiled bytecode"""
    compared = 0
    mismatches = []
    for m in repo.modules.values():
        if not (m.name.startswith("nasim.envs") or m.name.startswith("nasim.scenarios")
                or m.name == "nasim"):
            continue
        try:
            code = compile(m.src, m.path, "exec")
        except SyntaxError as e:
            raise AnalysisError(f"{m.path} does not compile: {e}")
        codes = {}

        def walk(co, prefix=""):
            for c in co.co_consts:
                if hasattr(c, "co_code"):
                    q = c.co_qualname if hasattr(c, "co_qualname") else prefix + c.co_name
                    codes.setdefault(q, []).append(c)
                    walk(c, q + ".")
        walk(code)
        for fi in list(m.functions.values()) + [f for c in m.classes.values()
                                                  for f in list(c.methods.values())
                                                  + list(c.setters.values())]:
            cos = [c for c in codes.get(fi.qualname, [])
                   if c.co_firstlineno in (fi.node.lineno, *[d.lineno for d in
                                                             fi.node.decorator_list])]
            if len(cos) != 1:
                continue
            co = cos[0]
            a_sub = a_attr = a_cmp = 0
            nested = set()
            for n in ast.walk(fi.node):
                if n is not fi.node and isinstance(n, (ast.FunctionDef, ast.Lambda, ast.ListComp,
                                                      ast.SetComp, ast.DictComp,
                                                      ast.GeneratorExp)):
                    for x in ast.walk(n):
                        if x is not n:
                            nested.add(id(x))
            for n in ast.walk(fi.node):
                if id(n) in nested:
                    continue
                if isinstance(n, ast.Subscript) and isinstance(n.ctx, ast.Store):
                    a_sub += 1
                if isinstance(n, ast.Attribute) and isinstance(n.ctx, ast.Store):
                    a_attr += 1
                if isinstance(n, ast.AugAssign) and isinstance(n.target, ast.Subscript):
                    pass     # counted through the Store context of the target
                if isinstance(n, ast.Compare):
                    left = n.left
                    for op, right in zip(n.ops, n.comparators):
                        none_test = isinstance(op, (ast.Is, ast.IsNot)) and (
                            (isinstance(right, ast.Constant) and right.value is None) or
                            (isinstance(left, ast.Constant) and left.value is None))
                        if not none_test:       # `x is None` compiles to POP_JUMP_IF_NONE
                            a_cmp += 1
                        left = right
            # distinct source positions: the compiler may duplicate a small tail block
            subs, attrs, cmps = set(), set(), []
            for ins in dis.get_instructions(co):
                pos = ins.positions
                key = (pos.lineno, pos.col_offset, pos.end_lineno, pos.end_col_offset) \
                    if pos is not None else (ins.offset,)
                if ins.opname in ("STORE_SUBSCR", "STORE_SLICE"):
                    subs.add(key)
                elif ins.opname == "STORE_ATTR":
                    attrs.add(key)
                elif ins.opname in ("COMPARE_OP", "CONTAINS_OP", "IS_OP"):
                    cmps.append(key)
            b_sub, b_attr, b_cmp = len(subs), len(attrs), len(cmps)
            compared += 1
            # comprehensions are inlined in 3.12: allow bytecode >= ast for comparisons
            if a_sub != b_sub or a_attr != b_attr or b_cmp < a_cmp:
                mismatches.append(f"{m.path}:{fi.qualname} ast(sub={a_sub},attr={a_attr},"
                                  f"cmp={a_cmp}) bytecode(sub={b_sub},attr={b_attr},cmp={b_cmp})")
    return compared, mismatches


def escape_hatches(repo):
    """constructs that would make the AST-level model unsound"""
    found = []
    for m in repo.modules.values():
        if not (m.name.startswith("nasim.envs") or m.name.startswith("nasim.scenarios")
                or m.name == "nasim"):
            continue
        for n in ast.walk(m.tree):
            loc = f"{m.path}:{getattr(n, 'lineno', 0)}"
            if isinstance(n, ast.Call) and isinstance(n.func, ast.Name):
                f = n.func.id
                if f in ("setattr", "delattr") or (f == "getattr" and len(n.args) >= 2
                                                   and not isinstance(n.args[1], ast.Constant)):
                    found.append(f"{loc}: {f}() with a computed attribute name")
                if f in ("exec", "compile", "__import__", "globals", "locals", "vars"):
                    found.append(f"{loc}: {f}()")
                if f == "eval" and m.name != "nasim.scenarios.loader":
                    found.append(f"{loc}: eval() outside the loader's address evaluation")
            if isinstance(n, ast.Attribute) and n.attr == "__dict__":
                found.append(f"{loc}: __dict__ access")
            if isinstance(n, ast.Attribute) and isinstance(n.ctx, ast.Store) \
                    and isinstance(n.value, ast.Attribute) and n.value.attr == "random" \
                    and isinstance(n.value.value, ast.Name) and n.value.value.id == "np":
                found.append(f"{loc}: np.random.{n.attr} is re-bound")
    return found


def run_common(ctx, chk, seed=0):
    from selfval.run import run as sv_run
    out = sv_run([chk.pid], seed=seed)
    chk.extra["self_validation"] = {k: out[k] for k in (
        "mutants_total", "mutants_caught", "mutants_skipped", "benign_total", "benign_silent")}
    chk.extra["self_validation"]["caught"] = out["caught"][:40]
    bad = out["misses"] or out["false_alarms"] or out["errors"]
    compared, mism = bytecode_crosscheck(ctx.repo)
    chk.extra["bytecode_facts_compared"] = compared
    chk.extra["bytecode_mismatches"] = mism[:10]
    hatches = escape_hatches(ctx.repo)
    chk.extra["escape_hatches"] = hatches
    for h in hatches:
        chk.note(f"model assumption at risk: {h}")
    if bad:
        raise AnalysisError("self-validation failed: " + "; ".join(
            [f"mutant {m['mutant']} not reported" for m in out["misses"]] +
            [f"benign variant {f['variant']} reported ({f['report']})" for f in out["false_alarms"]] +
            [f"{e.get('mutant') or e.get('variant')}: {e['status']}" for e in out["errors"]])[:800])
    if mism:
        raise AnalysisError("AST / bytecode fact bases disagree: " + "; ".join(mism[:3]))
