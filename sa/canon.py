"""Canonicalisation of interpreter terms into *semantic* terms and boolean
formulas over string atoms, plus exact comparison of formulas by truth table.

Semantic nodes produced by Canon.norm():
  ('tensor', S)                 the 2-D storage of state S
  ('copy', X, site)             np.copy of X (fresh)
  ('zeros', shape, dtype, site) np.zeros (fresh)
  ('row', T, A)                 row view of tensor T for host address A
  ('cell', V, fam, elem)        element (or whole group slice, elem='ALL') of vector V in column family fam
"""
import itertools

from .layout import lf_add, lf, GROUPS
from .interp import C

STATE_MOD = "nasim.envs.state"


class Canon:
    def __init__(self, interp, layout, names=None):
        self.ip = interp
        self.layout = layout
        self.names = dict(names or {})   # term -> display name (('obj','Exploit','A') -> 'action')
        repo = interp.repo
        st = repo.cls(STATE_MOD, "State")
        init = st.methods.get("__init__")
        self.tensor_attr, self.map_attr = "tensor", "host_num_map"
        if init is not None and len(init.params) >= 3:
            # self.<X> = <first param>, self.<Y> = <second param>
            import ast
            for n in ast.walk(init.node):
                if isinstance(n, ast.Assign) and isinstance(n.targets[0], ast.Attribute) \
                        and isinstance(n.value, ast.Name):
                    if n.value.id == init.params[1]:
                        self.tensor_attr = n.targets[0].attr
                    elif n.value.id == init.params[2]:
                        self.map_attr = n.targets[0].attr
        self._memo = {}
        self._smemo = {}          # id(term) -> (term, text): _show is called on DAG-shaped terms
        self._self_hits = 0

    @property
    def written(self):
        return self.__dict__.get("_written")

    @written.setter
    def written(self, v):
        # read-through of unwritten copies depends on it: drop everything derived
        self.__dict__["_written"] = v
        self._memo.clear()
        self._smemo.clear()

    # ------------------------------------------------------------------ norm
    def norm(self, t):
        if not isinstance(t, tuple) or not t:
            return t
        if t in self._memo:
            return self._memo[t]
        r = self._norm(t)
        self._memo[t] = r
        return r

    def _norm(self, t):
        k = t[0]
        if k in ("const", "param", "obj", "classref", "funcref", "ext", "module", "undef",
                 "unknown", "clsattr", "global", "inloop", "exc", "loopcarried"):
            return t
        if k == "new":
            return t
        if k == "typed":
            return self.norm(t[2])
        if k == "fact":
            return self.norm(t[1])
        if k == "istype":
            return ("istype", self.norm(t[1]), t[2])
        if k == "attr":
            b = self.norm(t[1])
            if t[2] == self.tensor_attr and self.ip.type_name(t[1]) in ("State", "Observation"):
                return ("tensor", b)
            return ("attr", b, t[2])
        if k == "call":
            name = t[1]
            args = tuple(self.norm(a) for a in t[2])
            kws = tuple((kk, self.norm(v)) for kk, v in t[3])
            if name == "numpy.copy" and args:
                return ("copy", args[0], t[4])
            if name in ("numpy.zeros",) and args:
                dt = dict(kws).get("dtype", args[1] if len(args) > 1 else None)
                return ("zeros", args[0], dt, t[4])
            if name in ("builtins.bool",) and len(args) == 1:
                return ("truth", args[0])
            if name in ("builtins.int", "builtins.float") and len(args) == 1:
                return ("num", args[0])
            if name == "builtins.slice" and len(args) == 2:
                return ("slice", args[0], args[1], C(None))
            if name == "numpy.random.choice" and args and args[0][0] == "call" \
                    and args[0][1] in ("numpy.array", "numpy.asarray") and len(args[0][2]) == 1 \
                    and not args[0][3]:
                # choice converts its population to an array itself
                args = (args[0][2][0],) + tuple(args[1:])
            return ("call", name, args, kws, t[4])
        if k == "sub":
            if t[1][0] == "mcall" and t[1][2] == "get" and len(t[1][3]) == 2 and not t[1][4] \
                    and self.ip._empty_literal(t[1][3][1]):
                # D.get(k, <empty>)[o]: a subscript of the empty default raises, so where the
                # expression has a value it is D[k][o]
                return self.norm(("sub", ("sub", t[1][1], t[1][3][0]), t[2]))
            b = self.norm(t[1])
            i = self.norm(t[2])
            # tensor row
            if b[0] in ("tensor", "copy", "zeros") and self._is_tensor(b):
                if i[0] == "tuple" and len(i[1]) == 2 and i[1][0][0] != "slice" \
                        and i[1][1][0] != "slice":
                    # T[r, c] is T[r][c]
                    return self.norm(("sub", ("sub", t[1], t[2][1][0] if t[2][0] == "tuple"
                                              else i[1][0]),
                                      t[2][1][1] if t[2][0] == "tuple" else i[1][1]))
                if i[0] == "sub" and i[1][0] == "attr" and i[1][2] == self.map_attr:
                    return ("row", b, i[2])
                if i[0] == "slice":
                    return ("rows", b, i)
                return ("row", b, ("idx", i))
            if self._is_vector(b):
                fam, elem = self.index_family(i)
                return ("cell", b, fam, elem)
            rng = None                 # the iterable the index ranges over
            if i[0] == "elem":
                rng = i[1]
            elif i[0] == "sub" and i[2] == C(1) and i[1][0] == "elem" and i[1][1][0] == "call" \
                    and i[1][1][1] == "builtins.enumerate" and len(i[1][1][2]) == 1:
                rng = i[1][1][2][0]        # the value part of enumerate(IT)'s element
            if b[0] == "dictobj" and rng is not None:
                # the same for a dict filled by one unconditional store per element of IT
                h = self.ip.heap.get(b[1], {})
                if not h.get("items") and len(h.get("dyn", ())) == 1:
                    k_, v_, pc_ = h["dyn"][0]
                    rel = tuple(c for c in pc_[len(h.get("pc0", ())):] if c[0] != "fact") \
                        if tuple(pc_[:len(h.get("pc0", ()))]) == tuple(h.get("pc0", ())) else None
                    if rel is not None and len(rel) == 1 and rel[0][0] == "inloop" \
                            and isinstance(k_, tuple) and k_[0] == "elem" and k_[2] == rel[0][1] \
                            and self.norm(k_[1]) == self.norm(rng):
                        return self.norm(_subst_term(v_, k_, i)) if k_ != i else self.norm(v_)
            if b[0] == "comp" and b[1] == "dict" and len(b[2]) == 2 and len(b[3]) == 1 \
                    and not b[3][0][2]:
                # D[k] for D = {K(x): V(x) for x in IT} and k = K(x') with x' ranging over the same
                # IT: V(x')
                lid, it, _ = b[3][0]
                x_old = ("elem", it, lid)
                if b[2][0] == x_old and i[0] != "slice":
                    # keyed by the element itself: D[k] is V(k) for whatever k it is asked for (a k
                    # outside IT raises KeyError - as the look-up it replaces does)
                    return self.norm(_subst_term(b[2][1], x_old, i))
            if b[0] == "cell" and b[3] == "ALL" and i[0] != "slice":
                # the i-th entry of a whole group segment v[start:end] is the group's entry i
                # (in the linear form the layout uses: start + i)
                return ("cell", b[1], b[2], i)
            return ("sub", b, i)
        if k == "slice":
            return ("slice",) + tuple(self.norm(x) for x in t[1:])
        if k in ("not", "truth", "num", "neg"):
            return (k, self.norm(t[1]))
        if k in ("and", "or"):
            return (k, tuple(self.norm(x) for x in t[1]))
        if k == "cmp":
            a_, b_ = self.norm(t[2]), self.norm(t[3])
            if t[1] in ("in", "notin"):
                # membership in frozenset(X) / set(X) / tuple(X) / list(X) is membership in X
                while b_[0] == "call" and b_[1] in ("builtins.frozenset", "builtins.set",
                                                    "builtins.tuple", "builtins.list") \
                        and len(b_[2]) == 1 and not b_[3]:
                    b_ = b_[2][0]
            return ("cmp", t[1], a_, b_)
        if k == "bin":
            return ("bin", t[1], self.norm(t[2]), self.norm(t[3]))
        if k == "phi":
            c, a, b = self.norm(t[1]), self.norm(t[2]), self.norm(t[3])
            if a == b:
                return a                  # both alternatives are the same value
            # canonical orientation: positive condition first
            while True:
                if c[0] == "not":
                    c, a, b = c[1], b, a
                elif c[0] == "cmp" and c[1] in ("notin", "!=", "isnot"):
                    c = ("cmp", {"notin": "in", "!=": "==", "isnot": "is"}[c[1]], c[2], c[3])
                    a, b = b, a
                else:
                    break
            return ("phi", c, a, b)
        if k == "cases":
            return ("cases", tuple((tuple(self.norm(c) for c in pc), self.norm(x))
                                   for pc, x in t[1]))
        if k == "elem":
            return ("elem", self.norm(t[1]), t[2])
        if k == "proj":
            return ("sub", self.norm(t[1]), C(t[2]))
        if k in ("tuple", "list", "setlit"):
            return (k, tuple(self.norm(x) for x in t[1]))
        if k == "mcall":
            recv = self.norm(t[1])
            args = tuple(self.norm(a) for a in t[3])
            if t[2] == "keys" and not args and not t[4]:
                # d.keys() iterates / tests membership / has the length of d itself
                return recv
            if t[2] == "copy" and not args and not t[4] \
                    and (self._is_vector(recv) or self._is_tensor(recv)):
                # ndarray.copy() is np.copy(ndarray)
                return ("copy", recv, ("method-copy", self._show(recv, {})))
            if t[2] == "get" and not t[4] and (
                    len(args) == 1 or (len(args) == 2 and args[1] == C(None))):
                # D.get(k) / D.get(k, None): the entry when present, None otherwise
                return self.norm(("phi", ("cmp", "in", args[0], recv), ("sub", recv, args[0]),
                                  C(None)))
            if t[2] == "get" and len(args) == 2 and not t[4] \
                    and recv[0] in ("dictobj", "comp") and (recv[0] != "comp" or recv[1] == "dict"):
                # m.get(k, d) on a mapping the analysed code built itself is the conditional
                # `k in m ? m[k] : d` (documents / scenario dicts keep their .get spelling)
                return self.norm(("phi", ("cmp", "in", args[0], recv), ("sub", recv, args[0]),
                                  args[1]))
            return ("mcall", recv, t[2], args, tuple((kk, self.norm(v)) for kk, v in t[4]))
        if k == "exists":
            return ("exists", t[1], tuple(self.norm(x) for x in t[2]))
        if k == "loopout":
            return ("loopout", t[1], t[2], self.norm(t[3]), self.norm(t[4]))
        if k == "kwget":
            return ("kwget", self.norm(t[1]), t[2], self.norm(t[3]))
        if k == "comp":
            return ("comp", t[1], tuple(self.norm(x) for x in t[2]),
                    tuple((lid, self.norm(it), tuple(self.norm(c) for c in conds))
                          for lid, it, conds in t[3]))
        if k == "fstr":
            return ("fstr",)
        if k == "boundmethod":
            return ("boundmethod", self.norm(t[1]), t[2])
        if k == "starred":
            return ("starred", self.norm(t[1]))
        return t

    def _is_tensor(self, b):
        """rank-2 storage: State/Observation tensors and copies of them"""
        if b[0] == "tensor":
            return True
        if b[0] == "copy":
            return self._is_tensor(b[1])
        if b[0] == "zeros":
            sh = b[1]
            return sh[0] in ("tuple",) and len(sh[1]) == 2 or \
                (sh[0] == "const" and isinstance(sh[1], tuple) and len(sh[1]) == 2) or \
                (sh[0] == "attr" and sh[2] in ("obs_shape",)) or \
                (sh[0] in ("tuple",) and len(sh[1]) == 2)
        return False

    def _is_vector(self, b):
        if b[0] == "row":
            return True
        if b[0] == "copy":
            return self._is_vector(b[1])
        if b[0] == "zeros":
            return not self._is_tensor(b)
        return False

    def index_family(self, i):
        """classify an index term of a host vector -> (family, elem)"""
        L = self.layout
        if i[0] == "clsattr" and i[1] == "HostVector":
            r = L.family_of_attr(i[2])
            if r is not None:
                fam, kind = r
                return fam, (None if kind == "scalar" else C(0))
            return f"?{i[2]}", None
        if i[0] == "bin" and i[1] == "+":
            for a, b in ((i[2], i[3]), (i[3], i[2])):
                if a[0] == "clsattr" and a[1] == "HostVector":
                    r = L.family_of_attr(a[2])
                    if r is not None and r[1] == "start":
                        return r[0], b
                    if r is not None:
                        return f"?{r[0]}+", b
        if i[0] == "slice":
            lo, hi = self._form(i[1]), self._form(i[2])
            if lo is not None and hi is not None:
                fam = L.family_of_slice(lo, hi)
                if fam is not None:
                    return fam, "ALL"
                # both bounds are known linear forms but the span is no documented family: a
                # definite mismatch (not an unmodelled index)
                from .layout import lf_str
                return f"MISALIGNED[{lf_str(lo)}:{lf_str(hi)}]", "ALL"
            if i[1] == C(None) and i[2] == C(None):
                return "ROW", "ALL"
            return "?slice", "ALL"
        if i[0] == "const" and isinstance(i[1], int):
            return f"@{i[1]}", None
        return "?idx", i

    def _form(self, t):
        if t[0] == "clsattr" and t[1] == "HostVector" and t[2] in self.layout.forms:
            return self.layout.forms[t[2]]
        if t[0] == "clsattr" and t[1] == "HostVector" and t[2] in self.layout.symbols:
            return {self.layout.symbols[t[2]]: 1}
        if t[0] == "const" and isinstance(t[1], int):
            return lf(t[1])
        if t[0] == "bin" and t[1] in ("+", "-"):
            a, b = self._form(t[2]), self._form(t[3])
            if a is not None and b is not None:
                return lf_add(a, b, 1 if t[1] == "+" else -1)
        return None

    # ------------------------------------------------------------------ show
    def show(self, t, loopnames=None):
        """compact canonical string of a (normalised) term"""
        if loopnames is None:
            loopnames = {}
        return self._show(self.norm(t), loopnames)

    def _show(self, t, ln):
        if not isinstance(t, tuple) or not t:
            return repr(t)
        m = self._smemo.get(id(t))
        if m is not None and m[0] is t:
            return m[1]
        busy = self.__dict__.get("_showing")
        ckey = None
        if busy:
            # inside the rendering of a container: the text may contain `@self` placeholders for
            # the enclosing containers, so it is only reusable for the same set of them
            ckey = (id(t), tuple(sorted(busy)))
            m = self._smemo.get(ckey)
            if m is not None and m[0] is t:
                self._emitted.extend(m[2])
                return m[1]
        em = self.__dict__.setdefault("_emitted", [])
        start = len(em)
        entry_busy = set(busy) if busy else ()
        r = self._show1(t, ln)
        dep = [i for i in em[start:] if i in entry_busy]
        if not dep:                      # placeholders (if any) refer to containers inside t only
            self._smemo[id(t)] = (t, r)
            if not entry_busy:
                del em[start:]
        elif ckey is not None:
            self._smemo[ckey] = (t, r, tuple(em[start:]))
        return r

    def _show1(self, t, ln):
        if self.names and t in self.names:
            return self.names[t]
        k = t[0]
        s = lambda x: self._show(x, ln)
        if k == "const":
            return repr(t[1])
        if k == "param":
            return t[1]
        if k == "obj":
            return f"<{t[1]}>"
        if k == "new":
            return f"new {t[1]}#{t[2]}"
        if k == "attr":
            al = self._alias(t)
            if al is not None:
                return al
            return f"{s(t[1])}.{t[2]}"
        if k == "tensor":
            return s(t[1])
        if k == "copy":
            return f"copy({s(t[1])})"
        if k == "zeros":
            return f"zeros({s(t[1])})"
        if k == "row":
            return f"{s(t[1])}[{s(t[2])}]"
        if k == "rows":
            return f"{s(t[1])}[{s(t[2])}]"
        if k == "cell":
            e = "" if t[3] is None else ("[:]" if t[3] == "ALL" else f"[{s(t[3])}]")
            return f"{s(self._readthrough(t[1], t[2]))}.{t[2]}{e}"
        if k == "sub":
            return f"{s(t[1])}[{s(t[2])}]"
        if k == "idx":
            return f"#{s(t[1])}"
        if k == "slice":
            f = lambda x: "" if x == C(None) else s(x)
            return f"{f(t[1])}:{f(t[2])}"
        if k == "clsattr":
            return f"{t[1]}.{t[2]}"
        if k == "global":
            return f"{t[1]}.{t[2]}"
        if k in ("classref",):
            return t[1]
        if k == "funcref":
            return t[1].split(":")[1]
        if k in ("ext", "module"):
            return t[1].replace("builtins.", "").replace("numpy.", "np.")
        if k == "truth":
            return s(t[1])
        if k == "num":
            return s(t[1])
        if k == "neg":
            return f"-{s(t[1])}"
        if k == "not":
            return f"!({s(t[1])})"
        if k in ("and", "or"):
            op = " & " if k == "and" else " | "
            return "(" + op.join(sorted(s(x) for x in t[1])) + ")"
        if k == "cmp":
            op = f" {t[1]} " if t[1] in ("in", "notin", "is", "isnot") else t[1]
            sa, sb = s(t[2]), s(t[3])
            # one spelling per comparison: symmetric operators put the constant operand last
            # (otherwise the smaller spelling first); a > b is b < a
            if t[1] in ("==", "!=", "is", "isnot"):
                ka = (t[2][0] == "const", sa)
                kb = (t[3][0] == "const", sb)
                if kb < ka:
                    sa, sb = sb, sa
            elif t[1] in (">", ">="):
                sa, sb, op = sb, sa, {">": "<", ">=": "<="}[t[1]]
            return f"{sa}{op}{sb}"
        if k == "bin":
            return f"({s(t[2])}{t[1]}{s(t[3])})"
        if k == "phi":
            return f"({s(t[1])} ? {s(t[2])} : {s(t[3])})"
        if k == "cases":
            return "cases{" + "; ".join(
                " & ".join(s(c) for c in pc if c[0] != "inloop") + " -> " + s(x)
                for pc, x in t[1]) + "}"
        if k == "elem":
            return f"each({s(t[1])})" + self._lsuffix(t[2], ln)
        if k in ("tuple", "list"):
            return "(" + ", ".join(s(x) for x in t[1]) + ")"
        if k == "setlit":
            return "{" + ", ".join(s(x) for x in t[1]) + "}"
        if k == "call":
            args = [s(a) for a in t[2]] + [f"{kk}={s(v)}" for kk, v in t[3]]
            nm = t[1].replace("builtins.", "").replace("numpy.", "np.")
            from .interp import known_external
            if ":" not in t[1] and not known_external(t[1]):
                nm = "?ext:" + nm          # no summary: whatever mentions it is not decided
            return f"{nm}({', '.join(args)})"
        if k == "mcall":
            args = [s(a) for a in t[3]] + [f"{kk}={s(v)}" for kk, v in t[4]]
            from .interp import KNOWN_METHODS
            if t[2] not in KNOWN_METHODS:
                return f"{s(t[1])}.?ext:{t[2]}({', '.join(args)})"
            return f"{s(t[1])}.{t[2]}({', '.join(args)})"
        if k == "exists":
            body = " & ".join(sorted(s(x) for x in t[2] if x[0] != "inloop"))
            return f"EXISTS{self._lsuffix(t[1], ln)}[{self._loop_iter(t[1], ln)}]({body})"
        if k == "loopout":
            return f"loop({t[1]}: {s(t[3])} -> {s(t[4])})"
        if k == "loopcarried":
            return f"@{t[1]}"
        if k == "kwget":
            return f"{s(t[1])}.get({t[2]!r}, {s(t[3])})"
        if k == "dictobj":
            # one rendering for a mapping whatever way it is written: constant items, then each
            # dynamic store with the loops and conditions it sits under (relative to the creation
            # of the dict) - the same text a dict comprehension gets
            h = self.ip.heap.get(t[1], {})
            busy = self.__dict__.setdefault("_showing", set())
            if t[1] in busy:          # a condition / element that mentions the container itself
                self.__dict__.setdefault("_emitted", []).append(t[1])
                return "{@self}"
            busy.add(t[1])
            try:
                items = [f"{kk!r}: {s(self.norm(v))}" for kk, v in h.get("items", {}).items()]
                for d in h.get("dyn", []):
                    if isinstance(d[0], tuple) and isinstance(d[1], tuple) \
                            and d[0][0] != "unknown":
                        items.append(f"{s(self.norm(d[0]))}: {s(self.norm(d[1]))}"
                                     + self._gens_rel(d[2], h.get("pc0", ()), ln))
                    else:
                        items.append("?dyn")
            finally:
                busy.discard(t[1])
            return "{" + ", ".join(items) + "}"
        if k == "listobj":
            h = self.ip.heap.get(t[1], {})
            busy = self.__dict__.setdefault("_showing", set())
            if t[1] in busy:
                self.__dict__.setdefault("_emitted", []).append(t[1])
                return "[@self]"
            busy.add(t[1])
            try:
                items = [s(self.norm(v)) for v in h.get("elts", [])]
                for d in h.get("dyn", []):
                    if d[0] in ("append", "extend") and len(d[1]) == 1:
                        star = "*" if d[0] == "extend" else ""
                        items.append(star + s(self.norm(d[1][0]))
                                     + self._gens_rel(d[2], h.get("pc0", ()), ln))
                    else:
                        items.append("?dyn")
            finally:
                busy.discard(t[1])
            return "[" + ", ".join(items) + "]"
        if k == "comp":
            gens = "".join(
                f" for each({s(it)}){self._lsuffix(lid, ln)}"
                + "".join(f" if {s(c)}" for c in conds) for lid, it, conds in t[3])
            if t[1] == "dict":
                return "{" + f"{s(t[2][0])}: {s(t[2][1])}{gens}" + "}"
            if t[1] == "list":
                return "[" + f"{s(t[2][0])}{gens}" + "]"
            return f"<{t[1]}comp {', '.join(s(x) for x in t[2])}{gens}>"
        if k == "closure":
            return f"<closure {t[2]}>"
        if k == "istype":
            return f"type({s(t[1])}) is {t[2]}"
        if k == "undef":
            return f"undef({t[1]})"
        if k == "unknown":
            return f"?{t[1]}"
        if k == "inloop":
            return f"inloop{self._lsuffix(t[1], ln)}"
        if k == "exc":
            return f"except({t[1]})"
        if k == "fstr":
            return "<fstr>"
        if k == "boundmethod":
            return f"{s(t[1])}.{t[2].split('.')[-1]}"
        if k == "starred":
            return f"*{s(t[1])}"
        return str(t)

    def _alias(self, t):
        """display an attribute that __init__ copies from a constructor parameter under the
        parameter's (public API) name: `self.X = P` -> base.P ; `self.X = P.Y` -> P.Y"""
        cname = self.ip.type_name(t[1])
        if cname is None:
            return None
        table = self._alias_tables().get(cname)
        if not table or t[2] not in table:
            return None
        kind, a, b = table[t[2]]
        if kind == "param":
            return f"{self._show(t[1], {})}.{a}"
        return f"{a}.{b}"

    def _alias_tables(self):
        if not hasattr(self, "_aliases"):
            import ast
            self._aliases = {}
            for ci in self.ip.repo.all_classes():
                tab = {}
                for c in reversed(ci.mro()):
                    init = c.methods.get("__init__")
                    if init is None:
                        continue
                    params = set(init.params[1:]) | {a.arg for a in init.node.args.kwonlyargs}
                    for st in init.node.body:
                        if isinstance(st, ast.Assign) and len(st.targets) == 1 \
                                and isinstance(st.targets[0], ast.Attribute) \
                                and isinstance(st.targets[0].value, ast.Name) \
                                and st.targets[0].value.id == init.params[0]:
                            v = st.value
                            if isinstance(v, ast.Name) and v.id in params:
                                tab[st.targets[0].attr] = ("param", v.id, None)
                            elif isinstance(v, ast.Attribute) and isinstance(v.value, ast.Name) \
                                    and v.value.id in params:
                                tab[st.targets[0].attr] = ("pattr", v.value.id, v.attr)
                self._aliases[ci.name] = tab
        return self._aliases

    def _readthrough(self, v, fam):
        """a read from a fresh copy whose column family is never written (in the analysed
        activation) denotes the same value as a read from the copy's source"""
        w = getattr(self, "written", None)
        if w is None:
            return v
        if v[0] == "copy" and (v[2], fam) not in w and (v[2], "ROW") not in w \
                and (v[2], "ALL") not in w:
            return self._readthrough(v[1], fam)
        if v[0] == "row" and v[1][0] == "copy":
            site = v[1][2]
            if (site, fam) not in w and (site, "ROW") not in w and (site, "ALL") not in w:
                return self._readthrough(("row", v[1][1], v[2]), fam)
        return v

    def _gens_rel(self, pc, pc0, ln):
        """` for each(IT) if C ...` of a path condition relative to the point pc0"""
        rel = pc[len(pc0):] if tuple(pc[:len(pc0)]) == tuple(pc0) else \
            tuple(c for c in pc if c not in pc0)
        out = ""
        for c in rel:
            if c[0] == "inloop":
                out += f" for each({self._loop_iter(c[1], ln)}){self._lsuffix(c[1], ln)}"
            elif c[0] != "fact":
                out += f" if {self._show(self.norm(c), ln)}"
        return out

    def _loop_iter(self, lid, ln):
        info = self.ip.loops.get(lid)
        if info is None or info.get("iter") is None:
            return "while"
        return self._show(self.norm(info["iter"]), ln)

    def _lsuffix(self, lid, ln):
        """loops over the same iterable are told apart by their nesting depth among
        loops over that iterable (purely structural, independent of traversal order)"""
        info = self.ip.loops.get(lid, {})
        it = info.get("iter")
        key = self.norm(it) if it is not None else ("while", info.get("lineno"))
        n = 0
        for c in info.get("pc", ()):
            if c[0] == "inloop" and c[1] != lid:
                o = self.ip.loops.get(c[1], {})
                oit = o.get("iter")
                okey = self.norm(oit) if oit is not None else ("while", o.get("lineno"))
                if okey == key:
                    n += 1
        return "'" * n

    # --------------------------------------------------------------- formulas
    def formula(self, t, ln=None):
        """boolean formula over string atoms of the truth of term t"""
        if ln is None:
            ln = {}
        return self._f(self.norm(t), ln)

    def conj(self, pc, ln=None):
        if ln is None:
            ln = {}
        return f_and([self._f(self.norm(c), ln) for c in pc])

    @staticmethod
    def _fold_cmp(t):
        op, a, b = t[1], t[2], t[3]
        if a[0] == "const" and b[0] == "const":
            try:
                x, y = a[1], b[1]
                r = {"==": x == y, "!=": x != y, "is": x is y, "isnot": x is not y}.get(op)
                if r is not None:
                    return C(bool(r))
            except Exception:
                pass
        return t

    def _len_cmp(self, op, a, b, ln):
        """len(x) compared with an integer literal: len is a non-negative integer, so every such
        comparison has the normal form  k < len(x)  (or its negation):
        `len(x) == 0`, `len(x) < 1`, `not len(x) > 0`, `len(x) <= 0` are one atom"""
        def is_len(t):
            return t[0] == "call" and t[1] == "builtins.len" and len(t[2]) == 1

        def is_int(t):
            return t[0] == "const" and isinstance(t[1], int) and not isinstance(t[1], bool)
        if is_len(b) and is_int(a):
            flip = {"<": ">", ">": "<", "<=": ">=", ">=": "<=", "==": "==", "!=": "!="}
            if op not in flip:
                return None
            op, a, b = flip[op], b, a
        if not (is_len(a) and is_int(b)) or op not in ("<", ">", "<=", ">=", "==", "!="):
            return None
        c = b[1]
        sl = self._show(a, ln)

        def gt(k):           # k < len
            if k < 0:
                return ("true",)
            return _atom(f"{k}<{sl}", "<", str(k), sl)
        if op == ">":
            return gt(c)
        if op == ">=":
            return gt(c - 1)
        if op == "<":
            return f_not(gt(c - 1))
        if op == "<=":
            return f_not(gt(c))
        if op in ("==", "!="):
            if c < 0:
                r = ("false",)
            elif c == 0:
                r = f_not(gt(0))
            else:
                return None
            return r if op == "==" else f_not(r)
        return None

    def _conj_exists(self, items, ln):
        """conjunction of a return-site path condition; the part inside a loop is
        existentially quantified over the iterations"""
        for i, c in enumerate(items):
            if c[0] == "inloop":
                body = self._conj_exists(items[i + 1:], ln)
                head = [self._f(x, ln) for x in items[:i]]
                if body == ("false",):
                    return ("false",)
                ex = ("exists", self._loop_iter(c[1], ln) + self._lsuffix(c[1], ln), body)
                return f_and(head + [ex])
        return f_and([self._f(x, ln) for x in items])

    def _f(self, t, ln):
        k = t[0]
        if k == "const":
            try:
                return ("true",) if t[1] else ("false",)
            except Exception:
                return ("atom", repr(t[1]))
        if k in ("new", "obj", "classref"):
            return ("true",)
        if k == "inloop":
            return ("true",)
        if k in ("truth", "num"):
            return self._f(t[1], ln)
        if k == "not":
            return f_not(self._f(t[1], ln))
        if k == "and":
            return f_and([self._f(x, ln) for x in t[1]])
        if k == "or":
            return f_or([self._f(x, ln) for x in t[1]])
        if k == "phi":
            c = self._f(t[1], ln)
            return f_or([f_and([c, self._f(t[2], ln)]), f_and([f_not(c), self._f(t[3], ln)])])
        if k == "cases":
            return f_or([self._conj_exists(list(pc) + [x], ln) for pc, x in t[1]])
        if k == "exists":
            body = self._conj_exists(list(t[2]), ln)
            if body == ("false",):
                return ("false",)
            return ("exists", self._loop_iter(t[1], ln) + self._lsuffix(t[1], ln), body)
        if k == "call" and t[1] in ("builtins.all", "builtins.any") and len(t[2]) == 1 \
                and t[2][0][0] == "comp" and len(t[2][0][3]) >= 1:
            comp = t[2][0]
            ef = self._f(comp[2][0], ln)
            is_any = t[1].endswith("any")
            body = ef if is_any else f_not(ef)
            # innermost generator first: nested existentials, each with its own conditions
            for lid, it, conds in reversed(comp[3]):
                binder = self._show(it, ln) + self._lsuffix(lid, ln)
                cf = [self._f(c, ln) for c in conds]
                body = ("exists", binder, f_and(cf + [body]))
            return body if is_any else f_not(body)
        if k == "cmp":
            op, a, b = t[1], t[2], t[3]
            # a comparison of a conditional value is the conditional of the comparisons
            for side, x in ((2, a), (3, b)):
                if isinstance(x, tuple) and x and x[0] == "phi":
                    c = self._f(x[1], ln)
                    t1 = list(t)
                    t1[side] = x[2]
                    t2 = list(t)
                    t2[side] = x[3]
                    return f_or([f_and([c, self._f(self._fold_cmp(tuple(t1)), ln)]),
                                 f_and([f_not(c), self._f(self._fold_cmp(tuple(t2)), ln)])])
            lc = self._len_cmp(op, a, b, ln)
            if lc is not None:
                return lc
            sa, sb = self._show(a, ln), self._show(b, ln)
            if op == "==":
                x, y = sorted([sa, sb])
                return _atom(f"{x}=={y}", "==", x, y)
            if op == "!=":
                x, y = sorted([sa, sb])
                return f_not(_atom(f"{x}=={y}", "==", x, y))
            if op == "<":
                return _atom(f"{sa}<{sb}", "<", sa, sb)
            if op == ">":
                return _atom(f"{sb}<{sa}", "<", sb, sa)
            if op == "<=":
                return f_not(_atom(f"{sb}<{sa}", "<", sb, sa))
            if op == ">=":
                return f_not(_atom(f"{sa}<{sb}", "<", sa, sb))
            if op in ("in", "notin") and b[0] == "const" and isinstance(b[1], tuple) \
                    and 1 <= len(b[1]) <= 3 and all(isinstance(x, int) and not isinstance(x, bool)
                                                    for x in b[1]):
                eqs = []
                for x in b[1]:
                    u, v = sorted([sa, repr(x)])
                    eqs.append(_atom(f"{u}=={v}", "==", u, v))
                r = f_or(eqs)
                return r if op == "in" else f_not(r)
            if op in ("in", "notin") and b[0] == "mcall" and b[2] == "get" and len(b[3]) == 2 \
                    and not b[4] and self.ip._empty_literal(b[3][1]):
                # x in D.get(k, <empty>): the key is present and x is in its entry
                sd, sk = self._show(b[1], ln), self._show(b[3][0], ln)
                r = f_and([("atom", f"{sk} in {sd}"), ("atom", f"{sa} in {sd}[{sk}]")])
                return r if op == "in" else f_not(r)
            if op == "in":
                return ("atom", f"{sa} in {sb}")
            if op == "notin":
                return f_not(("atom", f"{sa} in {sb}"))
            if op == "is":
                x, y = sorted([sa, sb])
                return ("atom", f"{x} is {y}")
            if op == "isnot":
                x, y = sorted([sa, sb])
                return f_not(("atom", f"{x} is {y}"))
        return ("atom", self._show(t, ln))


def _subst_term(t, old, new):
    if t == old:
        return new
    if isinstance(t, tuple):
        return tuple(_subst_term(x, old, new) for x in t)
    return t


# ====================================================================== formulas
def f_not(f):
    if f[0] == "true":
        return ("false",)
    if f[0] == "false":
        return ("true",)
    if f[0] == "not":
        return f[1]
    return ("not", f)


def f_and(fs):
    out = []
    for f in fs:
        if f[0] == "false":
            return ("false",)
        if f[0] == "true":
            continue
        if f[0] == "and":
            out.extend(f[1])
        else:
            out.append(f)
    if not out:
        return ("true",)
    if len(out) == 1:
        return out[0]
    return ("and", tuple(out))


def f_or(fs):
    out = []
    for f in fs:
        if f[0] == "true":
            return ("true",)
        if f[0] == "false":
            continue
        if f[0] == "or":
            out.extend(f[1])
        else:
            out.append(f)
    if not out:
        return ("false",)
    if len(out) == 1:
        return out[0]
    return ("or", tuple(out))


ATOM_STRUCT = {}      # atom string -> (op, lhs, rhs) for order/equality atoms


def _atom(s, op, a, b):
    ATOM_STRUCT[s] = (op, a, b)
    return ("atom", s)


def A(s):
    """hand-written (oracle) atom; simple `a<b` / `a==b` spellings get their structure registered
    so that the order axioms apply to them too"""
    s = respell(s)
    if s not in ATOM_STRUCT:
        if s.count("<") == 1 and "==" not in s and " in " not in s and " is " not in s:
            a, b = s.split("<")
            ATOM_STRUCT[s] = ("<", a, b)
        elif s.count("==") == 1 and "<" not in s and " in " not in s and " is " not in s:
            a, b = s.split("==")
            ATOM_STRUCT[s] = ("==", a, b)
    return ("atom", s)


def theory_pairs(atoms):
    """pairs of atoms that cannot both be true: a<b with b<a, a<b with a==b"""
    idx = {}
    for s in atoms:
        st = ATOM_STRUCT.get(s)
        if st is None:
            # oracle atoms written by hand: match against derived atoms' operands
            for (op, a, b) in list(ATOM_STRUCT.values()):
                for o2 in ("<", "=="):
                    if s == f"{b}{o2}{a}" and o2 == "<":
                        st = ("<", b, a)
                    elif s == f"{a}{o2}{b}" and o2 == "<":
                        st = ("<", a, b)
            if st:
                ATOM_STRUCT[s] = st
        if st:
            idx[st] = s
    out = []
    # domain invariant of reachable states: a compromised host is held with at least USER access
    # (a success stores compromised := True together with access := max(previous, granted) -
    # C01.success-marks, C04.access-monotone - and every granted level is USER or ROOT - C18 /
    # C15.definitions; reset clears both).  `compromised` and `access < USER` exclude each other.
    aset = set(atoms)
    for s in atoms:
        if s.endswith(".compromised") and f"{s[:-len('.compromised')]}.access<1" in aset:
            out.append((s, f"{s[:-len('.compromised')]}.access<1"))
    for (op, a, b), s in idx.items():
        if op == "<":
            t = idx.get(("<", b, a))
            if t is not None and s < t:
                out.append((s, t))
            x, y = sorted([a, b])
            e = idx.get(("==", x, y))
            if e is not None:
                out.append((s, e))
    return out


def consistent(val, pairs):
    return not any(val[p] and val[q] for p, q in pairs)


def mono_pairs(atoms):
    """(e1, e2): EXISTS x.A true forces EXISTS x.B true whenever A => B (same binder)"""
    ex = [a for a in atoms if a in EXISTS_BODY]
    out = []
    for e1 in ex:
        for e2 in ex:
            if e1 == e2 or EXISTS_BODY[e1][0] != EXISTS_BODY[e2][0]:
                continue
            key = (e1, e2)
            if key not in _MONO:
                _MONO[key] = None       # guard against re-entrance
                _MONO[key] = bool(f_implies(EXISTS_BODY[e1][1], EXISTS_BODY[e2][1]))
            if _MONO[key]:
                out.append((e1, e2))
    return out


def deep_atoms(f, acc=None):
    """all plain atoms, including those inside the bodies of exists sub-formulas"""
    if acc is None:
        acc = set()
    k = f[0]
    if k == "atom":
        acc.add(f[1])
    elif k == "exists":
        deep_atoms(f[2], acc)
    elif k == "not":
        deep_atoms(f[1], acc)
    elif k in ("and", "or"):
        for x in f[1]:
            deep_atoms(x, acc)
    return acc


def f_atoms(f, acc=None):
    """top-level atoms: plain atoms and canonical keys of exists sub-formulas"""
    if acc is None:
        acc = set()
    k = f[0]
    if k == "atom":
        acc.add(f[1])
    elif k == "exists":
        acc.add(exists_key(f))
    elif k == "not":
        f_atoms(f[1], acc)
    elif k in ("and", "or"):
        for x in f[1]:
            f_atoms(x, acc)
    return acc


_EXKEY = {}
EXISTS_PRETTY = {}
EXISTS_BODY = {}       # exists key -> (binder, body formula)
_MONO = {}


def exists_key(f):
    k = _EXKEY.get(f)
    if k is None:
        k = f"EXISTS[{f[1]}]" + f_key(f[2])
        _EXKEY[f] = k
        EXISTS_PRETTY.setdefault(k, f_show(f))
        EXISTS_BODY.setdefault(k, (f[1], f[2]))
    return k


def f_eval(f, val):
    k = f[0]
    if k == "true":
        return True
    if k == "false":
        return False
    if k == "atom":
        return val[f[1]]
    if k == "exists":
        return val[exists_key(f)]
    if k == "not":
        return not f_eval(f[1], val)
    if k == "and":
        return all(f_eval(x, val) for x in f[1])
    if k == "or":
        return any(f_eval(x, val) for x in f[1])
    raise ValueError(f)


MAX_ATOMS = 16


def f_norm(f):
    """(EXISTS x.a) | (EXISTS x.b)  ==  EXISTS x.(a | b): merge sibling existentials over the same
    binder so that loop summaries written with one or several `return True` sites (or split over
    several guards) compare equal; dually for conjunctions of negated existentials"""
    k = f[0]
    if k == "not":
        return f_not(f_norm(f[1]))
    if k == "exists":
        return ("exists", f[1], f_norm(f[2]))
    if k in ("and", "or"):
        parts = [f_norm(x) for x in f[1]]
        groups, rest = {}, []
        for p in parts:
            if k == "or" and p[0] == "exists":
                groups.setdefault(p[1], []).append(p[2])
            elif k == "and" and p[0] == "not" and p[1][0] == "exists":
                groups.setdefault(p[1][1], []).append(p[1][2])
            else:
                rest.append(p)
        for b, bodies in groups.items():
            ex = ("exists", b, f_norm(f_or(bodies)) if len(bodies) > 1 else bodies[0])
            rest.append(ex if k == "or" else f_not(ex))
        return f_or(rest) if k == "or" else f_and(rest)
    return f


def f_key(f):
    """canonical key of a formula: its essential atoms + truth table over them"""
    f = f_norm(f)
    atoms = sorted(f_atoms(f))
    if len(atoms) > MAX_ATOMS:
        return "BIG:" + f_show(f)
    rows = []
    for bits in itertools.product((False, True), repeat=len(atoms)):
        rows.append(f_eval(f, dict(zip(atoms, bits))))
    # drop atoms the formula does not depend on
    ess = []
    for i, a in enumerate(atoms):
        dep = False
        step = 1 << (len(atoms) - 1 - i)
        for r in range(len(rows)):
            if not (r & step) and rows[r] != rows[r | step]:
                dep = True
                break
        if dep:
            ess.append(a)
    if len(ess) != len(atoms):
        rows = []
        for bits in itertools.product((False, True), repeat=len(ess)):
            v = dict.fromkeys(atoms, False)
            v.update(zip(ess, bits))
            rows.append(f_eval(f, v))
    return "{" + "; ".join(ess) + "}:" + "".join("1" if r else "0" for r in rows)


def f_equiv(f, g):
    return f_key(f) == f_key(g)


_COVER = {}


def cover_clauses(atoms):
    """(e, [e1..en]): EXISTS x.B forces one of EXISTS x.B1 .. EXISTS x.Bn (same binder) whenever
    B => B1 | .. | Bn  (an existential distributes over a disjunction: the witness of B is a
    witness of some Bi)"""
    ex = [a for a in atoms if a in EXISTS_BODY]
    out = []
    for e in ex:
        others = [o for o in ex if o != e and EXISTS_BODY[o][0] == EXISTS_BODY[e][0]]
        if len(others) < 2:
            continue            # a single consequent is the monotonicity rule
        key = (e, tuple(others))
        if key not in _COVER:
            _COVER[key] = None
            _COVER[key] = bool(f_implies(EXISTS_BODY[e][1],
                                         f_or([EXISTS_BODY[o][1] for o in others])))
        if _COVER[key]:
            out.append((e, others))
    return out


def f_implies(f, g):
    """f => g for all valuations of the union of atoms (atoms independent)"""
    f, g = f_norm(f), f_norm(g)
    atoms = sorted(f_atoms(f) | f_atoms(g))
    if len(atoms) > MAX_ATOMS:
        return None
    pairs = theory_pairs(atoms)
    mono = mono_pairs(atoms)
    cover = cover_clauses(atoms)
    for bits in itertools.product((False, True), repeat=len(atoms)):
        v = dict(zip(atoms, bits))
        if pairs and not consistent(v, pairs):
            continue
        if mono and any(v[a] and not v[b] for a, b in mono):
            continue
        if cover and any(v[e] and not any(v[o] for o in os_) for e, os_ in cover):
            continue
        if f_eval(f, v) and not f_eval(g, v):
            return False
    return True


def f_counterexample(f, g):
    """a valuation on which f and g differ, as readable text"""
    f, g = f_norm(f), f_norm(g)
    atoms = sorted(f_atoms(f) | f_atoms(g))
    if len(atoms) > MAX_ATOMS:
        return "too many atoms"
    for bits in itertools.product((False, True), repeat=len(atoms)):
        v = dict(zip(atoms, bits))
        a, b = f_eval(f, v), f_eval(g, v)
        if a != b:
            tr = [EXISTS_PRETTY.get(x, x) for x in atoms if v[x]]
            fa = [EXISTS_PRETTY.get(x, x) for x in atoms if not v[x]]
            return f"derived={a} expected={b} when TRUE:{tr} FALSE:{fa}"
    return None


def f_show(f):
    k = f[0]
    if k == "true":
        return "TRUE"
    if k == "false":
        return "FALSE"
    if k == "atom":
        return f[1]
    if k == "not":
        return "!" + f_show(f[1])
    if k == "and":
        return "(" + " & ".join(sorted(f_show(x) for x in f[1])) + ")"
    if k == "or":
        return "(" + " | ".join(sorted(f_show(x) for x in f[1])) + ")"
    if k == "exists":
        return f"EXISTS[{f[1]}]({f_show(f[2])})"
    return str(f)


def f_subst(f, fn):
    """map atoms through fn (atom string -> formula or None to keep)"""
    k = f[0]
    if k == "atom":
        r = fn(f[1])
        return f if r is None else r
    if k == "not":
        return f_not(f_subst(f[1], fn))
    if k == "and":
        return f_and([f_subst(x, fn) for x in f[1]])
    if k == "or":
        return f_or([f_subst(x, fn) for x in f[1]])
    if k == "exists":
        return ("exists", f[1], f_subst(f[2], fn))
    return f


# ====================================================================== oracle spelling
def respell(s):
    """Oracle strings may be written with the view spelling of a mapping iteration
    (`each(D.items())[0]`, `each(D.items())[1]`, `each(D.values())`, `each(D.keys())`, binder
    `D.items()`); the engine records every such loop over D itself (see Interp._mapping_view).
    This rewrites a complete expectation string into the engine's spelling:
        each(D.items())[0] -> each(D)      each(D.items())[1] -> D[each(D)]
        each(D.keys())     -> each(D)      each(D.values())   -> D[each(D)]
        for each(D.items()) / EXISTS[D.items()] -> ... D"""
    if not isinstance(s, str) or ("items()" not in s and "values()" not in s
                                  and "keys()" not in s):
        return s
    # enumerate(D.items()) / enumerate(D.values()) / enumerate(D.keys()) are enumerate(D)
    for view, tails in ((".items()", (("[1][1]", "V"), ("[1][0]", "K"), ("[0]", "I"))),
                        (".values()", (("[1]", "V"), ("[0]", "I"))),
                        (".keys()", (("[1]", "K"), ("[0]", "I")))):
        marker = "each(enumerate("
        pos = 0
        while True:
            k = s.find(marker, pos)
            if k < 0:
                break
            depth, end = 0, None
            for j in range(k + 4, len(s)):
                if s[j] == "(":
                    depth += 1
                elif s[j] == ")":
                    depth -= 1
                    if depth == 0:
                        end = j
                        break
            if end is None:
                break
            inner = s[k + len(marker):end - 1]          # inside enumerate( ... )
            if not inner.endswith(view):
                pos = k + 5
                continue
            base = inner[:-len(view)]
            e = f"each(enumerate({base}))"
            j = end + 1
            primes = ""
            while j < len(s) and s[j] == "'":
                primes += "'"
                j += 1
            e += primes
            rep = None
            for tail, what in tails:
                if s.startswith(tail, j):
                    rep = {"I": f"{e}[0]", "K": f"{e}[1]", "V": f"{base}[{e}[1]]"}[what]
                    j += len(tail)
                    break
            if rep is None:
                rep = e
            s = s[:k] + rep + s[j:]
            pos = k + len(rep)
    # binders EXISTS[enumerate(D.items())]
    for view in (".items()", ".values()", ".keys()"):
        for q in ("", "'", "''"):
            s = s.replace(f"{view}){q}]", f"){q}]")
    # innermost-first: repeatedly rewrite the first each(...) whose argument has no view inside
    # other than at its very end
    guard = 0
    while guard < 200:
        guard += 1
        i = _find_view_each(s)
        if i is None:
            break
        start, inner_end, view = i
        inner = s[start + 5:inner_end]              # inside each( ... )
        base = inner[:-(len(view) + 3)]              # strip .items()
        j = inner_end + 1                            # after ')'
        primes = ""
        while j < len(s) and s[j] == "'":
            primes += "'"
            j += 1
        e = f"each({base}){primes}"
        if view == "items":
            if s.startswith("[0]", j):
                rep, j = e, j + 3
            elif s.startswith("[1]", j):
                rep, j = f"{base}[{e}]", j + 3
            else:
                rep = e
        elif view == "values":
            rep = f"{base}[{e}]"
        else:
            rep = e
        s = s[:start] + rep + s[j:]
    # binders
    for view in (".items()", ".keys()", ".values()"):
        s = s.replace(view + "]", "]").replace(view + "']", "']").replace(view + "'']", "'']")
    return s


def _find_view_each(s):
    pos = 0
    best = None
    while True:
        k = s.find("each(", pos)
        if k < 0:
            break
        depth = 0
        end = None
        for j in range(k + 4, len(s)):
            if s[j] == "(":
                depth += 1
            elif s[j] == ")":
                depth -= 1
                if depth == 0:
                    end = j
                    break
        if end is None:
            break
        inner = s[k + 5:end]
        for view in ("items", "keys", "values"):
            if inner.endswith(f".{view}()"):
                # innermost: prefer the candidate whose inner text contains no other view-each
                if _find_view_each(inner) is None:
                    return (k, end, view)
        pos = k + 5
    return best


def respell_loop(s):
    for view in (".items()", ".keys()", ".values()"):
        if s.endswith(view):
            return respell(s[:-len(view)])
        if s.startswith("enumerate(") and s.endswith(view + ")"):
            return "enumerate(" + respell(s[len("enumerate("):-len(view) - 1]) + ")"
    return respell(s)
