"""Obligation bookkeeping, known-findings matching, evidence and report files."""
import json
import os
import sys
import time

VERIF = os.path.dirname(os.path.dirname(os.path.abspath(__file__)))
KNOWN = os.path.join(VERIF, "known_findings.json")


import re as _re
_OPAQUE = _re.compile(r"\?[A-Za-z_]|undef\(|loop\(|(?<![\{\[])@[A-Za-z_]|<lambda|<closure|"
                      r"unsupported:|except\(")
OPAQUE_KINDS = {"unknown": "unresolved value", "undef": "name not bound on this path",
                "loopout": "loop-carried variable not summarised",
                "loopcarried": "loop-carried variable not summarised",
                "unsupported": "statement kind not modelled"}


# private identifiers of the analysed tree that the tree the rules were written for does not have
# (set by sa/driver.py): a cache, a precomputed table, a new helper's result.  What such state holds
# is established elsewhere (a constructor, a first use); a derived description that reads it is not
# fully modelled.
NEW_PRIVATE = set()
_IDENT = _re.compile(r"(?<![A-Za-z0-9_])(_[A-Za-z][A-Za-z0-9_]*)")


def opaque_reason(text, terms=()):
    """why a derived description is not fully modelled (None if it is)"""
    m = _OPAQUE.search(text or "")
    if m:
        i = m.start()
        return f"`{(text or '')[max(0, i - 30):i + 40]}`"
    if NEW_PRIVATE and text:
        for tok in _IDENT.findall(text):
            if tok in NEW_PRIVATE:
                return (f"`{tok}`: private state / helper that the tree the rules were written for "
                        "does not have")
    seen = set()

    def walk(t, depth=0):
        if not isinstance(t, tuple) or not t or id(t) in seen or depth > 60:
            return None
        seen.add(id(t))
        if isinstance(t[0], str):
            if t[0] in OPAQUE_KINDS:
                return f"{OPAQUE_KINDS[t[0]]}: {str(t)[:80]}"
            if t[0] == "call" and isinstance(t[1], str) and t[1].startswith("?"):
                return f"unresolved call {t[1]}"
        for x in t:
            if isinstance(x, tuple):
                r = walk(x, depth + 1)
                if r:
                    return r
        return None
    for t in terms:
        r = walk(t)
        if r:
            return r
    return None


# rules decided by scanning the syntax tree (who may call / who writes / what an except handler
# does / what a loop iterates): their verdict does not rest on the interpreter's model of the
# constructs around the site, so an unmodelled construct elsewhere in the file does not weaken it
FIRM_RULES = {"C14.entropy", "C14.hash-order", "C14.seed-first", "C18.not-swallowed", "C19.shared-global",
              "C09.order", "C15.loop", "C15.division"}


class Checker:
    def __init__(self, pid, tier="quick", seed=0, quiet=False):
        self.pid = pid
        self.tier = tier
        self.seed = seed
        self.quiet = quiet
        self.t0 = time.time()
        self.obligations = []
        self.assumptions = []
        self.extra = {}
        self.trusted = ["CPython ast (parser of the interpreter the repo runs under)",
                        "sa/ engine of this directory (abstract interpreter, canonicaliser)"]
        self.samples = []
        self.explanation = ""
        self.notes = []
        self.floor_misses = []

    # ------------------------------------------------------------------ record
    def ob(self, rule, construct, ok, detail="", loc="", nontrivial=True, undecided=False,
           terms=(), firm=False):
        """one obligation: rule id, normalised construct (no line numbers), verdict.

        A failed obligation is a *violation* only when what the analysis derived is fully
        modelled: if the derived description (detail text, or the terms handed in) contains parts
        the engine could only treat as unknown - an unresolved call, an unsummarised loop variable,
        an undefined name, an unmodelled statement - the honest verdict is *undecided*: the code may
        well be right, written in an idiom outside the modelled fragment."""
        # (firm: the rule decoded the construct it complains about - e.g. followed a new private
        # table to the constructor that builds it -, so naming it is not a sign of a gap)
        if not ok and not undecided and rule not in FIRM_RULES and not firm:
            why = opaque_reason(detail, terms) or opaque_reason(construct)
            if why:
                undecided = True
                detail = (f"NOT DECIDED - the analysis met a construct it does not model ({why}); "
                          f"derived: {detail}")
        st = "ok" if ok else ("undecided" if undecided else "violation")
        self.obligations.append({"rule": rule, "construct": construct, "status": st,
                                 "detail": detail, "loc": loc, "nontrivial": nontrivial,
                                 "firm": bool(firm)})
        return ok

    def violation(self, rule, construct, detail="", loc=""):
        return self.ob(rule, construct, False, detail, loc)

    def undecided(self, rule, construct, detail="", loc=""):
        return self.ob(rule, construct, False, detail, loc, undecided=True)

    def floor(self, rule, count, minimum, what=""):
        """vacuity guard: fewer rule instances than confirmed by hand => the analysis is
        broken (exit 2), never a silent pass"""
        self.extra.setdefault("rule_instances", {})[rule] = {"found": count, "floor": minimum}
        if count < minimum:
            self.floor_misses.append(
                f"rule {rule}: only {count} instance(s) of {what or rule} found, floor is "
                f"{minimum} (anchor vanished or analysis blind)")

    def assume(self, text):
        if text not in self.assumptions:
            self.assumptions.append(text)

    def sample(self, obj):
        if len(self.samples) < 40:
            self.samples.append(obj)

    def note(self, text):
        self.notes.append(text)

    # ------------------------------------------------------------------ finish
    def settle_opaque(self):
        """a violation located in a file in which (or below which, on the call stack) the engine
        met a construct it cannot model is not a verdict: it becomes 'not decided'"""
        import sa.interp as _ip
        if getattr(self, "blanket", None):
            for o in self.obligations:
                if o["status"] == "violation":
                    o["status"] = "undecided"
                    o["detail"] = f"NOT DECIDED - {self.blanket}; derived: {o['detail']}"
            return
        entries = []
        seen = set()
        for q, what, loc, files in _ip.OPAQUE:
            if (q, what, loc) not in seen:
                seen.add((q, what, loc))
                entries.append((q, what, loc, frozenset(files)))
        if not entries:
            return
        for o in self.obligations:
            if o["status"] != "violation" or o["rule"] in FIRM_RULES or o.get("firm"):
                continue
            f = (o["loc"] or "").split(":")[0]
            hit = [e for e in entries if f and f in e[3]]
            if hit:
                e = hit[0]
                o["status"] = "undecided"
                o["detail"] = (f"NOT DECIDED - {e[0]} uses a construct the analysis does not model "
                               f"({e[1]} at {e[2]}); derived: {o['detail']}")

    def finish(self, replay=None, write=True):
        self.settle_opaque()
        if self.floor_misses and not any(o["status"] == "violation" for o in self.obligations):
            # a rule that matched fewer sites than confirmed by hand and reported nothing: never a
            # silent pass.  With nothing analysed at all the run is broken (exit 2); otherwise the
            # shortfall is stated as an undecided obligation (the code was restructured beyond what
            # the rule recognises - or the analysis is blind there)
            if not any(o["status"] == "ok" and o["nontrivial"] for o in self.obligations) \
                    and not getattr(self, "blanket", None):
                from .model import AnalysisError
                raise AnalysisError("; ".join(self.floor_misses))
            for m in self.floor_misses:
                self.ob("engine.vacuity", m, False, "fewer instances than on the tree the rule "
                        "was confirmed on", "", undecided=True)
        known = load_known()
        kf = [k for k in known.get("findings", []) if k.get("property") == self.pid]
        viol, kn = [], []
        for o in self.obligations:
            if o["status"] != "violation":
                continue
            hit = None
            for k in kf:
                if k.get("rule") == o["rule"] and k.get("construct") == o["construct"]:
                    hit = k
                    break
            if hit is not None:
                o["status"] = "known"
                kn.append((o, hit))
            else:
                viol.append(o)
        if replay is not None:
            viol = [o for o in viol if (o["rule"], o["construct"]) ==
                    (replay.get("rule"), replay.get("construct"))]
        out = []
        for o, k in kn:
            out.append(f"KNOWN-FINDING: property={self.pid} {o['rule']}: {o['construct']} -- "
                       f"{k.get('what', o['detail'])}")
        rep_dir = os.path.join(VERIF, "reports")
        for i, o in enumerate(viol):
            path = os.path.join(rep_dir, f"{self.pid}-{i + 1}.json")
            if write:
                os.makedirs(rep_dir, exist_ok=True)
                with open(path, "w") as fh:
                    json.dump({"property": self.pid, "rule": o["rule"],
                               "construct": o["construct"], "detail": o["detail"],
                               "loc": o["loc"], "tier": self.tier,
                               "replay_cmd": f"/venv/bin/python check {self.pid} --replay {path}"},
                              fh, indent=1)
            out.append(f"  violated rule {o['rule']} at {o['loc']}: {o['construct']}\n"
                       f"    {o['detail']}")
            out.append(f"VIOLATION property={self.pid} replay={path}")
        und = [o for o in self.obligations if o["status"] == "undecided"]
        if write and replay is None:
            self._write_evidence(len(viol), kn, und)
        if not self.quiet:
            import signal
            try:
                signal.signal(signal.SIGPIPE, signal.SIG_DFL)
            except Exception:
                pass
            n = len(self.obligations)
            d = sum(1 for o in self.obligations if o["status"] == "ok")
            print(f"[{self.pid}] tier={self.tier} obligations={n} discharged={d} "
                  f"known={len(kn)} undecided={len(und)} violations={len(viol)} "
                  f"wall={time.time() - self.t0:.2f}s")
            for u in und:
                print(f"  undecided {u['rule']} at {u['loc']}: {u['construct']} -- {u['detail']}")
            for line in out:
                print(line)
        return 1 if viol else 0

    def _write_evidence(self, nviol, kn, und):
        obs = self.obligations
        distinct = {(o["rule"], o["construct"]) for o in obs if o["nontrivial"]}
        ev = {
            "property_id": self.pid,
            "tier": self.tier,
            "seed": int(self.seed),
            "level": "other",
            "coverage": {
                "explanation": self.explanation or "static analysis of /repo's current source",
                "obligations": len(obs),
                "discharged": sum(1 for o in obs if o["status"] == "ok"),
                "known_findings": [{"rule": o["rule"], "construct": o["construct"]}
                                   for o, _ in kn],
                "undecided": [{"rule": o["rule"], "construct": o["construct"],
                               "detail": o["detail"]} for o in und],
                "evaluations": max(1, len(obs)),
                "distinct_nontrivial": len(distinct),
                "rule": "one evaluation per obligation (rule instance found in the source and "
                        "decided); distinct = distinct (rule, normalised construct) pairs; "
                        "non-trivial = the decision needed the abstract interpretation / a "
                        "formula or table comparison, not a mere lookup",
                "samples": self.samples or [{"rule": o["rule"], "construct": o["construct"],
                                             "status": o["status"], "loc": o["loc"]}
                                            for o in obs[:12]],
                "checker_cmd": f"/venv/bin/python check {self.pid} --tier {self.tier}",
                "trusted_base": self.trusted,
                "exhaustive": False,
                "obligation_list": [{"rule": o["rule"], "construct": o["construct"],
                                     "status": o["status"], "loc": o["loc"]} for o in obs],
            },
            "assumptions": self.assumptions,
            "wall_s": round(time.time() - self.t0, 3),
            "violations": nviol,
        }
        ev["coverage"].update(self.extra)
        if self.notes:
            ev["coverage"]["notes"] = self.notes
        d = os.path.join(VERIF, "evidence")
        os.makedirs(d, exist_ok=True)
        with open(os.path.join(d, f"{self.pid}.json"), "w") as fh:
            json.dump(ev, fh, indent=1, default=str)


def load_known():
    try:
        with open(KNOWN) as fh:
            return json.load(fh)
    except FileNotFoundError:
        return {"version": 1, "findings": [], "fixed": []}
