"""Abstract interpreter of nasim's (structured, first-order) code into a term
domain.  It never executes repo code: it walks the AST of a function, keeps an
environment of *terms*, a path condition (conjunction of terms) per statement
(syntax-directed: enclosing tests, negations of earlier early-exit tests, loop
markers), inlines resolved repo callees (bounded depth) and records an ordered
list of *events*: stores, opaque calls (incl. random draws), asserts, raises.

Terms are nested tuples, see mk_* helpers and canon.py.
"""
import ast
import builtins as _builtins
import itertools

from .model import AnalysisError, ClassRef

BUILTIN_PURE = {
    "len", "int", "float", "bool", "str", "min", "max", "isinstance", "type", "abs",
    "sum", "all", "any", "sorted", "list", "tuple", "set", "dict", "range", "enumerate",
    "zip", "round", "repr", "hash", "id", "print", "eval", "open", "format", "iter", "next",
    "getattr", "setattr", "hasattr", "map", "filter", "reversed", "frozenset", "super",
}
# names of builtin container/str/ndarray methods: never resolved by class-hierarchy fallback
BUILTIN_METHODS = {
    "append", "copy", "add", "remove", "items", "keys", "values", "get", "insert",
    "extend", "format", "join", "split", "lower", "upper", "flatten", "reshape", "argmax",
    "sample", "pop", "popleft", "appendleft", "update", "index", "count", "sort", "close",
    "startswith", "endswith", "strip", "astype", "tolist", "any", "all", "sum", "max", "min",
    "seed", "reset", "load", "render", "step",
}

def C(v):
    """constant term; the type name keeps True/1 and False/0 apart (tuples compare
    them equal otherwise)"""
    return ("const", v, type(v).__name__)


UNSUPPORTED = []     # statement kinds met by any interpreter of this process that it cannot model
# Library callees the engine (or a rule) has a summary of - DESIGN A.4.  Everything the unchanged
# tree calls is here (collected by running every check with the two hooks below instrumented);
# a call of anything else makes the run it occurs in "not decided" where it fails (E.8).
KNOWN_EXTERNALS = {
    "builtins.all", "builtins.any", "builtins.abs", "builtins.bool", "builtins.dict",
    "builtins.dict.fromkeys",
    "builtins.enumerate", "builtins.eval", "builtins.float", "builtins.format", "builtins.frozenset",
    "builtins.getattr", "builtins.hasattr", "builtins.int", "builtins.isinstance", "builtins.iter",
    "builtins.len", "builtins.list", "builtins.max", "builtins.min", "builtins.print",
    "builtins.range", "builtins.repr", "builtins.reversed", "builtins.set", "builtins.slice",
    "builtins.sorted", "builtins.str", "builtins.sum", "builtins.tuple", "builtins.type",
    "builtins.zip", "builtins.hash", "builtins.id", "builtins.super", "builtins.object",
    "gymnasium.spaces.Box", "gymnasium.spaces.Discrete", "gymnasium.spaces.MultiDiscrete",
    "math.ceil", "math.floor", "math.isclose", "math.inf", "builtins.round",
    # quantising functions: C15.probs knows what they do to a uniform draw
    "numpy.round", "numpy.around", "numpy.floor", "numpy.trunc", "numpy.rint", "numpy.fix",
    "numpy.copy", "numpy.zeros", "numpy.ones", "numpy.full", "numpy.array", "numpy.asarray",
    "numpy.array_equal", "numpy.float32", "numpy.int64", "numpy.int32", "numpy.bool_",
}
KNOWN_METHODS = {
    "add", "append", "argmax", "copy", "extend", "flatten", "get", "insert", "items", "join", "keys",
    "lower", "upper", "numpy", "numpy_flat", "remove", "reshape", "shape", "shape_flat", "values",
    "setdefault", "update", "pop", "popitem", "discard", "clear", "sort", "reverse", "index",
    "count", "strip", "split", "format", "startswith", "endswith", "tolist", "item",
    # logger methods (diagnostics only)
    "debug", "info", "warning", "error", "exception", "critical", "log", "isEnabledFor",
}


REF_SIGNATURES = {}        # fq -> parameter names of the reference tree (set by sa/driver.py)
REF_RAISES = None          # fq -> number of raise statements in the reference tree (same)


def known_external(fname):
    if fname in KNOWN_EXTERNALS or fname.startswith("numpy.random.") or fname.startswith("random."):
        return True
    if fname.startswith("logging.") or fname == "warnings.warn":
        return True                      # diagnostics: no effect on the state the rules speak about
    if fname.startswith("builtins.") and (fname.endswith("Error") or fname.endswith("Exception")
                                          or fname.endswith("Warning")):
        return True                      # exception constructors
    return False


OPAQUE = []          # (function, what, location): constructs whose effect the engine treats as unknown
                     # (unsupported statements, calls of values it cannot resolve to code, unknown
                     # expression kinds) - met by any interpreter of this process


CONST_NONE = C(None)
CONST_TRUE = C(True)
CONST_FALSE = C(False)

CMP_OPS = {ast.Eq: "==", ast.NotEq: "!=", ast.Lt: "<", ast.LtE: "<=", ast.Gt: ">",
           ast.GtE: ">=", ast.In: "in", ast.NotIn: "notin", ast.Is: "is", ast.IsNot: "isnot"}
BIN_OPS = {ast.Add: "+", ast.Sub: "-", ast.Mult: "*", ast.Div: "/", ast.FloorDiv: "//",
           ast.Mod: "%", ast.Pow: "**", ast.BitAnd: "&", ast.BitOr: "|"}


def is_const(t):
    return isinstance(t, tuple) and t and t[0] == "const"


def truth_const(t):
    """python truthiness of a term when statically known, else None"""
    if is_const(t):
        try:
            return bool(t[1])
        except Exception:
            return None
    if t[0] in ("new", "obj", "classref", "funcref"):
        return True
    if t[0] in ("tuple", "list"):
        return len(t[1]) > 0
    return None


class Event:
    __slots__ = ("kind", "pc", "loc", "func", "data", "seq", "depth", "stack")

    def __init__(self, kind, pc, loc, func, data, seq, depth, stack):
        self.kind, self.pc, self.loc, self.func = kind, pc, loc, func
        self.data, self.seq, self.depth, self.stack = data, seq, depth, stack

    def __repr__(self):
        return f"<Event {self.kind} {self.loc} {self.data}>"


class _State:
    """env: local name -> term; pc: path condition; ov: flow-sensitive attribute overlay
    ((base term, attribute) -> term) for objects that are not heap-allocated by the run"""
    __slots__ = ("env", "pc", "ov")

    def __init__(self, env, pc, ov=None):
        self.env, self.pc = env, pc
        self.ov = {} if ov is None else ov

    def fork(self, extra=None):
        return _State(dict(self.env), self.pc + ((extra,) if extra is not None else ()),
                      dict(self.ov))


class _Activation:
    def __init__(self, fi, entry_pc, depth):
        self.fi = fi
        self.entry_pc = entry_pc
        self.returns = []     # (pc, term)
        self.return_ovs = []  # overlay snapshot at each return
        self.depth = depth
        self.breaks = []      # states at `break` statements of the loop being interpreted


class Summary:
    def __init__(self, interp, fi, returns, events):
        self.interp = interp
        self.fi = fi
        self.returns = returns    # list of (pc tuple, term), cases flattened
        self.events = events

    def stores(self):
        return [e for e in self.events if e.kind == "store"]


class Interp:
    trace_reads = frozenset()      # attribute names whose item reads are recorded as events

    def __init__(self, repo, types, param_types=None, max_depth=10, no_inline=()):
        self.repo = repo
        self.types = types
        self.param_types = dict(param_types or {})   # entry param name -> class name
        self.max_depth = max_depth
        self.no_inline = set(no_inline)              # fq names kept opaque
        self.events = []
        self.heap = {}
        self.loops = {}
        self._ids = itertools.count(1)
        self._seq = itertools.count(1)
        self.stack = []
        self.assumed_types = {}    # receiver term -> class name learned from CHA resolution
        self.unresolved = []       # (loc, text)
        self.touched = set()       # module paths of every function interpreted by this object
        self.resolved_calls = 0
        self.total_calls = 0

    # ================================================================= entry
    def run(self, fi, args=None):
        """Interpret function fi with its parameters bound to args (dict name ->
        term); unbound parameters become ('param', name)."""
        args = dict(args or {})
        env = {}
        for p in fi.params:
            env[p] = args.get(p, ("param", p))
        a = fi.node.args
        for p in a.kwonlyargs:
            env[p.arg] = args.get(p.arg, ("param", p.arg))
        # a parameter the reference tree's function of this name does not have is outside the
        # properties: existing calls do not pass it, it has its (constant) default
        ref = REF_SIGNATURES.get(fi.fq) if REF_SIGNATURES else None
        if ref is not None:
            pos = a.posonlyargs + a.args
            dmap = dict(zip([x.arg for x in pos[len(pos) - len(a.defaults):]], a.defaults))
            dmap.update({k.arg: d for k, d in zip(a.kwonlyargs, a.kw_defaults) if d is not None})
            for name, d in dmap.items():
                if name not in ref and name not in args:
                    if isinstance(d, ast.Constant):
                        env[name] = C(d.value)
                    elif isinstance(d, ast.Tuple) and not d.elts:
                        env[name] = C(())
        if a.vararg:
            env[a.vararg.arg] = ("param", "*" + a.vararg.arg)
        if a.kwarg:
            env[a.kwarg.arg] = ("param", "**" + a.kwarg.arg)
        act = _Activation(fi, (), 0)
        self.touched.add(fi.module.path)
        self.stack.append(act)
        try:
            self._block(fi.node.body, _State(env, ()), act)
        finally:
            self.stack.pop()
        flat = []
        for pc, t in act.returns:
            flat.extend(self.expand_cases(pc, t))
        return Summary(self, fi, flat, list(self.events))

    def expand_cases(self, pc, t):
        """flatten ('cases', ...) at the top of a returned term (and inside a
        returned tuple) into separate (pc, term) pairs"""
        if t[0] == "cases":
            out = []
            for rpc, tt in t[1]:
                out.extend(self.expand_cases(pc + tuple(rpc), tt))
            return out
        if t[0] == "phi" and _has_alternatives(t):
            # a single exit returning a conditional object is two exits
            return self.expand_cases(pc + (t[1],), t[2]) + \
                self.expand_cases(pc + (("not", t[1]),), t[3])
        if t[0] == "tuple":
            for i, el in enumerate(t[1]):
                if el[0] == "phi" and _has_alternatives(el):
                    out = []
                    for cond, tt in ((el[1], el[2]), (("not", el[1]), el[3])):
                        sibs = list(t[1])
                        sibs[i] = tt
                        out.extend(self.expand_cases(pc + (cond,), ("tuple", tuple(sibs))))
                    return out
                if el[0] == "cases":
                    out = []
                    for rpc, tt in el[1]:
                        # sibling elements that are cases over the same split are projected
                        sibs = list(t[1])
                        sibs[i] = tt
                        for j, s2 in enumerate(sibs):
                            if j != i and s2[0] == "cases":
                                for rpc2, tt2 in s2[1]:
                                    if rpc2 == rpc:
                                        sibs[j] = tt2
                                        break
                        out.extend(self.expand_cases(pc + tuple(rpc), ("tuple", tuple(sibs))))
                    return out
        return [(pc, t)]

    # ================================================================ events
    def _emit(self, kind, st, node, act, **data):
        ev = Event(kind, st.pc, f"{act.fi.module.path}:{getattr(node, 'lineno', 0)}",
                   act.fi.fq, data, next(self._seq), act.depth,
                   tuple(a.fi.fq for a in self.stack))
        self.events.append(ev)
        return ev

    def new_id(self):
        return next(self._ids)

    # ================================================================ blocks
    def _block(self, stmts, st, act):
        """returns the state after the block, or None if the block always exits
        (return/raise/continue/break)."""
        for s in stmts:
            st = self._stmt(s, st, act)
            if st is None:
                return None
        return st

    def _stmt(self, s, st, act):
        if isinstance(s, ast.Expr):
            if isinstance(s.value, ast.Constant):
                return st
            self._eval(s.value, st, act)
            return st
        if isinstance(s, ast.Assign):
            v = self._eval(s.value, st, act)
            for t in s.targets:
                self._assign(t, v, st, act, s)
            return st
        if isinstance(s, ast.AnnAssign):
            if s.value is not None:
                self._assign(s.target, self._eval(s.value, st, act), st, act, s)
            return st
        if isinstance(s, ast.AugAssign):
            cur = self._eval(_as_load(s.target), st, act)
            v = self._eval(s.value, st, act)
            op = BIN_OPS.get(type(s.op), "?")
            nv = self._fold_bin(op, cur, v)
            if isinstance(s.target, ast.Name):
                self._emit("accum", st, s, act, name=s.target.id, op=op, value=v, prev=cur)
            self._assign(s.target, nv, st, act, s, aug=(op, v))
            return st
        if isinstance(s, ast.Return):
            v = self._eval(s.value, st, act) if s.value is not None else CONST_NONE
            act.returns.append((st.pc, v))
            act.return_ovs.append(dict(st.ov))
            if act.depth == 0:
                self._emit("return", st, s, act, value=v)
            return None
        if isinstance(s, ast.Raise):
            exc = self._eval(s.exc, st, act) if s.exc is not None else CONST_NONE
            self._emit("raise", st, s, act, exc=exc)
            if REF_RAISES is not None:
                # an exception exit the reference tree's function of this name does not have (a
                # clearer error for a malformed argument, an "unreachable" branch): whether its
                # condition can hold for valid input is not established - what is derived about
                # the functions on the way is not a verdict
                if self._new_exits(act):
                    self._opaque(act, "an exception exit that the tree the rules were written "
                                 "for does not have (whether its condition can hold for valid "
                                 "input is not established)",
                                 f"{act.fi.module.path}:{getattr(s, 'lineno', 0)}")
            return None
        if isinstance(s, ast.Assert):
            t = self._eval(s.test, st, act)
            if REF_RAISES is not None and truth_const(t) is None and self._new_exits(act):
                self._opaque(act, "an assertion that the tree the rules were written for does not "
                             "have (whether it can fail for valid input is not established)",
                             f"{act.fi.module.path}:{getattr(s, 'lineno', 0)}")
            self._emit("assert", st, s, act, test=t, stmt=s)
            if t[0] == "call" and t[1] == "builtins.isinstance" and len(t[2]) == 2 \
                    and t[2][1][0] == "classref" and t[2][0][0] in ("attr", "param"):
                # `assert isinstance(x, C)`: x is a C from here on
                self.assumed_types[t[2][0]] = t[2][1][1]
            tc = truth_const(t)
            if tc is False:
                return None
            if tc is True:
                return st
            st.pc = st.pc + (("fact", t),)
            return st
        if isinstance(s, ast.If):
            return self._if(s, st, act)
        if isinstance(s, ast.For):
            return self._for(s, st, act)
        if isinstance(s, ast.While):
            return self._while(s, st, act)
        if isinstance(s, (ast.Pass, ast.Import, ast.ImportFrom, ast.Global, ast.Nonlocal)):
            return st
        if isinstance(s, ast.Continue):
            return None
        if isinstance(s, ast.Break):
            self._emit("break", st, s, act)
            act.breaks.append(st)
            return None
        if isinstance(s, ast.With):
            for it in s.items:
                v = self._eval(it.context_expr, st, act)
                if it.optional_vars is not None:
                    self._assign(it.optional_vars, v, st, act, s)
            return self._block(s.body, st, act)
        if isinstance(s, ast.Try):
            eafp = self._desugar_eafp(s)
            if eafp is not None:
                return self._block([eafp], st, act)
            if any(not (h.body and isinstance(h.body[-1], ast.Raise)) for h in s.handlers):
                # a handler that lets execution continue: what the statement leaves behind depends
                # on where the exception was raised - not modelled (only the look-up idiom above is)
                self._opaque(act, "try/except whose handler continues", f"{act.fi.module.path}:"
                             f"{s.lineno}")
            pre = st.fork()
            st_body = self._block(s.body, st, act)
            outs = [st_body] if st_body is not None else []
            for h in s.handlers:
                hs = pre.fork(("exc", ast.unparse(h.type) if h.type else "BaseException",
                               getattr(h, "lineno", 0)))
                self._emit("except", hs, h, act, etype=ast.unparse(h.type) if h.type else None,
                           body=h.body, try_body=s.body)
                r = self._block(h.body, hs, act)
                if r is not None:
                    r.pc = pre.pc
                    outs.append(r)
            if s.finalbody:
                for o in outs:
                    self._block(s.finalbody, o, act)
            return outs[0] if outs else None
        if isinstance(s, ast.Delete):
            return st
        if isinstance(s, ast.FunctionDef):
            st.env[s.name] = self._closure(s, st, act)
            return st
        if isinstance(s, ast.Match):
            return self._block(self._desugar_match(s), st, act)
        if isinstance(s, ast.ClassDef):
            st.env[s.name] = ("unknown", f"nested {s.name}")
            return st
        # statement kinds the repository does not use today (match, async, ...): keep going with
        # everything they assign havocked, and say so in the event list (rules that meet it inside
        # an anchored function report `undecided`, never a silent pass)
        self._emit("unsupported", st, s, act, what=type(s).__name__)
        UNSUPPORTED.append(f"{type(s).__name__} at {act.fi.module.path}:{s.lineno} "
                           f"({act.fi.qualname})")
        self._opaque(act, f"{type(s).__name__} statement", f"{act.fi.module.path}:{s.lineno}")
        for n in ast.walk(s):
            if isinstance(n, ast.Name) and isinstance(n.ctx, ast.Store):
                st.env[n.id] = ("unknown", f"{n.id} (assigned in unsupported {type(s).__name__})")
        return st

    @staticmethod
    def _narrow_none_test(test, st_true, st_false):
        """`if x is None` / `if x is not None` on a variable holding `present ? V : None` (the
        result of D.get(k)): in the branch where x is not None, x is V and `present` holds"""
        if not (isinstance(test, ast.Compare) and len(test.ops) == 1
                and isinstance(test.ops[0], (ast.Is, ast.IsNot))
                and isinstance(test.left, ast.Name)
                and isinstance(test.comparators[0], ast.Constant)
                and test.comparators[0].value is None):
            return
        var = test.left.id
        notnone = st_false if isinstance(test.ops[0], ast.Is) else st_true
        t = notnone.env.get(var)
        if t is None or t[0] != "phi":
            return
        if t[3] == CONST_NONE and t[2] != CONST_NONE:
            notnone.env[var] = t[2]
            notnone.pc = notnone.pc + (t[1],)
        elif t[2] == CONST_NONE and t[3] != CONST_NONE:
            notnone.env[var] = t[3]
            notnone.pc = notnone.pc + (("not", t[1]),)

    def _if(self, s, st, act):
        c = self._eval(s.test, st, act)
        tc = truth_const(c)
        if tc is True:
            return self._block(s.body, st, act)
        if tc is False:
            return self._block(s.orelse, st, act) if s.orelse else st
        base_pc = st.pc
        # `if c: raise ...` is `assert not c` (and `if c: ... else: raise` is `assert c`): what
        # survives the guard is an established fact, not a condition of what follows
        body_raises = self._only_raises(s.body)
        else_raises = bool(s.orelse) and self._only_raises(s.orelse)
        st_true = st.fork(("fact", c) if else_raises and not body_raises else c)
        st_false = st.fork(("fact", ("not", c)) if body_raises and not else_raises
                           else ("not", c))
        self._narrow_none_test(s.test, st_true, st_false)
        s1 = self._block(s.body, st_true, act)
        s2 = self._block(s.orelse, st_false, act) if s.orelse else st_false
        if s1 is None and s2 is None:
            return None
        if s1 is None:
            # `if not isinstance(x, C): raise/return` narrows x for the rest, like the assert form
            t = c[1] if c[0] == "not" else None
            if t is not None and t[0] == "call" and t[1] == "builtins.isinstance" \
                    and len(t[2]) == 2 and t[2][1][0] == "classref" \
                    and t[2][0][0] in ("attr", "param"):
                self.assumed_types[t[2][0]] = t[2][1][1]
                s2.pc = s2.pc + (("fact", t),)
            return s2
        if s2 is None:
            return s1
        env = {}
        for k in set(s1.env) | set(s2.env):
            a, b = s1.env.get(k), s2.env.get(k)
            if a == b:
                env[k] = a
            elif a is None:
                env[k] = ("phi", c, ("undef", k), b)
            elif b is None:
                env[k] = ("phi", c, a, ("undef", k))
            else:
                env[k] = ("phi", c, a, b)
        ov = {}
        for k in set(s1.ov) | set(s2.ov):
            dflt = ("sub", k[0], C(k[1][1])) if isinstance(k[1], tuple) else ("attr", k[0], k[1])
            a = s1.ov.get(k, dflt)
            b = s2.ov.get(k, dflt)
            ov[k] = a if a == b else ("phi", c, a, b)
        # both branches fall through: the condition is no longer part of the pc, but
        # what either branch established (e.g. an inner early exit) is kept as a disjunction
        e1 = s1.pc[len(base_pc):]
        e2 = s2.pc[len(base_pc):]
        if len(e1) <= 1 and len(e2) <= 1:
            pc = base_pc
        else:
            pc = base_pc + (("fact", ("or", (_conj(e1), _conj(e2)))),)
        return _State(env, pc, ov)

    @staticmethod
    def _only_raises(stmts):
        """the block ends in `raise` and leaves in no other way"""
        if not stmts or not isinstance(stmts[-1], ast.Raise):
            return False
        for st_ in stmts:
            for n in ast.walk(st_):
                if isinstance(n, (ast.Return, ast.Continue, ast.Break, ast.Yield, ast.YieldFrom)):
                    return False
        return True

    def _assigned_names(self, stmts):
        out = set()
        for s in stmts:
            for n in ast.walk(s):
                if isinstance(n, ast.Name) and isinstance(n.ctx, ast.Store):
                    out.add(n.id)
        return out

    def _literal_elements(self, it):
        if it[0] in ("tuple", "list"):
            return list(it[1])
        if is_const(it) and isinstance(it[1], tuple):
            return [C(x) for x in it[1]]
        if it[0] == "listobj":
            h = self.heap[it[1]]
            if not h["dyn"]:
                return list(h["elts"])
        # views of a dict literal whose keys are all constants
        if it[0] == "mcall" and it[2] in ("items", "keys", "values") and not it[3] \
                and it[1][0] == "dictobj":
            h = self.heap[it[1][1]]
            # (module-level constant tables such as EXPLOIT_KEYS stay symbolic: the loader rules
            # speak about "every key of the table")
            if not h["dyn"] and not h.get("const"):
                if it[2] == "items":
                    return [("tuple", (C(k), v)) for k, v in h["items"].items()]
                if it[2] == "keys":
                    return [C(k) for k in h["items"]]
                return list(h["items"].values())
            if not h["items"] and h["dyn"] and not h.get("const") and all(
                    tuple(pc) == tuple(h.get("pc0", ())) and k_[0] in ("classref", "funcref")
                    for k_, v_, pc in h["dyn"]):
                # a display keyed by classes / functions ({ServiceScan: {...}, ...})
                if it[2] == "items":
                    return [("tuple", (k_, v_)) for k_, v_, _ in h["dyn"]]
                if it[2] == "keys":
                    return [k_ for k_, _, _ in h["dyn"]]
                return [v_ for _, v_, _ in h["dyn"]]
        if it[0] == "dictobj":
            h = self.heap[it[1]]
            if not h["dyn"] and not h.get("const"):
                return [C(k) for k in h["items"]]
        if it[0] == "call" and it[1] in ("builtins.list", "builtins.tuple") and len(it[2]) == 1 \
                and not it[3]:
            return self._literal_elements(it[2][0])
        if it[0] == "call" and it[1] == "builtins.enumerate" and len(it[2]) == 1 and not it[3]:
            inner = self._literal_elements(it[2][0])
            if inner is not None:
                return [("tuple", (C(i), v)) for i, v in enumerate(inner)]
        if it[0] == "call" and it[1] == "builtins.zip" and len(it[2]) >= 2 and not it[3]:
            parts = [self._literal_elements(x) for x in it[2]]
            if all(p is not None for p in parts) and len({len(p) for p in parts}) == 1:
                return [("tuple", tuple(col)) for col in zip(*parts)]
        return None

    @staticmethod
    def _mapping_view(it):
        """`for k, v in D.items()`, `for k in D.keys()`, `for v in D.values()` and `for k in D`
        (with D[k]) are one iteration over the mapping D: (D, element builder) - the loop is
        recorded over D itself and the view only decides what the target is bound to"""
        # list(X) / tuple(X) visit X's elements in X's order
        def unwrap(x):
            while x[0] == "call" and x[1] in ("builtins.list", "builtins.tuple") \
                    and len(x[2]) == 1 and not x[3] and x[2][0][0] in ("mcall", "attr", "sub",
                                                                        "param", "call"):
                x = x[2][0]
            return x
        it = unwrap(it)
        if it[0] == "call" and it[1] == "builtins.enumerate" and it[2] \
                and unwrap(it[2][0]) is not it[2][0]:
            it = ("call", it[1], (unwrap(it[2][0]),) + tuple(it[2][1:])) + tuple(it[3:])
        if it[0] == "call" and it[1] == "builtins.zip" and len(it[2]) == 2 and not it[3]:
            # zip(A, [f(x) for x in A]): one pass over A, each element paired with its f(x)
            za, zb = it[2]
            if zb[0] == "comp" and zb[1] in ("list", "gen") and len(zb[3]) == 1 \
                    and not zb[3][0][2] and len(zb[2]) == 1:
                glid, git, _ = zb[3][0]
                a2, va = Interp._mapping_view(za)
                if va is None and a2 == git:
                    gel = ("elem", git, glid)

                    def paired(e_, elt=zb[2][0], gel=gel):
                        def sub(t):
                            if t == gel:
                                return e_
                            if isinstance(t, tuple):
                                return tuple(sub(x) for x in t)
                            return t
                        return ("tuple", (e_, sub(elt)))
                    return a2, paired
        if it[0] == "mcall" and it[2] in ("items", "keys", "values") and not it[3] and not it[4]:
            base, view = it[1], it[2]
            if view == "items":
                return base, lambda e: ("tuple", (e, ("sub", base, e)))
            if view == "values":
                return base, lambda e: ("sub", base, e)
            return base, lambda e: e
        # enumerate(X, start=k) / enumerate(X, k): positions of enumerate(X), shifted by k
        if it[0] == "call" and it[1] == "builtins.enumerate" and (
                (len(it[2]) == 2 and not it[3]) or
                (len(it[2]) == 1 and len(it[3]) == 1 and it[3][0][0] == "start")):
            k = it[2][1] if len(it[2]) == 2 else it[3][0][1]
            plain = ("call", "builtins.enumerate", (it[2][0],), (), it[4] if len(it) > 4 else None)
            base2, inner = Interp._mapping_view(plain)

            def shifted(e, k=k, inner=inner):
                v = inner(e) if inner is not None else ("tuple", (("proj", e, 0), ("proj", e, 1)))
                idx = v[1][0]
                if is_const(k) and k[1] == 0:
                    return v
                return ("tuple", (("bin", "+", idx, k), v[1][1]))
            return base2, shifted
        # enumerate(<view of D>): one enumeration of the mapping's keys
        if it[0] == "call" and it[1] == "builtins.enumerate" and len(it[2]) == 1 and not it[3]:
            inner_it = it[2][0]
            if inner_it[0] == "mcall" and inner_it[2] in ("items", "keys", "values") \
                    and not inner_it[3] and not inner_it[4]:
                base, view = inner_it[1], inner_it[2]
                new_it = ("call", "builtins.enumerate", (base,), (), it[4] if len(it) > 4 else None)

                def build(e, base=base, view=view):
                    i, k = ("proj", e, 0), ("proj", e, 1)
                    if view == "items":
                        return ("tuple", (i, ("tuple", (k, ("sub", base, k)))))
                    if view == "values":
                        return ("tuple", (i, ("sub", base, k)))
                    return ("tuple", (i, k))
                return new_it, build
        return it, None

    @staticmethod
    def _desugar_eafp(s):
        """`try: <one statement reading D[k]> except KeyError: H [else: E]`  is
        `if k in D: <statement>; E  else: H`  when the statement contains exactly one subscript
        load, of a plain name / attribute chain with a call-free key, and no call at all (nothing
        else in it can raise KeyError); None for every other try statement"""
        if len(s.handlers) != 1 or s.finalbody or len(s.body) != 1:
            return None
        h = s.handlers[0]
        if not (isinstance(h.type, ast.Name) and h.type.id == "KeyError") or h.name:
            return None
        st0 = s.body[0]
        if not isinstance(st0, (ast.Assign, ast.Return, ast.AugAssign, ast.Expr)):
            return None
        subs = [n for n in ast.walk(st0) if isinstance(n, ast.Subscript)
                and isinstance(n.ctx, ast.Load)]
        if len(subs) != 1 or any(isinstance(n, (ast.Call, ast.Await, ast.Yield, ast.YieldFrom))
                                 for n in ast.walk(st0)):
            return None
        sub = subs[0]
        base = sub.value
        while isinstance(base, ast.Attribute):
            base = base.value
        if not isinstance(base, ast.Name) or isinstance(sub.slice, ast.Slice):
            return None
        test = ast.Compare(left=sub.slice, ops=[ast.In()], comparators=[sub.value])
        new = ast.If(test=test, body=[st0] + list(s.orelse), orelse=list(h.body))
        ast.copy_location(new, s)
        ast.copy_location(test, s)
        ast.fix_missing_locations(new)
        return new

    def _empty_literal(self, t):
        if t[0] == "mcall" and t[2] in ("items", "keys", "values") and not t[3] and not t[4]:
            return self._empty_literal(t[1])
        if t[0] == "dictobj":
            h = self.heap[t[1]]
            return not h["items"] and not h["dyn"]
        if t[0] == "listobj":
            h = self.heap[t[1]]
            return not h["elts"] and not h["dyn"]
        if t[0] in ("tuple", "list", "setlit"):
            return not t[1]
        return is_const(t) and t[1] in ((), "")

    def _keys_source(self, it):
        if it[0] == "call" and it[1] == "builtins.enumerate" and len(it[2]) == 1 and not it[3]:
            inner = self._keys_source(it[2][0])
            return None if inner is None else ("call", it[1], (inner,), (), it[4] if len(it) > 4
                                              else None)
        if it[0] != "dictobj":
            return None
        h = self.heap[it[1]]
        if h["items"] or len(h["dyn"]) != 1 or h.get("const"):
            return None
        k_, v_, pc_ = h["dyn"][0]
        pc0 = tuple(h.get("pc0", ()))
        if tuple(pc_[:len(pc0)]) != pc0:
            return None
        rel = tuple(c for c in pc_[len(pc0):] if c[0] != "fact")
        if len(rel) == 1 and rel[0][0] == "inloop" and isinstance(k_, tuple) and k_[0] == "elem" \
                and k_[2] == rel[0][1]:
            return k_[1]
        return None

    def _list_segments(self, it):
        """[("elem", term) | ("iter", iterable term)] when `it` is a list object assembled from
        more than one source (so that no single producer describes it); None otherwise"""
        while it[0] == "call" and it[1] in ("builtins.list", "builtins.tuple", "builtins.iter") \
                and len(it[2]) == 1 and not it[3]:
            it = it[2][0]
        if it[0] != "listobj":
            return None
        h = self.heap[it[1]]
        if len(h["elts"]) + len(h["dyn"]) < 2 or len(h["elts"]) + len(h["dyn"]) > 12:
            return None
        segs = [("elem", e) for e in h["elts"]]
        for op, args, pc in h["dyn"]:
            if op == "append" and len(args) == 1:
                if tuple(pc) == tuple(h.get("pc0", ())):
                    segs.append(("elem", args[0]))       # appended where the list was created
                    continue
                oid = self.new_id()
                self.heap[oid] = {"kind": "list", "elts": [], "dyn": [(op, args, pc)],
                                  "pc0": h.get("pc0", ()), "site": h.get("site")}
                segs.append(("iter", ("listobj", oid)))
            elif op == "extend" and len(args) == 1 and tuple(pc) == tuple(h.get("pc0", ())):
                sub = self._literal_elements(args[0])
                if sub is not None:
                    segs.extend(("elem", e) for e in sub)
                else:
                    segs.append(("iter", args[0]))
            else:
                return None
        return segs

    def _nonempty_alternative(self, it):
        """iterating `c ? A : <empty literal>` visits A's elements, under c: (A, c) or None.
        Views of such a conditional (`.items()` ...) are looked through."""
        if it[0] == "mcall" and it[2] in ("items", "keys", "values") and not it[3] and not it[4]:
            r = self._nonempty_alternative(it[1])
            if r is not None:
                return ("mcall", r[0], it[2], (), ()), r[1]
            return None
        if it[0] == "phi":
            if self._empty_literal(it[3]):
                return it[2], it[1]
            if self._empty_literal(it[2]):
                return it[3], ("not", it[1])
        return None

    def _for(self, s, st, act):
        forced = getattr(s, "_forced_iter", None)
        it = self._eval(s.iter, st, act) if forced is None else forced
        alt = self._nonempty_alternative(it) if forced is None else None
        if alt is not None:
            # no iterations on the empty side: the loop runs over the other side, under its
            # condition; names assigned in the body merge as for an `if`
            inner = ast.For(target=s.target, iter=s.iter, body=s.body, orelse=s.orelse,
                            type_comment=None, lineno=s.lineno, col_offset=s.col_offset)
            inner._forced_iter = alt[0]
            base_pc = st.pc
            s1 = self._for(inner, st.fork(alt[1]), act)
            s2 = st.fork(("not", alt[1]))
            if s1 is None:
                return s2
            env = {}
            for k in set(s1.env) | set(s2.env):
                a, b = s1.env.get(k), s2.env.get(k)
                env[k] = a if a == b else ("phi", alt[1], a if a is not None else ("undef", k),
                                           b if b is not None else ("undef", k))
            ov = dict(s2.ov)
            for k in set(s1.ov) | set(s2.ov):
                dflt = ("sub", k[0], C(k[1][1])) if isinstance(k[1], tuple) \
                    else ("attr", k[0], k[1])
                a, b = s1.ov.get(k, dflt), s2.ov.get(k, dflt)
                ov[k] = a if a == b else ("phi", alt[1], a, b)
            return _State(env, base_pc, ov)
        elts = self._literal_elements(it)
        if elts is not None and len(elts) <= 16 and not s.orelse and not any(
                isinstance(n, (ast.Continue, ast.Break)) for b in s.body for n in ast.walk(b)):
            # a loop over a literal tuple / list is unrolled: exact, no loop abstraction needed
            for el in elts:
                self._assign(s.target, el, st, act, s)
                st = self._block(s.body, st, act)
                if st is None:
                    return None
            return st
        segs = self._list_segments(it) if forced is None else None
        if segs is not None and not s.orelse and not any(
                isinstance(n, (ast.Continue, ast.Break)) for b in s.body for n in ast.walk(b)):
            # a list put together from several sources (literal elements, appends in different
            # loops, extends): the loop visits them one after the other - literal elements unrolled,
            # every produced part as the producer loop it is
            for kind, payload in segs:
                if kind == "elem":
                    self._assign(s.target, payload, st, act, s)
                    st = self._block(s.body, st, act)
                else:
                    inner = ast.For(target=s.target, iter=s.iter, body=s.body, orelse=[],
                                    type_comment=None, lineno=s.lineno, col_offset=s.col_offset)
                    inner._forced_iter = payload
                    st = self._for(inner, st, act)
                if st is None:
                    return None
            return st
        lid = self.new_id()
        it0 = it
        it, view = self._mapping_view(it)
        # a dict filled with one entry per element of IT, under the element itself as key, has
        # IT's elements as keys, in IT's order: iterating it (or enumerating it) is iterating IT
        ks = self._keys_source(it)
        if ks is not None:
            it = ks
        self.loops[lid] = {"iter": it, "func": act.fi.fq, "lineno": s.lineno,
                           "kind": "for", "target": ast.unparse(s.target), "pc": st.pc}
        assigned = self._assigned_names(s.body) - self._assigned_names([_expr_stmt(s.target)])
        saved = {n: st.env.get(n) for n in assigned}
        body_st = st.fork(("inloop", lid))
        for n in assigned:
            if saved[n] is not None:
                body_st.env[n] = ("loopcarried", n, lid)
        elem = ("elem", it, lid)
        if view is not None:
            elem = view(elem)
        src = self._iter_source(it) if view is None else None
        if it[0] == "comp" and it[1] == "dict" and len(it[2]) == 2 and (
                view is not None or it0 is it):
            # iterating a mapping built by a dict comprehension {k(x): v(x) for x in A if P}: its
            # keys are k(x), its values v(x), for the comprehension's own x
            extra = ()
            for glid, git, conds in it[3]:
                extra = extra + (("inloop", glid),) + tuple(conds)
            k_, v_ = it[2]
            kind = it0[2] if (it0[0] == "mcall" and it0 is not it) else "keys"
            el = {"items": ("tuple", (k_, v_)), "values": v_}.get(kind, k_)
            src = (el, extra)
        if src is None and view is None and it[0] == "call" and it[1] == "builtins.enumerate" \
                and len(it[2]) == 1 and not it[3]:
            # enumerate(<produced list>): the producer's element, paired with a position
            inner = self._iter_source(it[2][0])
            if inner is not None and any(c[0] == "inloop" for c in inner[1]):
                src = (("tuple", (("proj", elem, 0), inner[0])), inner[1])
        if src is not None:
            # iterating a list that was built by one append in producer loops, or an identity
            # comprehension `[x for x in A if P(x)]`: visit the producer's element under the
            # producer's loop markers and conditions (the consumer loop is transparent)
            elem, extra = src
            self.loops[lid]["via_producer"] = True
            body_st.pc = st.pc + tuple(extra)
            if not any(c[0] == "inloop" for c in extra):
                body_st.pc = body_st.pc + (("inloop", lid),)
        self._assign(s.target, elem, body_st, act, s)
        nret = len(act.returns)
        nev = len(self.events)
        nbrk = len(act.breaks)
        end = self._block(s.body, body_st, act)
        brks = act.breaks[nbrk:]
        del act.breaks[nbrk:]
        self.loops[lid]["events"] = (nev, len(self.events))
        post_pc = st.pc
        first = body_st.pc[len(st.pc)] if len(body_st.pc) > len(st.pc) else ("inloop", lid)
        mk = first if first[0] == "inloop" else ("inloop", lid)
        for rpc, _ in act.returns[nret:]:
            inner = self._after_marker(rpc, mk)
            post_pc = post_pc + (("not", ("exists", mk[1], inner)),)
        for n in assigned:
            fin = end.env.get(n) if end is not None else None
            st.env[n] = ("loopout", n, lid, saved[n] if saved[n] is not None else ("undef", n),
                         fin if fin is not None else ("undef", n))
        self._loop_ov(st, end, lid)
        # loop target variables stay bound to the (last) element
        for n in self._assigned_names([_expr_stmt(s.target)]):
            st.env[n] = body_st.env.get(n, ("undef", n))
        st.pc = post_pc
        if brks:
            # `flag = <const>; break` under a condition C: after the loop the variable holds that
            # constant exactly when some iteration satisfies C (search loops with a result flag)
            bconds = [("exists", mk[1], self._after_marker(b.pc, mk)) for b in brks]
            for n in assigned:
                carried = ("loopcarried", n, lid)
                fin = end.env.get(n) if end is not None else carried
                base = st.env[n]
                if fin == carried or fin is None:
                    base = saved[n] if saved[n] is not None else ("undef", n)
                vals = [b.env.get(n) for b in brks]
                changed = [(c, v) for c, v in zip(bconds, vals) if v is not None and v != carried]
                if not changed:
                    st.env[n] = base
                    continue
                distinct = {v for _, v in changed}
                if len(distinct) > 1 or not all(is_const(v) for v in distinct):
                    st.env[n] = ("unknown", f"{n} (value at the iteration that breaks)")
                    continue
                v = changed[0][1]
                cond = changed[0][0] if len(changed) == 1 else ("or", tuple(c for c, _ in changed))
                st.env[n] = v if base == v else ("phi", cond, v, base)
            if s.orelse:
                st.pc = st.pc + tuple(("not", c) for c in bconds)
        if s.orelse:
            return self._block(s.orelse, st, act)
        return st

    def _iter_source(self, it):
        """(element term, [loop markers + conditions]) when iterating `it` is the same as running
        its producer loop(s) again; None otherwise"""
        if it[0] == "listobj":
            h = self.heap[it[1]]
            apps = [d for d in h["dyn"] if d[0] == "append"]
            if not h["elts"] and len(apps) == 1 and len(h["dyn"]) == 1 and len(apps[0][1]) == 1:
                pc0 = h.get("pc0", ())
                apc = apps[0][2]
                extra = apc[len(pc0):] if apc[:len(pc0)] == pc0 else \
                    tuple(c for c in apc if c not in pc0)
                # (facts from asserts are not conditions of the element; the record of an inner
                # early exit - `if a: if b: continue` - is: the element exists only where one of
                # the two branches fell through)
                extra = tuple(c[1] if c[0] == "fact" and c[1][0] == "or" else c
                              for c in extra if c[0] != "fact" or c[1][0] == "or")
                return apps[0][1][0], extra
            return None
        if it[0] == "comp" and it[1] in ("list", "gen") and len(it[3]) >= 1 and len(it[2]) == 1:
            # `[f(x) for x in A if P(x) for y in B ...]` is the list built by the nested loops
            # `for x in A: if P(x): for y in B: append(f(x))`
            extra = ()
            for glid, git, conds in it[3]:
                extra = extra + (("inloop", glid),) + tuple(conds)
            return it[2][0], extra
        if it[0] == "call" and it[1] in ("builtins.list", "builtins.tuple", "builtins.iter") \
                and len(it[2]) == 1:
            return self._iter_source(it[2][0])
        return None

    @staticmethod
    def _after_marker(pc, marker):
        for i, x in enumerate(pc):
            if x == marker:
                return tuple(pc[i + 1:])
        return tuple(pc)

    def _while(self, s, st, act):
        lid = self.new_id()
        assigned = self._assigned_names(s.body)
        saved = {n: st.env.get(n) for n in assigned}
        body_st = st.fork(("inloop", lid))
        for n in assigned:
            if saved[n] is not None:
                body_st.env[n] = ("loopcarried", n, lid)
        c = self._eval(s.test, body_st, act)
        self.loops[lid] = {"iter": None, "func": act.fi.fq, "lineno": s.lineno,
                           "kind": "while", "cond": c, "pc": st.pc, "node": s}
        body_st.pc = body_st.pc + (c,)
        nret = len(act.returns)
        nev = len(self.events)
        end = self._block(s.body, body_st, act)
        self.loops[lid]["events"] = (nev, len(self.events))
        post_pc = st.pc
        for rpc, _ in act.returns[nret:]:
            inner = self._after_marker(rpc, ("inloop", lid))
            post_pc = post_pc + (("not", ("exists", lid, inner)),)
        for n in assigned:
            fin = end.env.get(n) if end is not None else None
            st.env[n] = ("loopout", n, lid, saved[n] if saved[n] is not None else ("undef", n),
                         fin if fin is not None else ("undef", n))
        self._loop_ov(st, end, lid)
        st.pc = post_pc
        return st

    def _loop_ov(self, st, end, lid):
        """attribute stores made inside a loop body are visible after the loop"""
        if end is None:
            return
        for k, v in end.ov.items():
            old = st.ov.get(k)
            if old != v:
                if isinstance(k[1], tuple):
                    # item stores made inside a loop body concern that iteration's element only
                    continue
                st.ov[k] = ("loopout", f"{k[1]}", lid,
                            old if old is not None else ("attr", k[0], k[1]), v)

    # =========================================================== assignment
    def _assign(self, target, v, st, act, node, aug=None):
        if isinstance(target, ast.Name):
            st.env[target.id] = v
            return
        if isinstance(target, (ast.Tuple, ast.List)):
            for i, t in enumerate(target.elts):
                if isinstance(t, ast.Starred):
                    self._assign(t.value, ("unknown", "starred"), st, act, node)
                else:
                    self._assign(t, self._proj(v, i), st, act, node)
            return
        if isinstance(target, ast.Attribute):
            base = self._eval(target.value, st, act)
            self._attr_store(base, target.attr, v, st, act, node, aug)
            return
        if isinstance(target, ast.Subscript):
            base = self._eval(target.value, st, act)
            idx = self._eval_index(target.slice, st, act)
            self._emit("store", st, node, act, target="sub", base=base, idx=idx, value=v,
                       aug=aug)
            if base[0] not in ("dictobj", "listobj") and is_const(idx) \
                    and isinstance(idx[1], str):
                # item store with a constant string key into an object the run did not create
                # (e.g. a sub-dict of the parsed YAML document): later reads of the same item see
                # the stored value (flow-sensitive, merged at joins like attribute stores)
                st.ov[(base, ("key", idx[1]))] = v
            if base[0] in ("dictobj", "listobj"):
                h = self.heap[base[1]]
                rel = st.pc[len(h["pc0"]):] if st.pc[:len(h["pc0"])] == h["pc0"] else st.pc
                if is_const(idx) and h["kind"] == "dict":
                    old = h["items"].get(idx[1])
                    if rel and old is not None:
                        v = ("phi", _conj(rel), v, old)
                    elif rel and old is None:
                        v = ("phi", _conj(rel), v, ("undef", repr(idx[1])))
                    h["items"][idx[1]] = v
                else:
                    h["dyn"].append((idx, v, st.pc))
                    # `if k not in D: D[k] = E` - a memo entry: a later D[k] (same k) is E
                    guard = ("cmp", "notin", idx, base)
                    if h["kind"] == "dict" and v[0] not in ("dictobj", "listobj", "new", "setlit") \
                            and (guard in rel or ("not", ("cmp", "in", idx, base)) in rel):
                        h.setdefault("memo", {})[len(h["dyn"]) - 1] = (idx, v)
            return
        raise AnalysisError(f"unsupported assignment target at {act.fi.module.path}:{node.lineno}")

    def _attr_store(self, base, name, v, st, act, node, aug=None):
        # property setter on a typed receiver?
        ci = self.class_of(base)
        if ci is not None:
            setter = ci.find_setter(name)
            if setter is not None:
                self._inline(setter, [base, v], {}, st, act, node)
                return
        if base[0] == "new":
            h = self.heap[base[2]]
            rel = st.pc[len(h["pc0"]):] if st.pc[:len(h["pc0"])] == h["pc0"] else st.pc
            old = h["fields"].get(name)
            self._emit("store", st, node, act, target="attr", base=base, name=name, value=v,
                       aug=aug, fresh=True)
            if rel and old is not None:
                v = ("phi", _conj(rel), v, old)
            h["fields"][name] = v
            return
        self._emit("store", st, node, act, target="attr", base=base, name=name, value=v, aug=aug,
                   fresh=False)
        st.ov[(base, name)] = v

    # ============================================================ expressions
    def _proj(self, v, i):
        if v[0] in ("tuple", "list") and i < len(v[1]):
            return v[1][i]
        if v[0] == "cases":
            return mk_cases((pc, self._proj(t, i)) for pc, t in v[1])
        if v[0] == "phi":
            a, b = self._proj(v[2], i), self._proj(v[3], i)
            return a if a == b else ("phi", v[1], a, b)
        if is_const(v) and isinstance(v[1], tuple) and i < len(v[1]):
            return C(v[1][i])
        return ("proj", v, i)

    def _eval_index(self, sl, st, act):
        if isinstance(sl, ast.Slice):
            return ("slice",
                    self._eval(sl.lower, st, act) if sl.lower else CONST_NONE,
                    self._eval(sl.upper, st, act) if sl.upper else CONST_NONE,
                    self._eval(sl.step, st, act) if sl.step else CONST_NONE)
        return self._eval(sl, st, act)

    def _const_term(self, v):
        if isinstance(v, ClassRef):
            return ("classref", v.ci.name)
        if isinstance(v, (list, tuple)):
            elts = tuple(self._const_term(x) for x in v)
            if isinstance(v, tuple) and all(is_const(e) for e in elts):
                return C(tuple(e[1] for e in elts))
            return ("tuple" if isinstance(v, tuple) else "list", elts)
        if isinstance(v, dict):
            oid = self.new_id()
            self.heap[oid] = {"kind": "dict", "items": {}, "dyn": [], "pc0": (), "const": True}
            for k, x in v.items():
                self.heap[oid]["items"][k] = self._const_term(x) \
                    if not type(x).__name__ == "_Unfolded" else self._typeish(x.text)
            return ("dictobj", oid)
        try:
            hash(v)
        except TypeError:
            return ("unknown", repr(v))
        return C(v)

    @staticmethod
    def _typeish(text):
        """value of a table entry the constant folder left symbolic: builtin type names and tuples
        of them (type tables such as {"subnets": list, "os": (str, None)}) are known values"""
        names = {"int", "float", "str", "list", "dict", "tuple", "set", "bool", "bytes", "object",
                 "None"}

        def one(t):
            t = t.strip()
            if t == "None":
                return C(None)
            if t in names:
                return ("ext", "builtins." + t)
            return None
        t = text.strip()
        r = one(t)
        if r is not None:
            return r
        if t.startswith("(") and t.endswith(")"):
            parts = [p for p in t[1:-1].split(",") if p.strip()]
            rs = [one(p) for p in parts]
            if rs and all(x is not None for x in rs):
                return ("tuple", tuple(rs))
        return ("unknown", text)

    @staticmethod
    def _new_exits(act):
        """the function has more raise / assert statements than the reference tree's function of
        that name"""
        if act.fi.module.name == "nasim.scenarios.loader":
            return False       # the loader's guards are what C17 / C18 judge, one by one
        n_now = sum(isinstance(n, (ast.Raise, ast.Assert)) for n in ast.walk(act.fi.node))
        if n_now <= REF_RAISES.get(act.fi.fq, 0):
            return False
        # ... and the module as a whole has more of them (a guard that only moved into a new helper
        # of the same module is not a new exit)
        key = "module:" + act.fi.module.path
        if key in REF_RAISES:
            m_now = sum(isinstance(n, (ast.Raise, ast.Assert)) for n in ast.walk(act.fi.module.tree))
            return m_now > REF_RAISES[key]
        return True

    def _opaque(self, act, what, loc):
        """record a construct whose effect is treated as unknown, with the files of every function
        on the call stack (what is derived about any of them may be incomplete)"""
        # every file this interpreter run touches (before or after this point): what the run
        # derives about any of them may be incomplete.  The set object keeps growing until the run
        # ends; it is read when the verdicts are settled.
        self.touched.add(act.fi.module.path)
        OPAQUE.append((act.fi.qualname, what, loc, self.touched))

    def _eval(self, e, st, act):
        m = getattr(self, "_e_" + type(e).__name__, None)
        if m is None:
            self._opaque(act, f"{type(e).__name__} expression",
                         f"{act.fi.module.path}:{getattr(e, 'lineno', 0)}")
            return ("unknown", ast.unparse(e))
        return m(e, st, act)

    def _e_Constant(self, e, st, act):
        return C(e.value)

    def _e_Name(self, e, st, act):
        if e.id in st.env:
            return st.env[e.id]
        if e.id in ("True", "False", "None"):
            return C({"True": True, "False": False, "None": None}[e.id])
        r = self.repo.resolve_name(act.fi.module, e.id)
        if r is not None and r[0] == "assign" and isinstance(r[2], ast.Call):
            # a module-level name bound to the result of a library call without a summary
            # (`_TYPES = ChainMap(A, B)`, `_failed = functools.partial(...)`): unknown value
            callee = self.repo.resolve_attr_chain(r[1], r[2].func)
            if callee is not None and callee[0] == "ext" and not known_external(callee[1]):
                self._opaque(act, f"module-level {e.id} = {callee[1]}(...) (no summary in the "
                             "engine)", f"{act.fi.module.path}:{getattr(e, 'lineno', 0)}")
        return self._resolved_to_term(r, act.fi.module, e, e.id)

    def _resolved_to_term(self, r, module, e, text):
        if r is None:
            if text in BUILTIN_PURE or hasattr(_builtins, text):
                return ("ext", "builtins." + text)
            return ("unknown", text)
        if r[0] == "class":
            return ("classref", r[1].name)
        if r[0] == "func":
            return ("funcref", r[1].fq)
        if r[0] == "module":
            return ("module", r[1].name)
        if r[0] == "ext":
            return ("ext", r[1])
        if r[0] == "assign":
            ok, v = self.repo.const(r[1], r[2])
            if ok:
                return self._const_term(v)
            return ("global", r[1].name, text)
        if r[0] == "classattr":
            # a class-level name that is re-assigned at run time (cls.X = ... in a classmethod) is
            # not the constant of the class body
            if self._class_attr_kind(r[1], r[2]) == "const":
                ok, v = self.repo.class_const(r[1], r[2])
                if ok:
                    return self._const_term(v)
            return ("clsattr", r[1].name, r[2])
        return ("unknown", text)

    def _e_Attribute(self, e, st, act):
        # static chains (module members, enum members)
        root = e
        while isinstance(root, ast.Attribute):
            root = root.value
        if isinstance(root, ast.Name) and root.id not in st.env:
            r = self.repo.resolve_attr_chain(act.fi.module, e)
            if r is not None:
                return self._resolved_to_term(r, act.fi.module, e, ast.unparse(e))
        base = self._eval(e.value, st, act)
        return self._getattr(base, e.attr, st, act, e)

    def _getattr(self, base, name, st, act, node):
        k = base[0]
        if k == "cases":
            return mk_cases((pc, self._getattr(t, name, st, act, node))
                            for pc, t in base[1])
        if k == "phi":
            a = self._getattr(base[2], name, st, act, node)
            b = self._getattr(base[3], name, st, act, node)
            return a if a == b else ("phi", base[1], a, b)
        if k in ("module",):
            r = self.repo.resolve_name(self.repo.modules[base[1]], name)
            return self._resolved_to_term(r, self.repo.modules[base[1]], node, name)
        if k == "ext":
            return ("ext", base[1] + "." + name)
        if (base, name) in st.ov:
            return self._under(st.ov[(base, name)], st.pc)
        if k == "new":
            h = self.heap[base[2]]
            if name in h["fields"]:
                return self._under(h["fields"][name], st.pc)
        ci = self.class_of(base)
        if k == "classref":
            ci = self.types.class_by_name.get(base[1])
        if ci is None and k == "attr":
            # polymorphic receiver (e.g. self.action_space: Flat | Parameterised): one case per
            # possible class, guarded by an opaque type-test atom
            bn = self.type_name(base[1])
            ts = sorted(self.types.lookup_attr(bn, base[2])) if bn else []
            if len(ts) > 1:
                cis = [self.types.class_by_name.get(x) for x in ts]
                if all(c is not None and c.find_method(name) is not None for c in cis):
                    return ("cases", tuple(
                        ((("istype", base, c.name),),
                         self._getattr(("typed", c.name, base), name, st, act, node))
                        for c in cis))
        if ci is not None:
            m = ci.find_method(name)
            if m is not None:
                if m.flavour == "property" and k != "classref":
                    return self._inline(m, [base], {}, st, act, node)
                return ("boundmethod", base, m.fq)
            oc, ex = ci.find_class_attr(name)
            if ex is not None:
                # class-level attribute: fold if constant and never re-assigned at run time
                kind = self._class_attr_kind(oc, name)
                if kind == "const":
                    ok, v = self.repo.class_const(oc, name)
                    if ok:
                        return self._const_term(v)
                if kind == "instance" and k != "classref":
                    return ("attr", base, name)
                return ("clsattr", oc.name, name)
        return ("attr", base, name)

    def _under(self, t, pc):
        """resolve conditional (phi) values whose condition is decided by the current path
        condition: a store made under conditions that all hold here is simply the value"""
        while t[0] == "phi":
            c = t[1]
            conj = c[1] if c[0] == "and" else (c,)
            if all(x in pc or ("fact", x) in pc for x in conj):
                t = t[2]
            elif any(("not", x) in pc or (x[0] == "not" and x[1] in pc) for x in conj):
                t = t[3]
            else:
                break
        return t

    def _class_attr_kind(self, ci, name):
        """'const'   : never assigned outside the class body
           'instance': shadowed by an instance attribute (self.X = ...)
           'class'   : re-assigned at run time through cls.X / ClassName.X"""
        key = (ci.name, name)
        cache = self.repo.__dict__.setdefault("_mut_cache", {})
        if key not in cache:
            kind = "const"
            family = set(self.repo.subclasses(ci)) | set(ci.mro())
            for c in self.repo.all_classes():
                for fi in list(c.methods.values()) + list(c.setters.values()):
                    first = fi.params[0] if fi.params else None
                    for n in ast.walk(fi.node):
                        if isinstance(n, ast.Attribute) and isinstance(n.ctx, ast.Store) \
                                and n.attr == name and isinstance(n.value, ast.Name):
                            if n.value.id == ci.name:
                                kind = "class"
                            elif c in family and n.value.id == first:
                                if fi.flavour == "classmethod":
                                    kind = "class"
                                elif kind != "class":
                                    kind = "instance"
            cache[key] = kind
        return cache[key]

    def _e_Subscript(self, e, st, act):
        base = self._eval(e.value, st, act)
        idx = self._eval_index(e.slice, st, act)
        if self.trace_reads and base[0] == "attr" and base[2] in self.trace_reads:
            # opt-in: *when* an item of this attribute is read (rules about reads that must
            # follow an update)
            self._emit("read", st, e, act, base=base, idx=idx)
        if base[0] == "dictobj" and self.heap[base[1]].get("memo"):
            # a look-up table filled on demand (`if k not in D: D[k] = f(k)` and nothing else):
            # D[k] for the key it was just filled for is f(k)
            h = self.heap[base[1]]
            if not h["items"] and len(h["memo"]) == len(h["dyn"]):
                for k_, v_ in h["memo"].values():
                    if k_ == idx:
                        return v_
        if is_const(idx) and isinstance(idx[1], str) and (base, ("key", idx[1])) in st.ov:
            return self._under(st.ov[(base, ("key", idx[1]))], st.pc)
        return self._getitem(base, idx)

    def _table_lookup(self, base, key):
        """entry of a literal table (dict without dynamic stores) for a literal key - a constant,
        or a class when the table is keyed by classes: (True, value) / (False, None) when the key
        is absent / None when not decidable"""
        if base[0] != "dictobj":
            return None
        h = self.heap[base[1]]
        if h["dyn"] and not h["items"] and key[0] == "classref" and all(
                tuple(pc) == tuple(h.get("pc0", ())) and k_[0] == "classref"
                for k_, v_, pc in h["dyn"]):
            # a display keyed by classes, evaluated where it is written
            for k_, v_, _ in h["dyn"]:
                if k_ == key:
                    return True, v_
            return False, None
        if h["dyn"]:
            return None
        if is_const(key):
            try:
                return (True, h["items"][key[1]]) if key[1] in h["items"] else (False, None)
            except TypeError:
                return None
        if key[0] == "classref" and h["items"] and all(isinstance(k_, ClassRef)
                                                       for k_ in h["items"]):
            for k_, v in h["items"].items():
                if k_.ci.name == key[1]:
                    return True, v
            return False, None
        return None

    def _getitem(self, base, idx):
        hit = self._table_lookup(base, idx)
        if hit is not None and hit[0]:
            return hit[1]
        if base[0] in ("tuple", "list") and is_const(idx) and isinstance(idx[1], int) \
                and -len(base[1]) <= idx[1] < len(base[1]):
            return base[1][idx[1]]
        if is_const(base) and isinstance(base[1], (tuple, str)) and is_const(idx) \
                and isinstance(idx[1], int) and -len(base[1]) <= idx[1] < len(base[1]):
            return C(base[1][idx[1]])
        if base[0] == "cases":
            return mk_cases((pc, self._getitem(t, idx)) for pc, t in base[1])
        if base[0] == "phi":
            a, b = self._getitem(base[2], idx), self._getitem(base[3], idx)
            return a if a == b else ("phi", base[1], a, b)
        if base[0] in ("tuple", "list") and 2 <= len(base[1]) <= 8 and not is_const(idx) \
                and all(x[0] in ("classref", "funcref", "closure", "boundmethod")
                        for x in base[1]):
            # a dispatch table of callables indexed by a run-time code: one alternative per entry
            # (what is then called / compared is known in each alternative)
            return ("cases", tuple(((("cmp", "==", idx, C(i)),), x)
                                   for i, x in enumerate(base[1])))
        return ("sub", base, idx)

    def _e_Tuple(self, e, st, act):
        elts = tuple(self._eval(x, st, act) for x in e.elts)
        if elts and all(is_const(x) for x in elts):
            return C(tuple(x[1] for x in elts))
        return ("tuple", elts)

    def _e_List(self, e, st, act):
        oid = self.new_id()
        elts = [self._eval(x, st, act) for x in e.elts]
        self.heap[oid] = {"kind": "list", "elts": elts, "dyn": [], "pc0": st.pc,
                          "site": f"{act.fi.module.path}:{e.lineno}"}
        return ("listobj", oid)

    def _e_Set(self, e, st, act):
        return ("setlit", tuple(self._eval(x, st, act) for x in e.elts))

    def _e_Dict(self, e, st, act):
        oid = self.new_id()
        h = {"kind": "dict", "items": {}, "dyn": [], "pc0": st.pc,
             "site": f"{act.fi.module.path}:{e.lineno}"}
        self.heap[oid] = h
        for k, v in zip(e.keys, e.values):
            vv = self._eval(v, st, act)
            if k is None:
                if vv[0] == "dictobj":
                    h["items"].update(self.heap[vv[1]]["items"])
                else:
                    h["dyn"].append((("unknown", "**"), vv, st.pc))
                continue
            kk = self._eval(k, st, act)
            if is_const(kk):
                h["items"][kk[1]] = vv
            else:
                h["dyn"].append((kk, vv, st.pc))
        return ("dictobj", oid)

    def _e_JoinedStr(self, e, st, act):
        return ("fstr", tuple(self._eval(v.value, st, act) for v in e.values
                              if isinstance(v, ast.FormattedValue)))

    def _e_BoolOp(self, e, st, act):
        # short-circuit: a later operand is evaluated only when the earlier ones did not settle
        # the result - what it calls / stores happens under that condition
        is_and = isinstance(e.op, ast.And)
        vals = []
        cur = st
        for v in e.values:
            val = self._eval(v, cur, act)
            vals.append(val)
            tc = truth_const(val)
            if tc is not None and tc != is_and:
                break                      # settled: the remaining operands are never evaluated
            if v is not e.values[-1]:
                cur = cur.fork(val if is_and else ("not", val))
        if cur is not st:
            for k_, v_ in cur.env.items():     # names bound inside operands (walrus)
                if st.env.get(k_) is not v_ and k_ not in st.env:
                    st.env[k_] = v_
        return _boolop("and" if is_and else "or", vals)

    def _e_UnaryOp(self, e, st, act):
        v = self._eval(e.operand, st, act)
        if isinstance(e.op, ast.Not):
            tc = truth_const(v)
            if tc is not None:
                return C(not tc)
            return ("not", v)
        if isinstance(e.op, ast.USub):
            if is_const(v) and isinstance(v[1], (int, float)):
                return C(-v[1])
            return ("neg", v)
        return ("unknown", ast.unparse(e))

    def _fold_bin(self, op, a, b):
        if is_const(a) and is_const(b):
            try:
                x, y = a[1], b[1]
                r = {"+": lambda: x + y, "-": lambda: x - y, "*": lambda: x * y,
                     "%": lambda: x % y, "//": lambda: x // y}.get(op)
                if r is not None and not isinstance(x, bool):
                    return C(r())
            except Exception:
                pass
        return ("bin", op, a, b)

    def _e_BinOp(self, e, st, act):
        a = self._eval(e.left, st, act)
        b = self._eval(e.right, st, act)
        if isinstance(e.op, ast.BitOr) and a[0] == "dictobj" and b[0] == "dictobj" \
                and not self.heap[a[1]]["dyn"] and not self.heap[b[1]]["dyn"]:
            # d1 | d2 of two literal dicts: d1's entries (in d1's order) overridden / extended by d2
            items = dict(self.heap[a[1]]["items"])
            items.update(self.heap[b[1]]["items"])
            oid = self.new_id()
            self.heap[oid] = {"kind": "dict", "items": items, "dyn": [], "pc0": st.pc,
                              "site": f"{act.fi.module.path}:{e.lineno}"}
            return ("dictobj", oid)
        return self._fold_bin(BIN_OPS.get(type(e.op), "?"), a, b)

    def _e_Compare(self, e, st, act):
        # `next(G, None) is (not) None` over a produced sequence G (generator call, list built by
        # one append in loops, identity comprehension): "G has (no) element" - the elements
        # themselves are taken not to be None, which is what the idiom presupposes
        if len(e.ops) == 1 and isinstance(e.ops[0], (ast.Is, ast.IsNot)) \
                and isinstance(e.comparators[0], ast.Constant) and e.comparators[0].value is None \
                and isinstance(e.left, ast.Call) and isinstance(e.left.func, ast.Name) \
                and e.left.func.id == "next" and len(e.left.args) == 2 and not e.left.keywords \
                and isinstance(e.left.args[1], ast.Constant) and e.left.args[1].value is None \
                and "next" not in st.env:
            g = self._eval(e.left.args[0], st, act)
            src = self._iter_source(g)
            if src is not None and any(c[0] == "inloop" for c in src[1]) \
                    and not (is_const(src[0]) and src[0][1] is None):
                extra = tuple(src[1])
                i0 = next(i for i, c in enumerate(extra) if c[0] == "inloop")

                def nest(cs):
                    # nested producer loops are nested quantifiers
                    for j, c in enumerate(cs):
                        if c[0] == "inloop":
                            return tuple(cs[:j]) + (("exists", c[1], nest(cs[j + 1:])),)
                    return tuple(cs)
                ex = ("exists", extra[i0][1], nest(extra[i0 + 1:]))
                if extra[:i0]:
                    ex = _boolop("and", list(extra[:i0]) + [ex])
                return ex if isinstance(e.ops[0], ast.IsNot) else ("not", ex)
        left = self._eval(e.left, st, act)
        parts = []
        for op, r in zip(e.ops, e.comparators):
            right = self._eval(r, st, act)
            parts.append(self._cmp(CMP_OPS[type(op)], left, right))
            left = right
        return parts[0] if len(parts) == 1 else _boolop("and", parts)

    def _cmp(self, op, a, b):
        # comparisons distribute over conditional / multi-exit values (path sensitivity for the
        # idiom `r = helper(); if r is not None: ...`)
        for x, other, left in ((a, b, True), (b, a, False)):
            if x[0] == "cases" and len(x[1]) <= 12:
                return mk_cases((pc, self._cmp(op, t, other) if left else self._cmp(op, other, t))
                                for pc, t in x[1])
            if x[0] == "phi":
                u = self._cmp(op, x[2], other) if left else self._cmp(op, other, x[2])
                v = self._cmp(op, x[3], other) if left else self._cmp(op, other, x[3])
                return u if u == v else ("phi", x[1], u, v)
        if is_const(a) and is_const(b):
            try:
                x, y = a[1], b[1]
                r = {"==": lambda: x == y, "!=": lambda: x != y, "<": lambda: x < y,
                     "<=": lambda: x <= y, ">": lambda: x > y, ">=": lambda: x >= y,
                     "is": lambda: x is y, "isnot": lambda: x is not y,
                     "in": lambda: x in y, "notin": lambda: x not in y}[op]()
                return C(bool(r))
            except Exception:
                pass
        if op in ("is", "isnot") and is_const(b) and b[1] is None \
                and a[0] in ("new", "obj", "classref", "tuple", "listobj", "dictobj", "fstr",
                             "closure", "list", "comp", "setlit"):
            return C(op == "isnot")
        if op in ("==", "!=", "is", "isnot") and a[0] == "classref" and b[0] == "classref":
            return C((a == b) == (op in ("==", "is")))
        if op in ("in", "notin") and a[0] == "classref" and b[0] in ("tuple", "list") \
                and all(x[0] == "classref" for x in b[1]):
            return C((a in b[1]) == (op == "in"))
        if op in ("in", "notin") and is_const(a) and b[0] == "dictobj":
            h = self.heap[b[1]]
            if not h["dyn"]:
                return C((a[1] in h["items"]) == (op == "in"))
        if op in ("in", "notin") and a[0] == "classref":
            # membership of a class in a literal collection of classes, however it is wrapped
            # (tuple / list / set display, frozenset(...) / set(...) of one, keys of a literal table)
            coll = b
            while coll[0] == "call" and coll[1] in ("builtins.frozenset", "builtins.set",
                                                    "builtins.tuple", "builtins.list") \
                    and len(coll[2]) == 1 and not coll[3]:
                coll = coll[2][0]
            if coll[0] in ("tuple", "list", "setlit") and all(x[0] == "classref" for x in coll[1]):
                return C((a in coll[1]) == (op == "in"))
            if is_const(coll) and isinstance(coll[1], (frozenset, tuple)) and coll[1] \
                    and all(isinstance(k_, ClassRef) for k_ in coll[1]):
                return C((a[1] in {k_.ci.name for k_ in coll[1]}) == (op == "in"))
            if coll[0] == "dictobj" and not self.heap[coll[1]]["dyn"]:
                keys = list(self.heap[coll[1]]["items"])
                if all(isinstance(k_, ClassRef) for k_ in keys):
                    return C((a[1] in {k_.ci.name for k_ in keys}) == (op == "in"))
            if coll[0] == "dictobj":
                hit = self._table_lookup(coll, a)
                if hit is not None:
                    return C(hit[0] == (op == "in"))
        return ("cmp", op, a, b)

    def _e_IfExp(self, e, st, act):
        c = self._eval(e.test, st, act)
        tc = truth_const(c)
        if tc is True:
            return self._eval(e.body, st, act)
        if tc is False:
            return self._eval(e.orelse, st, act)
        a = self._eval(e.body, st.fork(c), act)
        b = self._eval(e.orelse, st.fork(("not", c)), act)
        return a if a == b else ("phi", c, a, b)

    def _comp(self, kind, e, elt_nodes, st, act):
        r = self._comp_unrolled(kind, e, elt_nodes, st, act)
        if r is not None:
            return r
        inner = st.fork()
        gens = []
        for g in e.generators:
            it = self._eval(g.iter, inner, act)
            src = self._iter_source(it)
            if src is not None and any(c[0] == "inloop" for c in src[1]):
                # comprehension over an identity comprehension / appended list: same producer
                elem, extra = src
                self._assign(g.target, elem, inner, act, e)
                # one generator per producer loop, each with the conditions met inside it
                segs, pre0 = [], []
                for c in extra:
                    if c[0] == "inloop":
                        segs.append([c[1], []])
                    elif segs:
                        segs[-1][1].append(c)
                    else:
                        pre0.append(c)
                segs[0][1][:0] = pre0
                segs[-1][1].extend(self._eval(c, inner, act) for c in g.ifs)
                for lid, cs in segs:
                    gens.append((lid, self.loops[lid]["iter"], tuple(cs)))
                continue
            lid = self.new_id()
            it, view = self._mapping_view(it)
            # later generators are nested in the earlier ones (tells apart two generators over the
            # same iterable, `for i, x in enumerate(f) for j, y in enumerate(f)`)
            self.loops[lid] = {"iter": it, "func": act.fi.fq, "lineno": e.lineno,
                               "kind": "comp", "target": ast.unparse(g.target),
                               "pc": st.pc + tuple(("inloop", l) for l, _, _ in gens)}
            el = ("elem", it, lid)
            self._assign(g.target, view(el) if view is not None else el, inner, act, e)
            conds = tuple(self._eval(c, inner, act) for c in g.ifs)
            gens.append((lid, it, conds))
        elts = tuple(self._eval(x, inner, act) for x in elt_nodes)
        return ("comp", kind, elts, tuple(gens))

    def _comp_unrolled(self, kind, e, elt_nodes, st, act):
        """a list / dict comprehension with one generator over a literal sequence (a table written
        in the source, <= 16 entries) whose conditions fold to constants is the literal it spells"""
        if kind not in ("list", "dict") or len(e.generators) != 1:
            return None
        g = e.generators[0]
        probe = st.fork()
        it = self._eval(g.iter, probe, act)
        elts = self._literal_elements(it)
        if elts is None or len(elts) > 16:
            return None
        out = []
        for el in elts:
            inner = st.fork()
            self._assign(g.target, el, inner, act, e)
            keep = True
            for c in g.ifs:
                tc = truth_const(self._eval(c, inner, act))
                if tc is None:
                    return None
                if not tc:
                    keep = False
                    break
            if keep:
                out.append(tuple(self._eval(x, inner, act) for x in elt_nodes))
        oid = self.new_id()
        site = f"{act.fi.module.path}:{e.lineno}"
        if kind == "list":
            self.heap[oid] = {"kind": "list", "elts": [x[0] for x in out], "dyn": [],
                              "pc0": st.pc, "site": site}
            return ("listobj", oid)
        if not all(is_const(k) for k, _ in out):
            return None
        h = {"kind": "dict", "items": {}, "dyn": [], "pc0": st.pc, "site": site}
        for k, v in out:
            try:
                h["items"][k[1]] = v
            except TypeError:
                return None
        self.heap[oid] = h
        return ("dictobj", oid)

    def _e_ListComp(self, e, st, act):
        return self._comp("list", e, [e.elt], st, act)

    def _e_SetComp(self, e, st, act):
        return self._comp("set", e, [e.elt], st, act)

    def _e_GeneratorExp(self, e, st, act):
        return self._comp("gen", e, [e.elt], st, act)

    def _e_DictComp(self, e, st, act):
        return self._comp("dict", e, [e.key, e.value], st, act)

    def _e_NamedExpr(self, e, st, act):
        v = self._eval(e.value, st, act)
        st.env[e.target.id] = v
        return v

    def _e_Slice(self, e, st, act):
        return ("slice",
                self._eval(e.lower, st, act) if e.lower else CONST_NONE,
                self._eval(e.upper, st, act) if e.upper else CONST_NONE,
                self._eval(e.step, st, act) if e.step else CONST_NONE)

    def _e_Yield(self, e, st, act):
        g = getattr(act, "gen", None)
        v = self._eval(e.value, st, act) if e.value is not None else CONST_NONE
        if g is None:
            self._opaque(act, "yield outside a modelled generator call",
                         f"{act.fi.module.path}:{e.lineno}")
            return ("unknown", "yield")
        self.heap[g[1]]["dyn"].append(("append", (v,), st.pc))
        return CONST_NONE

    def _e_YieldFrom(self, e, st, act):
        g = getattr(act, "gen", None)
        v = self._eval(e.value, st, act)
        if g is None:
            self._opaque(act, "yield from outside a modelled generator call",
                         f"{act.fi.module.path}:{e.lineno}")
            return ("unknown", "yield from")
        self.heap[g[1]]["dyn"].append(("extend", (v,), st.pc))
        return CONST_NONE

    def _e_Starred(self, e, st, act):
        return ("starred", self._eval(e.value, st, act))

    def _e_Lambda(self, e, st, act):
        fn = ast.FunctionDef(name="<lambda>", args=e.args,
                             body=[ast.Return(value=e.body, lineno=e.lineno,
                                              col_offset=e.col_offset)],
                             decorator_list=[], returns=None, type_comment=None, type_params=[],
                             lineno=e.lineno, col_offset=e.col_offset)
        return self._closure(fn, st, act)

    def _closure(self, node, st, act):
        """a local function / lambda: a callable value that remembers the variables visible where
        it was defined (captured by value at definition time) and is inlined when called"""
        from .model import FuncInfo
        fi = FuncInfo(act.fi.module, None, node)
        fi.name = f"{act.fi.qualname}.<locals>.{node.name}@{node.lineno}"
        key = self.new_id()
        if not hasattr(self, "closures"):
            self.closures = {}
        self.closures[key] = (fi, dict(st.env))
        return ("closure", key, fi.name)

    _match_counter = 0

    def _desugar_match(self, s):
        """`match subject: case ...` as an if/elif chain over the patterns the language defines
        structurally: literals and constants (==), None/True/False (is), class patterns with
        keyword sub-patterns (isinstance + attribute tests, captures bound first), captures,
        wildcards, or-patterns and guards.  Anything else (sequence / mapping / positional class
        patterns) is left to the unsupported-statement path."""
        Interp._match_counter += 1
        subj = f"__match_subject_{Interp._match_counter}"

        def L(name):
            return ast.Name(id=name, ctx=ast.Load())

        def pat(p, val):
            """(test expr or None for 'always', [assignments])"""
            if isinstance(p, ast.MatchValue):
                return ast.Compare(left=val, ops=[ast.Eq()], comparators=[p.value]), []
            if isinstance(p, ast.MatchSingleton):
                return ast.Compare(left=val, ops=[ast.Is()],
                                   comparators=[ast.Constant(value=p.value)]), []
            if isinstance(p, ast.MatchAs):
                if p.pattern is None:
                    binds = [] if p.name is None else [ast.Assign(
                        targets=[ast.Name(id=p.name, ctx=ast.Store())], value=val)]
                    return None, binds
                t, b = pat(p.pattern, val)
                if p.name is not None:
                    b = b + [ast.Assign(targets=[ast.Name(id=p.name, ctx=ast.Store())], value=val)]
                return t, b
            if isinstance(p, ast.MatchOr):
                tests = []
                for q in p.patterns:
                    t, b = pat(q, val)
                    if b:
                        raise NotImplementedError
                    if t is None:
                        return None, []
                    tests.append(t)
                return ast.BoolOp(op=ast.Or(), values=tests), []
            if isinstance(p, ast.MatchClass) and not p.patterns:
                tests = [ast.Call(func=L("isinstance"), args=[val, p.cls], keywords=[])]
                binds = []
                for attr, q in zip(p.kwd_attrs, p.kwd_patterns):
                    t, b = pat(q, ast.Attribute(value=val, attr=attr, ctx=ast.Load()))
                    if t is not None:
                        tests.append(t)
                    binds += b
                return (tests[0] if len(tests) == 1 else
                        ast.BoolOp(op=ast.And(), values=tests)), binds
            raise NotImplementedError
        try:
            chain = None
            for case in reversed(s.cases):
                t, binds = pat(case.pattern, L(subj))
                body = list(binds) + list(case.body)
                if case.guard is not None:
                    if binds:
                        # captures must be visible to the guard: bind first, then test the guard;
                        # a failed guard falls through to the remaining cases
                        tail = [chain] if chain is not None else []
                        inner = ast.If(test=case.guard, body=list(case.body), orelse=tail)
                        body = list(binds) + [inner]
                        chain = ast.If(test=t if t is not None else ast.Constant(value=True),
                                       body=body, orelse=tail)
                        continue
                    t = case.guard if t is None else ast.BoolOp(op=ast.And(),
                                                                values=[t, case.guard])
                if t is None:
                    chain = ast.If(test=ast.Constant(value=True), body=body, orelse=[])
                else:
                    chain = ast.If(test=t, body=body, orelse=[chain] if chain is not None else [])
            out = [ast.Assign(targets=[ast.Name(id=subj, ctx=ast.Store())], value=s.subject)]
            if chain is not None:
                out.append(chain)
            for n in out:
                ast.copy_location(n, s)
                ast.fix_missing_locations(n)
            return out
        except NotImplementedError:
            return [ast.AsyncWith(items=[], body=list(s.cases[0].body) if s.cases else [],
                                  lineno=s.lineno, col_offset=s.col_offset)]

    # ================================================================== calls
    def class_of(self, t):
        """ClassInfo of the object a term denotes, if known"""
        name = self.type_name(t)
        return self.types.class_by_name.get(name) if name else None

    def type_name(self, t, _d=0):
        if _d > 6 or not isinstance(t, tuple) or not t:
            return None
        if t in self.assumed_types:
            return self.assumed_types[t]
        k = t[0]
        if k == "obj":
            return t[1]
        if k == "new":
            return t[1]
        if k == "param":
            return self.param_types.get(t[1])
        if k == "attr":
            bn = self.type_name(t[1], _d + 1)
            if bn:
                ts = self.types.lookup_attr(bn, t[2])
                if len(ts) == 1:
                    return next(iter(ts))
            return None
        if k == "sub":
            b = t[1]
            if b[0] == "attr":
                bn = self.type_name(b[1], _d + 1)
                if bn:
                    ts = self.types.lookup_elem(bn, b[2])
                    if len(ts) == 1:
                        return next(iter(ts))
            return None
        if k == "elem":
            it = t[1]
            if it[0] == "mcall" and it[2] == "values":
                it = it[1]
                if it[0] == "attr":
                    bn = self.type_name(it[1], _d + 1)
                    if bn:
                        ts = self.types.lookup_elem(bn, it[2])
                        if len(ts) == 1:
                            return next(iter(ts))
            return None
        if k == "proj" and t[2] == 1 and t[1][0] == "elem":
            it = t[1][1]
            if it[0] == "mcall" and it[2] == "items" and it[1][0] == "attr":
                bn = self.type_name(it[1][1], _d + 1)
                if bn:
                    ts = self.types.lookup_elem(bn, it[1][2])
                    if len(ts) == 1:
                        return next(iter(ts))
            return None
        if k == "phi":
            a, b = self.type_name(t[2], _d + 1), self.type_name(t[3], _d + 1)
            return a if a == b else None
        if k == "cases":
            ns = {self.type_name(x, _d + 1) for _, x in t[1]}
            return ns.pop() if len(ns) == 1 else None
        if k == "typed":
            return t[1]
        return None

    def _args(self, e, st, act):
        args, kwargs = [], {}
        star = None
        for a in e.args:
            if isinstance(a, ast.Starred):
                sv = self._eval(a.value, st, act)
                if sv[0] in ("tuple", "list") and star is None:
                    args.extend(sv[1])          # f(*(a, b)) is f(a, b)
                else:
                    star = sv
            else:
                args.append(self._eval(a, st, act))
        dstar = []
        for kw in e.keywords:
            v = self._eval(kw.value, st, act)
            if kw.arg is None:
                h = self.heap.get(v[1]) if v[0] == "dictobj" else None
                if h is not None and not h["dyn"] and h["items"] \
                        and all(isinstance(k_, str) for k_ in h["items"]):
                    # f(**{"a": x, "b": y}) is f(a=x, b=y)
                    for k_, v_ in h["items"].items():
                        kwargs[k_] = self._under(v_, st.pc)
                else:
                    dstar.append(v)
            else:
                kwargs[kw.arg] = v
        return args, kwargs, star, dstar

    def _e_Call(self, e, st, act):
        self.total_calls += 1
        f = e.func
        # super().method(...)
        if isinstance(f, ast.Attribute) and isinstance(f.value, ast.Call) \
                and isinstance(f.value.func, ast.Name) and f.value.func.id == "super":
            args, kwargs, star, dstar = self._args(e, st, act)
            selfv = st.env.get(act.fi.params[0]) if act.fi.params else None
            if act.fi.cls is not None:
                for b in act.fi.cls.mro()[1:]:
                    if f.attr in b.methods:
                        self.resolved_calls += 1
                        return self._inline(b.methods[f.attr], [selfv] + args, kwargs, st, act,
                                            e, dstar=dstar)
            self.resolved_calls += 1
            self._emit("call", st, e, act, fname="super()." + f.attr, args=tuple(args),
                       kwargs=tuple(sorted(kwargs.items())), external=True)
            return ("call", "super()." + f.attr, tuple(args), tuple(sorted(kwargs.items())),
                    None)
        ft = self._eval(f, st, act)
        args, kwargs, star, dstar = self._args(e, st, act)
        return self._call_term(ft, args, kwargs, star, dstar, st, act, e)

    def _call_term(self, ft, args, kwargs, star, dstar, st, act, e):
        k = ft[0]
        if k == "phi":
            a = self._call_term(ft[2], args, kwargs, star, dstar, st.fork(ft[1]), act, e)
            b = self._call_term(ft[3], args, kwargs, star, dstar, st.fork(("not", ft[1])), act, e)
            return a if a == b else ("phi", ft[1], a, b)
        if k == "cases":
            return mk_cases((pc, self._call_term(t, args, kwargs, star, dstar,
                                                 _State(st.env, st.pc + tuple(pc), st.ov), act, e))
                            for pc, t in ft[1])
        if k == "closure":
            self.resolved_calls += 1
            fi, cenv = self.closures[ft[1]]
            return self._inline(fi, args, kwargs, st, act, e, dstar=dstar, closure_env=cenv)
        if k == "classref":
            self.resolved_calls += 1
            return self._construct(ft[1], args, kwargs, st, act, e, dstar)
        if k == "funcref":
            self.resolved_calls += 1
            mod, qn = ft[1].split(":")
            fi = self.repo.func(mod, qn)
            if fi.cls is not None and fi.flavour == "classmethod":
                # ClassName.method(...) resolved as a module member: the class is the receiver
                return self._inline(fi, [("classref", fi.cls.name)] + args, kwargs, st, act, e,
                                    dstar=dstar)
            return self._inline(fi, args, kwargs, st, act, e, dstar=dstar)
        if k == "boundmethod":
            self.resolved_calls += 1
            mod, qn = ft[2].split(":")
            fi = self._fi_by_fq(ft[2])
            recv = ft[1]
            if fi.flavour == "staticmethod":
                return self._inline(fi, args, kwargs, st, act, e, dstar=dstar)
            if fi.flavour == "classmethod":
                cn = recv[1] if recv[0] == "classref" else (self.type_name(recv) or fi.cls.name)
                return self._inline(fi, [("classref", cn)] + args, kwargs, st, act, e,
                                    dstar=dstar)
            return self._inline(fi, [recv] + args, kwargs, st, act, e, dstar=dstar)
        if k == "ext":
            self.resolved_calls += 1
            return self._opaque_call(ft[1], args, kwargs, star, dstar, st, act, e)
        if k == "attr":
            # method call on an untyped / external receiver
            recv, name = ft[1], ft[2]
            cands = []
            if name not in BUILTIN_METHODS:
                nargs = len(args) + len(kwargs)
                for c in self.repo.all_classes():
                    m = c.methods.get(name)
                    if m is not None and m.flavour in ("plain", "classmethod"):
                        np_ = len(m.params) - 1
                        nd = len(m.node.args.defaults)
                        if np_ - nd <= nargs <= np_ or m.node.args.kwarg or m.node.args.vararg:
                            cands.append(m)
            rcls = self.class_of(recv)
            if rcls is not None and rcls.find_method(name) is None and not rcls.ext_bases \
                    and name not in BUILTIN_METHODS:
                self._emit("unresolved-member", st, e, act, recv=recv, cls=rcls.name, name=name)
                self.unresolved.append((f"{act.fi.module.path}:{e.lineno}",
                                        f"{rcls.name} has no member {name}"))
                return ("call", f"?{rcls.name}.{name}", tuple(args),
                        tuple(sorted(kwargs.items())), None)
            if len(cands) == 1 and rcls is None:
                self.resolved_calls += 1
                m = cands[0]
                if recv[0] not in ("const", "unknown"):
                    self.assumed_types[recv] = m.cls.name
                first = ("classref", m.cls.name) if m.flavour == "classmethod" else recv
                return self._inline(m, [first] + args, kwargs, st, act, e, dstar=dstar,
                                    how="cha")
            if name in BUILTIN_METHODS or rcls is not None:
                self.resolved_calls += 1
            else:
                self.unresolved.append((f"{act.fi.module.path}:{e.lineno}", f".{name}()"))
            return self._opaque_mcall(recv, name, args, kwargs, st, act, e)
        if k in ("dictobj", "listobj") or k in ("sub", "elem", "proj", "call", "mcall",
                                                  "loopcarried", "loopout", "unknown", "param",
                                                  "global", "clsattr"):
            self.unresolved.append((f"{act.fi.module.path}:{e.lineno}",
                                    f"call of {k} term"))
            self._opaque(act, f"call of a computed callable ({k})",
                         f"{act.fi.module.path}:{e.lineno}")
            self._emit("call", st, e, act, fname="?dynamic", args=tuple(args),
                       kwargs=tuple(sorted(kwargs.items())), callee=ft, external=False)
            return ("call", "?dynamic", (ft,) + tuple(args), tuple(sorted(kwargs.items())),
                    None)
        self._opaque(act, f"call of a computed callable ({k})",
                     f"{act.fi.module.path}:{getattr(e, 'lineno', 0)}")
        self._emit("call", st, e, act, fname="?" + k, args=tuple(args),
                   kwargs=tuple(sorted(kwargs.items())), callee=ft, external=False)
        return ("call", "?" + k, (ft,) + tuple(args), tuple(sorted(kwargs.items())), None)

    def _fi_by_fq(self, fq):
        mod, qn = fq.split(":")
        m = self.repo.modules[mod]
        if "." in qn:
            c, f = qn.split(".", 1)
            ci = m.classes[c]
            return ci.methods.get(f) or ci.setters.get(f)
        return m.functions[qn]

    FRESH_EXT = {"numpy.copy", "numpy.zeros", "numpy.ones", "numpy.full", "numpy.array",
                 "numpy.empty"}

    def _opaque_call(self, fname, args, kwargs, star, dstar, st, act, e):
        kws = tuple(sorted(kwargs.items()))
        if not known_external(fname):
            # a library function the engine has no summary of: whatever is derived from its result
            # (and from the interpreter run it occurs in) is not a verdict
            self._opaque(act, f"call of {fname} (no summary in the engine)",
                         f"{act.fi.module.path}:{getattr(e, 'lineno', 0)}")
        site = None
        if fname.startswith("numpy.random.") or fname.startswith("random.") \
                or fname in self.FRESH_EXT or fname.split(".")[0] in ("time", "uuid", "secrets",
                                                                       "os"):
            site = (f"{act.fi.module.path}:{e.lineno}", self.new_id())
        # builtin containers get heap objects so later mutation is tracked
        if fname == "builtins.dict.fromkeys" and 1 <= len(args) <= 2 and not kwargs:
            # dict.fromkeys(X, v) is `d = {}; for k in X: d[k] = v`
            lits = self._literal_elements(args[0])
            if lits is not None and len(lits) <= 32 and all(is_const(x) for x in lits):
                # over a literal sequence of keys: the literal dict
                try:
                    items = {x[1]: (args[1] if len(args) == 2 else CONST_NONE) for x in lits}
                except TypeError:
                    items = None
                if items is not None:
                    oid = self.new_id()
                    self.heap[oid] = {"kind": "dict", "items": items, "dyn": [], "pc0": st.pc,
                                      "site": f"{act.fi.module.path}:{e.lineno}"}
                    return ("dictobj", oid)
            it, view = self._mapping_view(args[0])
            ks = self._keys_source(it) if view is None else None
            if ks is not None:
                it = ks           # the keys of a dict filled once per element of IT are IT
            if it[0] == "comp" and it[1] == "dict" and len(it[3]) == 1 and not it[3][0][2] \
                    and it[2][0] == ("elem", it[3][0][1], it[3][0][0]):
                it = it[3][0][1]  # {x: f(x) for x in IT} has IT's elements as keys
            if view is None:
                lid = self.new_id()
                self.loops[lid] = {"iter": it, "func": act.fi.fq, "lineno": e.lineno,
                                   "kind": "for", "target": "_key", "pc": st.pc}
                key = ("elem", it, lid)
                val = args[1] if len(args) == 2 else CONST_NONE
                oid = self.new_id()
                inner = st.fork(("inloop", lid))
                self.heap[oid] = {"kind": "dict", "items": {}, "dyn": [(key, val, inner.pc)],
                                  "pc0": st.pc, "site": f"{act.fi.module.path}:{e.lineno}"}
                self._emit("store", inner, e, act, target="sub", base=("dictobj", oid), idx=key,
                           value=val, aug=None)
                return ("dictobj", oid)
        if fname == "builtins.dict":
            oid = self.new_id()
            h = {"kind": "dict", "items": dict(kwargs), "dyn": [], "pc0": st.pc,
                 "site": f"{act.fi.module.path}:{e.lineno}"}
            self.heap[oid] = h
            if args:
                if args[0][0] == "dictobj":
                    h["items"] = dict(self.heap[args[0][1]]["items"], **kwargs)
                    h["dyn"] = list(self.heap[args[0][1]]["dyn"])
                else:
                    h["dyn"].append((("unknown", "init"), args[0], st.pc))
            return ("dictobj", oid)
        if fname == "builtins.list" and len(args) == 1 and not kwargs \
                and args[0][0] in ("mcall", "dictobj", "tuple", "list"):
            # list(<literal elements>) is the list of those elements (a fresh object: what is
            # appended to it later is tracked)
            els = self._literal_elements(args[0])
            if els is not None and (args[0][0] != "dictobj"):
                oid = self.new_id()
                self.heap[oid] = {"kind": "list", "elts": list(els), "dyn": [], "pc0": st.pc,
                                  "site": f"{act.fi.module.path}:{e.lineno}"}
                return ("listobj", oid)
        if fname == "builtins.getattr" and len(args) == 2 and is_const(args[1]) \
                and isinstance(args[1][1], str) and not kwargs:
            # getattr(obj, "name") with a literal name (e.g. from an unrolled table) is obj.name
            return self._getattr(args[0], args[1][1], st, act, e)
        if fname == "builtins.isinstance" and len(args) == 2:
            if args[0][0] == "phi":
                # isinstance of a conditional value: per alternative (a literal default folds)
                a = self._opaque_call(fname, [args[0][2], args[1]], kwargs, star, dstar,
                                      st.fork(args[0][1]), act, e)
                b = self._opaque_call(fname, [args[0][3], args[1]], kwargs, star, dstar,
                                      st.fork(("not", args[0][1])), act, e)
                return a if a == b else ("phi", args[0][1], a, b)
            r = self._isinstance(args[0], args[1])
            if r is not None:
                return C(r)
        if fname in ("builtins.bool",) and len(args) == 1:
            tc = truth_const(args[0])
            if tc is not None:
                return C(tc)
        if fname in ("builtins.int", "builtins.float") and len(args) == 1 and is_const(args[0]) \
                and isinstance(args[0][1], (bool, int, float)):
            return C(int(args[0][1]) if fname.endswith("int") else float(args[0][1]))
        if fname == "builtins.len" and len(args) == 1:
            a = args[0]
            if a[0] in ("tuple", "list"):
                return C(len(a[1]))
            if is_const(a) and isinstance(a[1], (tuple, str)):
                return C(len(a[1]))
            if a[0] == "dictobj" and not self.heap[a[1]]["dyn"] and self.heap[a[1]].get("const"):
                return C(len(self.heap[a[1]]["items"]))
            if a[0] == "listobj" and not self.heap[a[1]]["dyn"]:
                return C(len(self.heap[a[1]]["elts"]))
        t = ("call", fname, tuple(args) + ((("starred", star),) if star else ()),
             kws + tuple(("**", d) for d in dstar), site)
        self._emit("call", st, e, act, fname=fname, args=tuple(args), kwargs=kws, result=t,
                   external=True)
        return t

    def _isinstance(self, obj, classes):
        # literal containers against builtin container types
        builtin_kind = {"tuple": "builtins.tuple", "listobj": "builtins.list",
                        "dictobj": "builtins.dict"}.get(obj[0])
        if builtin_kind is None and is_const(obj) and isinstance(obj[1], tuple):
            builtin_kind = "builtins.tuple"
        if builtin_kind is not None:
            cl = classes[1] if classes[0] in ("tuple", "list") else (classes,)
            if all(c[0] in ("ext", "classref") for c in cl):
                return any(c[0] == "ext" and c[1] == builtin_kind for c in cl)
        cn = self.type_name(obj) if obj[0] in ("obj", "new") else None
        if cn is None:
            return None
        ci = self.types.class_by_name.get(cn)
        if ci is None:
            return None
        cl = []
        if classes[0] == "classref":
            cl = [classes[1]]
        elif classes[0] in ("tuple", "list") and all(c[0] == "classref" for c in classes[1]):
            cl = [c[1] for c in classes[1]]
        else:
            return None
        names = {c.name for c in ci.mro()}
        return any(c in names for c in cl)

    def _opaque_mcall(self, recv, name, args, kwargs, st, act, e):
        kws = tuple(sorted(kwargs.items()))
        if name not in KNOWN_METHODS:
            self._opaque(act, f"method .{name}() of a library / untyped object (no summary in the "
                         "engine)", f"{act.fi.module.path}:{getattr(e, 'lineno', 0)}")
        t = ("mcall", recv, name, tuple(args), kws)
        if recv[0] == "listobj" and name in ("append", "insert", "extend"):
            h = self.heap[recv[1]]
            h["dyn"].append((name, tuple(args), st.pc))
        if recv[0] == "dictobj" and name == "update":
            h = self.heap[recv[1]]
            pairs = dict(kwargs)
            known = True
            for a in args:
                if a[0] == "dictobj" and not self.heap[a[1]]["dyn"]:
                    pairs = dict(self.heap[a[1]]["items"], **pairs)
                else:
                    known = False
            if known:
                rel = st.pc[len(h["pc0"]):] if st.pc[:len(h["pc0"])] == h["pc0"] else st.pc
                for k2, v2 in pairs.items():
                    self._emit("store", st, e, act, target="sub", base=recv, idx=C(k2), value=v2,
                               aug=None)
                    old = h["items"].get(k2)
                    if rel:
                        v2 = ("phi", _conj(rel), v2, old if old is not None else ("undef", k2))
                    h["items"][k2] = v2
                return CONST_NONE
            h["dyn"].append((("unknown", name), tuple(args), st.pc))
        elif recv[0] == "dictobj" and name in ("pop", "setdefault", "clear", "popitem"):
            self.heap[recv[1]]["dyn"].append((("unknown", name), tuple(args), st.pc))
        if name == "setdefault" and len(args) == 2 and not kwargs and is_const(args[0]) \
                and isinstance(args[0][1], str) and recv[0] not in ("dictobj", "listobj"):
            # D.setdefault('k', d) on a mapping that is not a local literal: `if 'k' not in D:
            # D['k'] = d` followed by a read of D['k']
            present = ("cmp", "in", args[0], recv)
            cur = st.ov.get((recv, ("key", args[0][1])), ("sub", recv, args[0]))
            absent_st = st.fork(("not", present))
            self._emit("store", absent_st, e, act, target="sub", base=recv, idx=args[0],
                       value=args[1], aug=None)
            val = ("phi", present, cur, args[1])
            st.ov[(recv, ("key", args[0][1]))] = val
            return val
        if name == "get" and not kwargs and recv[0] not in ("dictobj", "listobj", "const") \
                and (len(args) == 1 or (len(args) == 2 and args[1] == CONST_NONE)):
            # D.get(k) on a mapping that is not a local literal: the entry when present, else None
            self._emit("mcall", st, e, act, recv=recv, name=name, args=tuple(args), kwargs=kws,
                       result=t)
            return ("phi", ("cmp", "in", args[0], recv), ("sub", recv, args[0]), CONST_NONE)
        if recv[0] == "dictobj" and name == "get" and args:
            hit = self._table_lookup(recv, args[0])
            if hit is not None:
                return hit[1] if hit[0] else (args[1] if len(args) > 1 else CONST_NONE)
        self._emit("mcall", st, e, act, recv=recv, name=name, args=tuple(args), kwargs=kws,
                   result=t)
        return t

    def _construct(self, clsname, args, kwargs, st, act, e, dstar=()):
        ci = self.types.class_by_name.get(clsname)
        oid = self.new_id()
        obj = ("new", clsname, oid)
        self.heap[oid] = {"kind": "obj", "fields": {}, "pc0": st.pc, "cls": clsname,
                          "site": f"{act.fi.module.path}:{getattr(e, 'lineno', 0)}",
                          "args": tuple(args), "kwargs": dict(kwargs)}
        self._emit("new", st, e, act, cls=clsname, obj=obj, args=tuple(args),
                   kwargs=tuple(sorted(kwargs.items())), dstar=tuple(dstar))
        init = ci.find_method("__init__") if ci else None
        if init is not None:
            self._inline(init, [obj] + list(args), kwargs, st, act, e, dstar=dstar)
        return obj

    def _inline(self, fi, args, kwargs, st, act, node, dstar=(), how="typed", closure_env=None):
        if fi.fq in self.no_inline or act.depth >= self.max_depth \
                or any(a.fi is fi for a in self.stack):
            # one spelling per call: f(a, y=b) is f(a, b) when y is the next positional parameter
            ps_ = [x.arg for x in fi.node.args.posonlyargs + fi.node.args.args]
            args, kwargs = list(args), dict(kwargs)
            while len(args) < len(ps_) and ps_[len(args)] in kwargs:
                args.append(kwargs.pop(ps_[len(args)]))
            t = ("call", fi.fq, tuple(args), tuple(sorted(kwargs.items())), None)
            self._emit("call", st, node, act, fname=fi.fq, args=tuple(args),
                       kwargs=tuple(sorted(kwargs.items())), result=t, external=False,
                       recursion=any(a.fi is fi for a in self.stack))
            return t
        a = fi.node.args
        params = [x.arg for x in a.posonlyargs + a.args]
        env = {}
        extra_pos = []
        for i, v in enumerate(args):
            if i < len(params):
                env[params[i]] = v
            else:
                extra_pos.append(v)
        extra_kw = {}
        kwonly = [x.arg for x in a.kwonlyargs]
        for k, v in kwargs.items():
            if k in params or k in kwonly:
                env[k] = v
            else:
                extra_kw[k] = v
        # **mapping expansion at the call site
        dyn_maps = []
        for d in dstar:
            if d[0] == "dictobj" and not self.heap[d[1]]["dyn"]:
                for k, v in self.heap[d[1]]["items"].items():
                    if k in params or k in kwonly:
                        env.setdefault(k, v)
                    else:
                        extra_kw[k] = v
            else:
                dyn_maps.append(d)
        defaults = dict(zip(params[len(params) - len(a.defaults):], a.defaults))
        for k, dv in zip(kwonly, a.kw_defaults):
            if dv is not None:
                defaults[k] = dv
        callee_act = _Activation(fi, st.pc, act.depth + 1)
        for p in params + kwonly:
            if p in env:
                continue
            dflt = None
            if p in defaults:
                dflt = self._eval(defaults[p], _State({}, st.pc), callee_act)
            if dyn_maps:
                m = dyn_maps[0]
                env[p] = ("kwget", m, p, dflt) if dflt is not None else ("sub", m, C(p))
            elif dflt is not None:
                env[p] = dflt
            else:
                env[p] = ("undef", p)
        if a.vararg:
            env[a.vararg.arg] = ("tuple", tuple(extra_pos))
        if a.kwarg:
            oid = self.new_id()
            self.heap[oid] = {"kind": "dict", "items": dict(extra_kw),
                              "dyn": [(("unknown", "**"), m, st.pc) for m in dyn_maps],
                              "pc0": st.pc}
            env[a.kwarg.arg] = ("dictobj", oid)
        self.touched.add(fi.module.path)
        self._emit("enter", st, node, act, callee=fi.fq, how=how,
                   args=tuple(args), kwargs=tuple(sorted(kwargs.items())))
        # a generator function: the call yields, in order, what its body hands to `yield` - modelled
        # as the list those values would be appended to (the body is pure in every use the rules
        # look at; laziness is not observable there)
        is_gen = _is_generator(fi.node)
        if is_gen:
            goid = self.new_id()
            self.heap[goid] = {"kind": "list", "elts": [], "dyn": [], "pc0": st.pc,
                               "site": f"{fi.module.path}:{fi.node.lineno}", "generator": fi.fq}
            callee_act.gen = ("listobj", goid)
        self.stack.append(callee_act)
        try:
            if closure_env:
                env = dict(closure_env, **env)
            end = self._block(fi.node.body, _State(env, st.pc, dict(st.ov)), callee_act)
        finally:
            self.stack.pop()
        self._emit("leave", st, node, act, callee=fi.fq)
        if is_gen:
            return callee_act.gen
        rets = callee_act.returns
        # attribute overlay after the call: merge of the callee's exits
        exits = [(pc, ov) for (pc, _), ov in zip(rets, callee_act.return_ovs)]
        if end is not None:
            exits.append((end.pc, end.ov))
        if len(exits) == 1:
            st.ov = dict(exits[0][1])
        elif exits:
            n0 = len(st.pc)
            merged = dict(exits[-1][1])
            for pc_i, ov_i in reversed(exits[:-1]):
                rel = tuple(c for c in pc_i[n0:] if c[0] != "inloop")
                for k in set(merged) | set(ov_i):
                    dflt = ("sub", k[0], C(k[1][1])) if isinstance(k[1], tuple) \
                        else ("attr", k[0], k[1])
                    a = ov_i.get(k, dflt)
                    b = merged.get(k, dflt)
                    if a != b:
                        merged[k] = ("phi", _conj(rel), a, b) if rel else a
            st.ov = merged
        # facts established by asserts on the callee's single exit hold in the caller afterwards
        exit_pc = None
        if end is not None and not rets:
            exit_pc = end.pc
        elif end is None and len(rets) == 1:
            exit_pc = rets[0][0]
        if exit_pc is not None and exit_pc[:len(st.pc)] == st.pc:
            facts = tuple(c for c in exit_pc[len(st.pc):] if c[0] == "fact")
            if facts:
                st.pc = st.pc + facts
        if not rets:
            return CONST_NONE
        n0 = len(st.pc)
        if len(rets) == 1:
            return rets[0][1]
        return mk_cases((tuple(pc[n0:]), t) for pc, t in rets)


def _is_generator(fn):
    """the function's own body (nested functions excluded) contains a yield"""
    stack = list(fn.body)
    while stack:
        n = stack.pop()
        if isinstance(n, (ast.Yield, ast.YieldFrom)):
            return True
        if isinstance(n, (ast.FunctionDef, ast.AsyncFunctionDef, ast.Lambda, ast.ClassDef)):
            continue
        stack.extend(ast.iter_child_nodes(n))
    return False


def _has_alternatives(t):
    """a conditional value whose alternatives are objects / None (worth splitting into paths)"""
    if t[0] == "phi":
        return _has_alternatives(t[2]) or _has_alternatives(t[3])
    if t[0] == "cases":
        return True
    return t[0] in ("new", "obj") or (t[0] == "const" and t[1] is None)


def _conj(pc):
    pc = tuple(pc)
    if len(pc) == 1:
        return pc[0]
    return ("and", pc)


def _boolop(op, vals):
    """truth-preserving simplification of and/or (only the truth value of the
    result is modelled, not which operand is returned)"""
    out = []
    for v in vals:
        tc = truth_const(v)
        if tc is None:
            out.append(v)
        elif op == "and" and tc is False:
            return CONST_FALSE
        elif op == "or" and tc is True:
            return CONST_TRUE
    if not out:
        return CONST_TRUE if op == "and" else CONST_FALSE
    if len(out) == 1:
        return out[0]
    return (op, tuple(out))


def mk_cases(pairs):
    pairs = tuple(pairs)
    terms = {t for _, t in pairs}
    if len(terms) == 1:
        return next(iter(terms))
    # two exits under complementary conditions (early return + fall through, if/else) are a
    # conditional value
    if len(pairs) == 2:
        (p1, t1), (p2, t2) = pairs
        p1 = tuple(c for c in p1 if c[0] != "fact")
        p2 = tuple(c for c in p2 if c[0] != "fact")
        if len(p1) == 1 and len(p2) == 1:
            if p2[0] == ("not", p1[0]):
                return ("phi", p1[0], t1, t2)
            if p1[0] == ("not", p2[0]):
                return ("phi", p2[0], t2, t1)
    return ("cases", pairs)


def _as_load(target):
    t = ast.parse(ast.unparse(target), mode="eval").body
    ast.copy_location(t, target)
    for n in ast.walk(t):
        if hasattr(n, "lineno") is False:
            ast.copy_location(n, target)
    return t


def _expr_stmt(target):
    return ast.Expr(value=target)
