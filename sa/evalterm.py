"""Tiny evaluator of interpreter terms over a finite abstract environment (used for
exact enumeration over small finite domains, e.g. access levels).  Not repo code:
only comparison/boolean/arithmetical structure of *terms* is evaluated."""


class Undecidable(Exception):
    pass


def eval_term(t, lookup):
    """lookup(term) -> python value or raises KeyError for unknown leaves"""
    try:
        return lookup(t)
    except KeyError:
        pass
    k = t[0]
    if k == "const":
        return t[1]
    if k in ("truth",):
        return bool(eval_term(t[1], lookup))
    if k == "num":
        return eval_term(t[1], lookup)
    if k == "not":
        return not eval_term(t[1], lookup)
    if k == "and":
        return all(eval_term(x, lookup) for x in t[1])
    if k == "or":
        return any(eval_term(x, lookup) for x in t[1])
    if k == "phi":
        return eval_term(t[2], lookup) if eval_term(t[1], lookup) else eval_term(t[3], lookup)
    if k == "cases":
        # a multi-exit value: the alternative whose path condition holds (exits are exclusive)
        hits = [x for pc, x in t[1]
                if all(eval_term(c, lookup) for c in pc if c[0] not in ("fact", "inloop"))]
        if len(hits) == 1 or (hits and all(h == hits[0] for h in hits)):
            return eval_term(hits[0], lookup)
        raise Undecidable(str(t)[:200])
    if k == "cmp":
        a, b = eval_term(t[2], lookup), eval_term(t[3], lookup)
        op = t[1]
        try:
            return {"==": a == b, "!=": a != b, "<": a < b, "<=": a <= b, ">": a > b,
                    ">=": a >= b, "is": a is b, "isnot": a is not b}[op]
        except (KeyError, TypeError):
            raise Undecidable(str(t))
    if k == "bin":
        a, b = eval_term(t[2], lookup), eval_term(t[3], lookup)
        try:
            return {"+": a + b, "-": a - b, "*": a * b}[t[1]]
        except (KeyError, TypeError):
            raise Undecidable(str(t))
    if k == "call" and t[1] in ("builtins.max", "builtins.min", "builtins.int",
                                "builtins.float", "builtins.bool"):
        args = [eval_term(a, lookup) for a in t[2]]
        f = {"builtins.max": max, "builtins.min": min, "builtins.int": int,
             "builtins.float": float, "builtins.bool": bool}[t[1]]
        return f(*args)
    raise Undecidable(str(t)[:200])
