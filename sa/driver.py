"""One way of running a property's rules (used by ./check and by the self-validation harness):
builds the context, clears the engine's per-run records, and turns the two 'the analysis is blind
here' situations - an undecoded host-vector layout, a vanished private anchor - into undecided
obligations instead of verdicts or crashes."""
import importlib
import re

from .model import AnalysisError


def private_anchor_missing(chk, e):
    """a private helper (leading underscore) that a rule names no longer exists and was not found
    again by its fingerprint: the obligations that needed it are not decided (the public entry
    points stay hard anchors: without them the run is broken, exit 2)"""
    m = re.match(r"anchor function (\S+):(\S+) not found", str(e))
    if not m or not m.group(2).split(".")[-1].startswith("_") \
            or m.group(2).split(".")[-1].startswith("__"):
        return False
    chk.undecided("engine.anchor", f"{m.group(1)}:{m.group(2)}",
                  "private helper named by the rules was renamed / removed and its body changed: "
                  "the remaining obligations of this check that depend on it were not evaluated")
    return True


def execute(pid, chk, overrides=None):
    """run rules/<pid>.py into chk; returns (module, ctx).  AnalysisError escapes only when the
    run is genuinely broken."""
    from .ctx import Ctx
    from . import interp as _ip
    mod = importlib.import_module(f"rules.{pid.lower()}")
    ctx = Ctx(overrides=overrides)
    del _ip.UNSUPPORTED[:]
    del _ip.OPAQUE[:]
    # private names this tree has and the reference tree has not (sa/report.py: NEW_PRIVATE)
    import json
    import os
    from . import report as _rep
    from .model import private_names
    try:
        with open(os.path.join(os.path.dirname(os.path.dirname(os.path.abspath(__file__))),
                               "private_names.json")) as fh:
            frozen = set(json.load(fh))
        _rep.NEW_PRIVATE = private_names(ctx.repo) - frozen
    except Exception:
        _rep.NEW_PRIVATE = set()
    try:
        with open(os.path.join(os.path.dirname(os.path.dirname(os.path.abspath(__file__))),
                               "signatures.json")) as fh:
            _ip.REF_SIGNATURES = json.load(fh)
    except Exception:
        _ip.REF_SIGNATURES = {}
    try:
        with open(os.path.join(os.path.dirname(os.path.dirname(os.path.abspath(__file__))),
                               "raise_sites.json")) as fh:
            _ip.REF_RAISES = json.load(fh)
    except Exception:
        _ip.REF_RAISES = None
    # a host-vector layout whose index expressions were not decoded makes every column
    # classification a guess: nothing derived from it is a verdict
    # (only when a documented column family is left without an index attribute: an extra class
    # attribute with a non-linear value, assigned next to the indices, is not part of the layout)
    from .layout import lf_key
    have = {lf_key(f) for f in ctx.layout.forms.values()}
    missing = [fam for fam, (start, _) in ctx.layout.doc.items() if lf_key(start) not in have]
    undecoded = sorted(n for n, f in ctx.layout.forms.items()
                       if any(k.startswith("?") for k in f)) if missing else []
    if ctx.layout.failed:
        chk.blanket = f"the host-vector layout was not decoded ({ctx.layout.failed})"
    elif undecoded:
        chk.blanket = ("the host-vector layout was not decoded (index attribute(s) "
                       + ", ".join(undecoded[:4]) + " have an unrecognised form)")
    try:
        mod.run(ctx, chk)
    except AnalysisError as e:
        if getattr(chk, "blanket", None):
            chk.undecided("engine.layout", str(e)[:200], chk.blanket)
        elif private_anchor_missing(chk, e):
            pass
        elif _ip.OPAQUE:
            # a rule could not decode the shape it met, in a run that went through constructs the
            # engine has no model of: not a verdict, and not a broken analysis either
            q, what, loc, _ = _ip.OPAQUE[0]
            chk.undecided("engine.shape", str(e)[:300], f"the analysed code uses {what} (in {q} at "
                          f"{loc}); the remaining obligations of this check were not evaluated")
        else:
            raise
    except Exception as e:
        if not getattr(chk, "blanket", None):
            raise
        chk.undecided("engine.layout", f"{type(e).__name__}: {str(e)[:160]}", chk.blanket)
    return mod, ctx
