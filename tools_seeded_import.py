#!/venv/bin/python
"""Copies confirmed seeded candidates (verified by tools_seeded.py) into /verif/seeded/<id>/."""
import json, os, shutil, sys
HERE = os.path.dirname(os.path.abspath(__file__))
notes = json.load(open(sys.argv[1])) if len(sys.argv) > 1 and sys.argv[1].endswith(".json") else {}
for d in sys.argv[1:]:
    if d.endswith(".json"):
        continue
    rid = os.path.basename(d.rstrip("/"))
    r = json.load(open(os.path.join(d, "result.json")))
    if not r.get("verify", {}).get("confirmed"):
        print("skip (not confirmed)", rid)
        continue
    try:
        am = json.load(open(os.path.join(d, "meta.json")))
    except Exception:
        am = {}
    dst = os.path.join(HERE, "seeded", rid)
    os.makedirs(dst, exist_ok=True)
    shutil.copy(os.path.join(d, "patch.diff"), dst)
    shutil.copy(os.path.join(d, "demo.py"), dst)
    caught = sorted(p for p, x in r.get("checks", {}).items() if isinstance(x, dict) and x.get("rc") == 1)
    rules = {p: x["violations"][:2] for p, x in r.get("checks", {}).items()
             if isinstance(x, dict) and x.get("rc") == 1}
    meta = {
        "id": rid,
        "property": am.get("property", rid.split("_")[0]),
        "summary": am.get("summary", ""),
        "needs": am.get("needs", ""),
        "origin": "independent sub-agent given only the property text and a scratch worktree",
        "confirmed_by": {
            "worktree": "scratch git worktree of /repo under /tmp (removed afterwards)",
            "baseline": r["verify"].get("baseline"),
            "demo_exit_with_change": r["verify"].get("demo_with_change"),
            "demo_exit_without_change": r["verify"].get("demo_without_change"),
            "ran": "tools_seeded.py verify (git apply; tools_baseline.py; PYTHONPATH=<worktree> python demo.py; git checkout; demo again)",
        },
        "checks_run": "tools_seeded.py check: git -C /repo apply patch.diff; ./check C01..C19 --tier quick; git -C /repo checkout -- .",
        "caught_by": caught,
        "reports": rules,
        "history": notes.get(rid, ""),
    }
    json.dump(meta, open(os.path.join(dst, "meta.json"), "w"), indent=1)
    print("imported", rid, "caught by", caught)
