#!/venv/bin/python
"""Regenerates the table of section E.4 of DESIGN.md from seeded/*/meta.json (between the markers
`<!-- E4-TABLE-BEGIN -->` and `<!-- E4-TABLE-END -->`)."""
import glob, json, os, re
HERE = os.path.dirname(os.path.abspath(__file__))
rows = []
for p in sorted(glob.glob(os.path.join(HERE, "seeded", "*", "meta.json"))):
    m = json.load(open(p))
    def cell(x, n):
        x = re.sub(r"\s+", " ", str(x or "")).replace("|", "/")
        return x[:n]
    rows.append(f"| {m['id']} | {m['property']} | {cell(m.get('summary'), 150)} | "
                f"{cell(m.get('needs'), 120)} | {', '.join(m.get('caught_by', []))} | "
                f"{cell(m.get('history'), 400)} |")
table = "\n".join(["| id | breaks | change (one line) | needs, to manifest | caught by | history of the machinery |",
                   "|---|---|---|---|---|---|"] + rows)
p = os.path.join(HERE, "DESIGN.md")
s = open(p).read()
a, b = "<!-- E4-TABLE-BEGIN -->", "<!-- E4-TABLE-END -->"
if a in s:
    s = s[:s.index(a) + len(a)] + "\n" + table + "\n" + s[s.index(b):]
else:
    # first use: replace the existing table (the block of lines starting with "| id | breaks")
    i = s.index("| id | breaks | change (one line)")
    j = i
    lines = s[i:].split("\n")
    k = 0
    while k < len(lines) and lines[k].startswith("|"):
        k += 1
    j = i + len("\n".join(lines[:k]))
    s = s[:i] + a + "\n" + table + "\n" + b + s[j:]
open(p, "w").write(s)
print(len(rows), "rows")
