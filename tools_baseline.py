#!/venv/bin/python
"""Runs /repo's pinned suite (xdist) and compares the set of passing tests with
BASELINE.json's stable_pass.  Usage: tools_baseline.py [repo_dir]"""
import json, subprocess, sys, xml.etree.ElementTree as ET, os, tempfile
repo = sys.argv[1] if len(sys.argv) > 1 else "/repo"
base = json.load(open("/root/.vp/BASELINE.json"))
want = set(base["stable_pass"])
out = tempfile.mktemp(suffix=".xml")
subprocess.run(["/venv/bin/python", "-m", "pytest", "-q", "-p", "no:cacheprovider", "-n", "16",
                "--timeout=900", "--continue-on-collection-errors", f"--junitxml={out}"],
               cwd=repo, stdout=subprocess.DEVNULL, stderr=subprocess.DEVNULL)
passed = set()
for tc in ET.parse(out).getroot().iter("testcase"):
    if not any(ch.tag in ("failure", "error", "skipped") for ch in tc):
        passed.add(f"{tc.get('classname')}::{tc.get('name')}")
os.remove(out)
missing = sorted(want - passed)
print(f"baseline stable_pass={len(want)} passed_now={len(passed)} missing={len(missing)} newly_passing={len(passed - want)}")
for m in missing[:20]:
    print("  MISSING", m)
sys.exit(1 if missing else 0)
