#!/venv/bin/python
"""Regenerates MANIFEST.json from the table below (single source of truth)."""
import json, os
HERE = os.path.dirname(os.path.abspath(__file__))
PY = "/venv/bin/python"

CHECKS = {}   # pid -> dict(text, note, technique, design_ref)
NOT_APPLICABLE = {}

def claim(pid, technique, text, note, ref):
    CHECKS[pid] = dict(technique=technique, text=text, note=note, ref=ref)

exec(open(os.path.join(HERE, "manifest_table.py")).read())

m = {
 "version": 1,
 "setup_cmd": f"{PY} check C09 --tier quick >/dev/null; {PY} -c \"import ast, yaml, networkx; print('ok')\"",
 "hooks": {"guard": "NASIM_VERIF", "enable": "none needed: the checks never execute /repo (static analysis); the guard variable is unused",
           "baseline_off_cmd": "cd /repo && /venv/bin/python -m pytest -ra -q -p no:cacheprovider --timeout=900 --continue-on-collection-errors",
           "source_commits": [], "add_only": True},
 "engines": [{"name": "sa", "path": "sa/", "serves_properties": sorted(CHECKS),
              "kind_free_text": "repository-specific static analysis: AST program model, 0-CFA receiver types, abstract interpretation of the structured code into terms with syntax-directed path conditions, per-action-class partial evaluation (gate table), column-family/write-effect classification, truth-table comparison of derived vs. required conditions"}],
 "checks": [],
 "notes": "All checks are static analysis of /repo's current working tree (nothing from nasim is imported or run). Exit 2 + ANALYSIS-ERROR = the analysis could not run (anchor vanished), never a verdict.",
 "not_applicable": [{"property_id": k, "reason": v} for k, v in sorted(NOT_APPLICABLE.items())],
}
for pid in sorted(CHECKS):
    c = CHECKS[pid]
    m["checks"].append({
        "property_id": pid,
        "quick_cmd": f"{PY} check {pid} --tier quick",
        "thorough_cmd": f"{PY} check {pid} --tier thorough",
        "evidence_file": f"evidence/{pid}.json",
        "replay_cmd_template": f"{PY} check {pid} --replay {{path}}",
        "engine": "sa",
        "level_claimed": {"category": "other", "text": c["text"], "design_ref": c["ref"]},
        "level_note": c["note"],
        "technique": c["technique"],
    })
json.dump(m, open(os.path.join(HERE, "MANIFEST.json"), "w"), indent=1)
print("MANIFEST.json written:", len(m["checks"]), "checks,", len(m["not_applicable"]), "not applicable")
