"""In-memory mutation of /repo sources (no scratch copies on disk): a mutant is a
list of (relpath, old_text, new_text) edits applied to the freshly read source; it
must still compile; the analysis is run on Repo(overrides=...)."""
import importlib
import os
import sys

HERE = os.path.dirname(os.path.dirname(os.path.abspath(__file__)))
sys.path.insert(0, HERE)

from sa.model import REPO, AnalysisError      # noqa: E402
from sa.report import Checker                 # noqa: E402


def build_overrides(edits, root=None):
    root = root or REPO
    ov = {}
    for rel, old, new in edits:
        src = ov.get(rel)
        if src is None:
            with open(os.path.join(root, rel), encoding="utf-8") as fh:
                src = fh.read()
        if old not in src:
            return None           # construct absent on this tree: mutant skipped
        src = src.replace(old, new, 1)
        compile(src, rel, "exec")  # must still be valid Python
        ov[rel] = src
    return ov


def overrides_from_patch(patch_path, root=None):
    """apply a stored unified diff to temporary copies of the files it touches (outside /repo and
    /verif) and return them as in-memory overrides; None if it does not apply on this tree"""
    import re
    import shutil
    import subprocess
    import tempfile
    root = root or REPO
    with open(patch_path) as fh:
        txt = fh.read()
    files = sorted(set(re.findall(r"^\+\+\+ b/(\S+)", txt, flags=re.M)))
    tmp = tempfile.mkdtemp(prefix="nasim_seed_")
    try:
        for rel in files:
            src = os.path.join(root, rel)
            if not os.path.exists(src):
                return None
            os.makedirs(os.path.dirname(os.path.join(tmp, rel)), exist_ok=True)
            shutil.copy(src, os.path.join(tmp, rel))
        r = subprocess.run(["patch", "-p1", "-s", "-f", "-d", tmp, "-i", patch_path],
                           capture_output=True, text=True)
        if r.returncode != 0:
            return None
        ov = {}
        for rel in files:
            with open(os.path.join(tmp, rel), encoding="utf-8") as fh:
                ov[rel] = fh.read()
            compile(ov[rel], rel, "exec")
        return ov
    finally:
        shutil.rmtree(tmp, ignore_errors=True)


def run_rules(pid, overrides):
    """returns (status, checker): status in ok|violation|error"""
    from sa.driver import execute
    chk = Checker(pid, quiet=True)
    try:
        execute(pid, chk, overrides)
        rc = chk.finish(write=False)
    except AnalysisError as e:
        chk.error = str(e)
        return "error", chk
    return ("violation" if rc else "ok"), chk


def violations(chk):
    return [o for o in chk.obligations if o["status"] == "violation"]
