"""In-memory mutation of /repo sources (no scratch copies on disk): a mutant is a
list of (relpath, old_text, new_text) edits applied to the freshly read source; it
must still compile; the analysis is run on Repo(overrides=...)."""
import importlib
import os
import sys

HERE = os.path.dirname(os.path.dirname(os.path.abspath(__file__)))
sys.path.insert(0, HERE)

from sa.model import REPO, AnalysisError      # noqa: E402
from sa.report import Checker                 # noqa: E402


def build_overrides(edits, root=None):
    root = root or REPO
    ov = {}
    for rel, old, new in edits:
        src = ov.get(rel)
        if src is None:
            with open(os.path.join(root, rel), encoding="utf-8") as fh:
                src = fh.read()
        if old not in src:
            return None           # construct absent on this tree: mutant skipped
        src = src.replace(old, new, 1)
        compile(src, rel, "exec")  # must still be valid Python
        ov[rel] = src
    return ov


def run_rules(pid, overrides):
    """returns (status, checker): status in ok|violation|error"""
    from sa.ctx import Ctx
    mod = importlib.import_module(f"rules.{pid.lower()}")
    chk = Checker(pid, quiet=True)
    try:
        ctx = Ctx(overrides=overrides)
        mod.run(ctx, chk)
        rc = chk.finish(write=False)
    except AnalysisError as e:
        chk.error = str(e)
        return "error", chk
    return ("violation" if rc else "ok"), chk


def violations(chk):
    return [o for o in chk.obligations if o["status"] == "violation"]
