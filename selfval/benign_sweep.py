"""Benign sweep of the *checker*: systematic behaviour-preserving AST rewrites of the library
(alpha-renaming of the locals of one function at a time, flipping an if/else with its condition
negated, swapping the operands of == / != and turning a < b into b > a, De Morgan on `not (a and b)`)
are analysed in memory by the checks whose scope contains the file.  Every report is a false alarm
of the machinery and is listed for triage.  Exploration tooling, like selfval/sweep.py.

  python -m selfval.benign_sweep <out.json> [max_variants_per_file]
"""
import ast
import copy
import json
import multiprocessing as mp
import os
import random
import sys

HERE = os.path.dirname(os.path.dirname(os.path.abspath(__file__)))
sys.path.insert(0, HERE)
sys.setrecursionlimit(10000)

from sa.model import REPO                       # noqa: E402
from selfval.sweep import FILES                 # noqa: E402


def _functions(tree):
    for top in tree.body:
        if isinstance(top, ast.FunctionDef):
            yield top.name, top, None
        elif isinstance(top, ast.ClassDef):
            for m in top.body:
                if isinstance(m, ast.FunctionDef):
                    yield f"{top.name}.{m.name}", m, top


def _keyword_names(trees):
    out = set()
    for t in trees:
        for n in ast.walk(t):
            if isinstance(n, ast.Call):
                out |= {k.arg for k in n.keywords if k.arg}
    return out


def variants_of(rel, all_trees, limit, rng):
    src = open(os.path.join(REPO, rel)).read()
    tree = ast.parse(src)
    kw = _keyword_names(all_trees)
    out = []
    # ---- alpha renaming, one function at a time
    for qual, fn, cls in _functions(tree):
        if fn.name.startswith("__") and fn.name != "__init__":
            continue
        stored = {n.id for n in ast.walk(fn) if isinstance(n, ast.Name)
                  and isinstance(n.ctx, ast.Store)}
        for n in ast.walk(fn):
            if isinstance(n, (ast.Global, ast.Nonlocal)):
                stored -= set(n.names)
        params = [a.arg for a in fn.args.posonlyargs + fn.args.args + fn.args.kwonlyargs]
        private = fn.name.startswith("_") and not fn.name.startswith("__")
        ren = set(stored) - set(params)      # a re-assigned parameter is still part of the signature
        if private:
            # parameters of private helpers, unless some call site passes one by keyword
            ren |= {p for p in params[1 if cls is not None else 0:] if p not in kw}
        ren -= {"self", "cls"}
        # names captured by nested functions / comprehensions are renamed consistently anyway
        if not ren:
            continue
        t2 = copy.deepcopy(tree)
        for q2, f2, _ in _functions(t2):
            if q2 != qual:
                continue
            for n in ast.walk(f2):
                if isinstance(n, ast.Name) and n.id in ren:
                    n.id = n.id + "_rn"
                elif isinstance(n, ast.arg) and n.arg in ren:
                    n.arg = n.arg + "_rn"
        out.append({"file": rel, "func": qual, "kind": "rename-locals",
                    "desc": f"rename {len(ren)} local name(s) of {qual}", "tree": t2})
    # ---- expression / statement level rewrites (sampled)
    sites = []
    for qual, fn, cls in _functions(tree):
        for n in ast.walk(fn):
            if isinstance(n, ast.If) and n.orelse and not (
                    len(n.orelse) == 1 and isinstance(n.orelse[0], ast.If)):
                sites.append((qual, n, "flip-if"))
            if isinstance(n, ast.Compare) and len(n.ops) == 1:
                if isinstance(n.ops[0], (ast.Eq, ast.NotEq)):
                    sites.append((qual, n, "swap-eq"))
                if isinstance(n.ops[0], (ast.Lt, ast.Gt, ast.LtE, ast.GtE)):
                    sites.append((qual, n, "mirror-cmp"))
            if isinstance(n, ast.UnaryOp) and isinstance(n.op, ast.Not) \
                    and isinstance(n.operand, ast.BoolOp):
                sites.append((qual, n, "demorgan"))
    rng.shuffle(sites)
    for qual, node, kind in sites[:limit]:
        t2 = copy.deepcopy(tree)
        key = (node.lineno, node.col_offset, getattr(node, "end_col_offset", 0), type(node).__name__)
        tgt = None
        for n in ast.walk(t2):
            if (getattr(n, "lineno", 0), getattr(n, "col_offset", 0),
                    getattr(n, "end_col_offset", 0), type(n).__name__) == key:
                tgt = n
                break
        if tgt is None:
            continue
        before = ast.unparse(tgt)[:60].replace("\n", " ")
        if kind == "flip-if":
            tgt.test = ast.UnaryOp(op=ast.Not(), operand=tgt.test)
            tgt.body, tgt.orelse = tgt.orelse, tgt.body
        elif kind == "swap-eq":
            tgt.left, tgt.comparators = tgt.comparators[0], [tgt.left]
        elif kind == "mirror-cmp":
            mir = {ast.Lt: ast.Gt, ast.Gt: ast.Lt, ast.LtE: ast.GtE, ast.GtE: ast.LtE}
            tgt.left, tgt.comparators = tgt.comparators[0], [tgt.left]
            tgt.ops = [mir[type(tgt.ops[0])]()]
        elif kind == "demorgan":
            bo = tgt.operand
            new = ast.BoolOp(op=ast.Or() if isinstance(bo.op, ast.And) else ast.And(),
                             values=[ast.UnaryOp(op=ast.Not(), operand=v) for v in bo.values])
            tgt.__class__ = ast.BoolOp
            tgt.__dict__.clear()
            tgt.op, tgt.values = new.op, new.values
        out.append({"file": rel, "func": qual, "kind": kind, "desc": f"{kind}: `{before}`",
                    "tree": t2})
    res = []
    for v in out:
        try:
            ast.fix_missing_locations(v["tree"])
            new_src = ast.unparse(v["tree"])
            compile(new_src, rel, "exec")
        except Exception:
            continue
        v = {k: x for k, x in v.items() if k != "tree"}
        v["src"] = new_src
        res.append(v)
    return res


def _job(args):
    v, pids = args
    from selfval.mut import run_rules, violations
    res = {}
    for pid in pids:
        try:
            st, chk = run_rules(pid, {v["file"]: v["src"]})
        except Exception as e:
            res[pid] = f"crash:{type(e).__name__}: {str(e)[:80]}"
            continue
        if st == "error":
            res[pid] = "error:" + getattr(chk, "error", "")[:100]
        elif violations(chk):
            x = violations(chk)[0]
            res[pid] = f"reported:{x['rule']}: {x['construct'][:100]}"
    return {k: x for k, x in v.items() if k != "src"}, res


def main():
    out = sys.argv[1]
    limit = int(sys.argv[2]) if len(sys.argv) > 2 else 40
    rng = random.Random(0)
    trees = [ast.parse(open(os.path.join(REPO, f)).read()) for f in FILES]
    jobs = []
    for rel in FILES:
        vs = variants_of(rel, trees, limit, rng)
        print(rel, len(vs), "variants", flush=True)
        jobs += [(v, FILES[rel]) for v in vs]
    with mp.Pool(16) as pool:
        results = pool.map(_job, jobs, chunksize=2)
    alarms = [{"variant": v, "checks": r} for v, r in results if r]
    json.dump({"total": len(results), "alarms": alarms}, open(out, "w"), indent=1)
    print(f"total {len(results)} variants, {len(alarms)} with a report / error")
    for a in alarms[:60]:
        print(" ", a["variant"]["file"].split("/")[-1], a["variant"]["func"], "|",
              a["variant"]["desc"][:70], "=>", {k: x[:90] for k, x in a["checks"].items()})


if __name__ == "__main__":
    main()
