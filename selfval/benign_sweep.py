"""Benign sweep of the *checker*: systematic behaviour-preserving AST rewrites of the library
(alpha-renaming of the locals of one function at a time, flipping an if/else with its condition
negated, swapping the operands of == / != and turning a < b into b > a, De Morgan on `not (a and b)`)
are analysed in memory by the checks whose scope contains the file.  Every report is a false alarm
of the machinery and is listed for triage.  Exploration tooling, like selfval/sweep.py.

  python -m selfval.benign_sweep <out.json> [max_variants_per_file]
"""
import ast
import copy
import json
import multiprocessing as mp
import os
import random
import sys

HERE = os.path.dirname(os.path.dirname(os.path.abspath(__file__)))
sys.path.insert(0, HERE)
sys.setrecursionlimit(10000)

from sa.model import REPO                       # noqa: E402
from selfval.sweep import FILES                 # noqa: E402


def _functions(tree):
    for top in tree.body:
        if isinstance(top, ast.FunctionDef):
            yield top.name, top, None
        elif isinstance(top, ast.ClassDef):
            for m in top.body:
                if isinstance(m, ast.FunctionDef):
                    yield f"{top.name}.{m.name}", m, top


def _keyword_names(trees):
    out = set()
    for t in trees:
        for n in ast.walk(t):
            if isinstance(n, ast.Call):
                out |= {k.arg for k in n.keywords if k.arg}
    return out


def variants_of(rel, all_trees, limit, rng):
    src = open(os.path.join(REPO, rel)).read()
    tree = ast.parse(src)
    kw = _keyword_names(all_trees)
    out = []
    # ---- alpha renaming, one function at a time
    for qual, fn, cls in _functions(tree):
        if fn.name.startswith("__") and fn.name != "__init__":
            continue
        stored = {n.id for n in ast.walk(fn) if isinstance(n, ast.Name)
                  and isinstance(n.ctx, ast.Store)}
        for n in ast.walk(fn):
            if isinstance(n, (ast.Global, ast.Nonlocal)):
                stored -= set(n.names)
        params = [a.arg for a in fn.args.posonlyargs + fn.args.args + fn.args.kwonlyargs]
        private = fn.name.startswith("_") and not fn.name.startswith("__")
        ren = set(stored) - set(params)      # a re-assigned parameter is still part of the signature
        if private:
            # parameters of private helpers, unless some call site passes one by keyword
            ren |= {p for p in params[1 if cls is not None else 0:] if p not in kw}
        ren -= {"self", "cls"}
        # names captured by nested functions / comprehensions are renamed consistently anyway
        if not ren:
            continue
        t2 = copy.deepcopy(tree)
        for q2, f2, _ in _functions(t2):
            if q2 != qual:
                continue
            for n in ast.walk(f2):
                if isinstance(n, ast.Name) and n.id in ren:
                    n.id = n.id + "_rn"
                elif isinstance(n, ast.arg) and n.arg in ren:
                    n.arg = n.arg + "_rn"
        out.append({"file": rel, "func": qual, "kind": "rename-locals",
                    "desc": f"rename {len(ren)} local name(s) of {qual}", "tree": t2})
    # ---- expression / statement level rewrites (sampled)
    sites = []
    methods_by_name = {}
    for t in all_trees:
        for q_, f_, c_ in _functions(t):
            if c_ is not None:
                methods_by_name.setdefault(f_.name, []).append(f_)
    methods_by_name = {k: v[0] for k, v in methods_by_name.items() if len(v) == 1
                       and not v[0].args.vararg and not v[0].args.kwarg}
    for qual, fn, cls in _functions(tree):
        for n in ast.walk(fn):
            if isinstance(n, ast.If) and n.orelse and not (
                    len(n.orelse) == 1 and isinstance(n.orelse[0], ast.If)):
                sites.append((qual, n, "flip-if"))
            if isinstance(n, ast.Compare) and len(n.ops) == 1:
                if isinstance(n.ops[0], (ast.Eq, ast.NotEq)):
                    sites.append((qual, n, "swap-eq"))
                if isinstance(n.ops[0], (ast.Lt, ast.Gt, ast.LtE, ast.GtE)):
                    sites.append((qual, n, "mirror-cmp"))
            if isinstance(n, ast.UnaryOp) and isinstance(n.op, ast.Not) \
                    and isinstance(n.operand, ast.BoolOp):
                sites.append((qual, n, "demorgan"))
            if isinstance(n, ast.If) and n.orelse and n.body and isinstance(
                    n.body[-1], (ast.Return, ast.Continue, ast.Raise, ast.Break)):
                sites.append((qual, n, "unnest-else"))
            if isinstance(n, ast.AugAssign) and isinstance(n.target, ast.Name) \
                    and isinstance(n.op, (ast.Add, ast.Sub)) \
                    and isinstance(n.value, ast.Constant) and isinstance(n.value.value, int):
                sites.append((qual, n, "expand-augassign"))
            if isinstance(n, ast.Call) and isinstance(n.func, ast.Attribute) \
                    and isinstance(n.func.value, ast.Name) and n.func.value.id in ("self", "cls") \
                    and n.func.attr.startswith("_") and not n.func.attr.startswith("__") \
                    and n.args and not any(isinstance(a, ast.Starred) for a in n.args) \
                    and n.func.attr in methods_by_name:
                sites.append((qual, n, "keyword-args"))
    rng.shuffle(sites)
    for qual, node, kind in sites[:limit]:
        t2 = copy.deepcopy(tree)
        key = (node.lineno, node.col_offset, getattr(node, "end_col_offset", 0), type(node).__name__)
        tgt = None
        for n in ast.walk(t2):
            if (getattr(n, "lineno", 0), getattr(n, "col_offset", 0),
                    getattr(n, "end_col_offset", 0), type(n).__name__) == key:
                tgt = n
                break
        if tgt is None:
            continue
        before = ast.unparse(tgt)[:60].replace("\n", " ")
        if kind == "flip-if":
            tgt.test = ast.UnaryOp(op=ast.Not(), operand=tgt.test)
            tgt.body, tgt.orelse = tgt.orelse, tgt.body
        elif kind == "swap-eq":
            tgt.left, tgt.comparators = tgt.comparators[0], [tgt.left]
        elif kind == "mirror-cmp":
            mir = {ast.Lt: ast.Gt, ast.Gt: ast.Lt, ast.LtE: ast.GtE, ast.GtE: ast.LtE}
            tgt.left, tgt.comparators = tgt.comparators[0], [tgt.left]
            tgt.ops = [mir[type(tgt.ops[0])]()]
        elif kind == "unnest-else":
            # if c: ...; return  else: B   ==>   if c: ...; return ; B   (in the parent body)
            done = False
            for par in ast.walk(t2):
                for fld in ("body", "orelse", "finalbody"):
                    lst = getattr(par, fld, None)
                    if isinstance(lst, list) and tgt in lst:
                        i = lst.index(tgt)
                        tail, tgt.orelse = tgt.orelse, []
                        lst[i + 1:i + 1] = tail
                        done = True
                        break
                if done:
                    break
            if not done:
                continue
        elif kind == "expand-augassign":
            new = ast.Assign(targets=[ast.Name(id=tgt.target.id, ctx=ast.Store())],
                             value=ast.BinOp(left=ast.Name(id=tgt.target.id, ctx=ast.Load()),
                                             op=tgt.op, right=tgt.value), type_comment=None)
            tgt.__class__ = ast.Assign
            tgt.__dict__.clear()
            tgt.__dict__.update(new.__dict__)
        elif kind == "keyword-args":
            callee = methods_by_name[tgt.func.attr]
            ps = [a.arg for a in callee.args.posonlyargs + callee.args.args][1:]
            if len(tgt.args) > len(ps) or callee.args.posonlyargs:
                continue
            keep = len(tgt.args) // 2
            moved = tgt.args[keep:]
            tgt.args = tgt.args[:keep]
            tgt.keywords = [ast.keyword(arg=ps[keep + i], value=a) for i, a in enumerate(moved)] \
                + tgt.keywords
        elif kind == "demorgan":
            bo = tgt.operand
            new = ast.BoolOp(op=ast.Or() if isinstance(bo.op, ast.And) else ast.And(),
                             values=[ast.UnaryOp(op=ast.Not(), operand=v) for v in bo.values])
            tgt.__class__ = ast.BoolOp
            tgt.__dict__.clear()
            tgt.op, tgt.values = new.op, new.values
        out.append({"file": rel, "func": qual, "kind": kind, "desc": f"{kind}: `{before}`",
                    "tree": t2})
    res = []
    for v in out:
        try:
            ast.fix_missing_locations(v["tree"])
            new_src = ast.unparse(v["tree"])
            compile(new_src, rel, "exec")
        except Exception:
            continue
        v = {k: x for k, x in v.items() if k != "tree"}
        v["src"] = new_src
        res.append(v)
    return res


def private_renames(all_srcs):
    """one variant per private identifier (method, function, attribute: `_x`, not dunder) defined
    in the library: renamed at every occurrence in every file (identifier-level)"""
    import re
    names = set()
    for rel, src in all_srcs.items():
        for n in ast.walk(ast.parse(src)):
            if isinstance(n, ast.FunctionDef) and n.name.startswith("_") \
                    and not n.name.startswith("__"):
                names.add(n.name)
            if isinstance(n, ast.Attribute) and isinstance(n.ctx, ast.Store) \
                    and n.attr.startswith("_") and not n.attr.startswith("__"):
                names.add(n.attr)
    out = []
    for name in sorted(names):
        pat = re.compile(r"(?<![A-Za-z0-9_])" + re.escape(name) + r"(?![A-Za-z0-9_])")
        ov = {rel: pat.sub(name + "_rn", src) for rel, src in all_srcs.items() if pat.search(src)}
        ok = True
        for rel, src in ov.items():
            try:
                compile(src, rel, "exec")
            except Exception:
                ok = False
        if ok and ov:
            out.append({"file": sorted(ov)[0], "func": name, "kind": "rename-private",
                        "desc": f"rename private identifier {name} in {len(ov)} file(s)",
                        "overrides": ov})
    return out


def _job(args):
    v, pids = args
    from selfval.mut import run_rules, violations
    res = {}
    for pid in pids:
        try:
            st, chk = run_rules(pid, v.get("overrides") or {v["file"]: v["src"]})
        except Exception as e:
            res[pid] = f"crash:{type(e).__name__}: {str(e)[:80]}"
            continue
        if st == "error":
            res[pid] = "error:" + getattr(chk, "error", "")[:100]
        elif violations(chk):
            x = violations(chk)[0]
            res[pid] = f"reported:{x['rule']}: {x['construct'][:100]}"
    return {k: x for k, x in v.items() if k not in ("src", "overrides")}, res


def main():
    out = sys.argv[1]
    limit = int(sys.argv[2]) if len(sys.argv) > 2 else 40
    rng = random.Random(0)
    trees = [ast.parse(open(os.path.join(REPO, f)).read()) for f in FILES]
    jobs = []
    for rel in FILES:
        vs = variants_of(rel, trees, limit, rng)
        print(rel, len(vs), "variants", flush=True)
        jobs += [(v, FILES[rel]) for v in vs]
    import glob
    srcs = {os.path.relpath(p_, REPO): open(p_).read()
            for p_ in glob.glob(os.path.join(REPO, "nasim", "**", "*.py"), recursive=True)}
    from selfval.run import ALL
    pr = private_renames({r: s_ for r, s_ in srcs.items() if r in FILES})
    # occurrences outside the analysed files are renamed too
    for v in pr:
        import re
        name = v["func"]
        pat = re.compile(r"(?<![A-Za-z0-9_])" + re.escape(name) + r"(?![A-Za-z0-9_])")
        for r, s_ in srcs.items():
            if r not in v["overrides"] and pat.search(s_):
                v["overrides"][r] = pat.sub(name + "_rn", s_)
    print(len(pr), "private-identifier renames", flush=True)
    jobs += [(v, ALL) for v in pr]
    with mp.Pool(16) as pool:
        results = pool.map(_job, jobs, chunksize=2)
    alarms = [{"variant": v, "checks": r} for v, r in results if r]
    json.dump({"total": len(results), "alarms": alarms}, open(out, "w"), indent=1)
    print(f"total {len(results)} variants, {len(alarms)} with a report / error")
    for a in alarms[:60]:
        print(" ", a["variant"]["file"].split("/")[-1], a["variant"]["func"], "|",
              a["variant"]["desc"][:70], "=>", {k: x[:90] for k, x in a["checks"].items()})


if __name__ == "__main__":
    main()
