"""Mutation sweep of the *checker*: systematic single-point AST mutants of the library code
(comparison flips, and/or swaps, dropped operands, negation removal, small-constant tweaks,
argument swaps, statement deletion) are analysed in memory by the relevant checks.  Survivors
(mutants no check reports) are written to a file for triage: each is either an equivalent /
out-of-scope mutant or a blind spot of a rule.  This is exploration tooling for building the
rules, not a verdict on the repository.

  python -m selfval.sweep <out.json> [file ...]
"""
import ast
import copy
import json
import multiprocessing as mp
import os
import sys

HERE = os.path.dirname(os.path.dirname(os.path.abspath(__file__)))
sys.path.insert(0, HERE)
sys.setrecursionlimit(10000)

from sa.model import REPO     # noqa: E402

from selfval.run import SCOPE as _SCOPE      # noqa: E402
FILES = dict(_SCOPE)
FILES["nasim/scenarios/host.py"] = ["C02", "C09", "C15", "C16", "C17"]
FILES["nasim/scenarios/__init__.py"] = ["C14", "C19"]
SKIP_FUNCS = {"__str__", "__repr__", "__hash__", "__eq__", "display", "get_description",
              "get_state_space_size", "render", "render_obs", "render_state", "render_action",
              "render_episode", "render_network_graph", "readable", "get_readable",
              "vectorize_random", "generate_random_initial_state", "get_minimum_hops",
              "get_score_upper_bound", "get_minimal_hops", "get_subnet_depths",
              "get_total_sensitive_host_value", "get_total_discovery_value", "close",
              "get_scenario_max", "get_file_name", "load_yaml", "get_number_of_subnets",
              "get_sensitive_hosts", "is_sensitive_host", "get_host_value", "get_total_host_value",
              "state_size", "host_is_running_service", "host_is_running_os", "from_state_and_action"}
FLIP = {ast.Lt: ast.LtE, ast.LtE: ast.Lt, ast.Gt: ast.GtE, ast.GtE: ast.Gt, ast.Eq: ast.NotEq,
        ast.NotEq: ast.Eq, ast.In: ast.NotIn, ast.NotIn: ast.In, ast.Is: ast.IsNot,
        ast.IsNot: ast.Is}


def mutants_of(rel):
    with open(os.path.join(REPO, rel)) as fh:
        src = fh.read()
    tree = ast.parse(src)
    sites = []

    def visit(fn_name, node):
        for n in ast.walk(node):
            if isinstance(n, ast.Compare):
                for i, op in enumerate(n.ops):
                    if type(op) in FLIP:
                        sites.append((fn_name, n, "cmp", i))
            elif isinstance(n, ast.BoolOp):
                sites.append((fn_name, n, "boolswap", None))
                for i in range(len(n.values)):
                    sites.append((fn_name, n, "booldrop", i))
            elif isinstance(n, ast.UnaryOp) and isinstance(n.op, ast.Not):
                sites.append((fn_name, n, "notdrop", None))
            elif isinstance(n, ast.Constant) and isinstance(n.value, bool):
                sites.append((fn_name, n, "boolconst", None))
            elif isinstance(n, ast.Constant) and isinstance(n.value, int) \
                    and not isinstance(n.value, bool) and -3 <= n.value <= 6:
                sites.append((fn_name, n, "intconst", +1))
                sites.append((fn_name, n, "intconst", -1))
            elif isinstance(n, ast.Call) and len(n.args) >= 2 and not n.keywords \
                    and all(isinstance(a, (ast.Name, ast.Attribute, ast.Subscript))
                            for a in n.args[:2]):
                sites.append((fn_name, n, "argswap", None))
            elif isinstance(n, ast.BinOp) and isinstance(n.op, (ast.Add, ast.Sub)):
                sites.append((fn_name, n, "addsub", None))
        for n in ast.walk(node):
            for fld in ("body", "orelse"):
                blk = getattr(n, fld, None)
                if isinstance(blk, list) and n is not node or fld == "body":
                    if not isinstance(blk, list):
                        continue
                    for i, st in enumerate(blk):
                        if isinstance(st, (ast.Assign, ast.AugAssign, ast.Expr, ast.Continue,
                                           ast.Return, ast.Assert)) and not (
                                isinstance(st, ast.Expr) and isinstance(st.value, ast.Constant)):
                            sites.append((fn_name, (n, fld, i), "delstmt", None))
    for top in tree.body:
        if isinstance(top, ast.FunctionDef) and top.name not in SKIP_FUNCS:
            visit(top.name, top)
        elif isinstance(top, ast.ClassDef):
            for m in top.body:
                if isinstance(m, ast.FunctionDef) and m.name not in SKIP_FUNCS:
                    visit(f"{top.name}.{m.name}", m)
    out = []
    seen = set()
    for k, (fn, node, kind, arg) in enumerate(sites):
        t2 = copy.deepcopy(tree)
        # locate the same node in the copy by position in ast.walk order
        if kind == "delstmt":
            parent, fld, i = node
            key = (getattr(parent, "lineno", 0), getattr(parent, "col_offset", 0),
                   type(parent).__name__)
            tgt = None
            for n in ast.walk(t2):
                if (getattr(n, "lineno", 0), getattr(n, "col_offset", 0),
                        type(n).__name__) == key:
                    tgt = n
                    break
            if tgt is None:
                continue
            blk = getattr(tgt, fld)
            if i >= len(blk):
                continue
            desc = f"delete `{ast.unparse(blk[i])[:70]}`"
            line = blk[i].lineno
            blk[i] = ast.copy_location(ast.Pass(), blk[i])
        else:
            key = (node.lineno, node.col_offset, getattr(node, "end_col_offset", 0),
                   type(node).__name__)
            tgt = None
            for n in ast.walk(t2):
                if (getattr(n, "lineno", 0), getattr(n, "col_offset", 0),
                        getattr(n, "end_col_offset", 0), type(n).__name__) == key:
                    tgt = n
                    break
            if tgt is None:
                continue
            line = node.lineno
            before = ast.unparse(tgt)[:70]
            if kind == "cmp":
                tgt.ops[arg] = FLIP[type(tgt.ops[arg])]()
            elif kind == "boolswap":
                tgt.op = ast.Or() if isinstance(tgt.op, ast.And) else ast.And()
            elif kind == "booldrop":
                if len(tgt.values) <= 1:
                    continue
                del tgt.values[arg]
                if len(tgt.values) == 1:
                    # replace BoolOp by its only operand: done through a Not(Not(x)) free rewrite
                    tgt.values.append(ast.Constant(value=isinstance(tgt.op, ast.And)))
            elif kind == "notdrop":
                tgt.op = ast.UAdd() if False else tgt.op
                # `not x` -> `bool(x)`
                new = ast.Call(func=ast.Name(id="bool", ctx=ast.Load()), args=[tgt.operand],
                               keywords=[])
                for f2, v in ast.iter_fields(tgt):
                    pass
                tgt.__class__ = ast.Call
                tgt.func, tgt.args, tgt.keywords = new.func, new.args, []
            elif kind == "boolconst":
                tgt.value = not tgt.value
            elif kind == "intconst":
                tgt.value = tgt.value + arg
            elif kind == "argswap":
                tgt.args[0], tgt.args[1] = tgt.args[1], tgt.args[0]
            elif kind == "addsub":
                tgt.op = ast.Sub() if isinstance(tgt.op, ast.Add) else ast.Add()
            desc = f"{kind}: `{before}` -> `{ast.unparse(tgt)[:70]}`"
        try:
            ast.fix_missing_locations(t2)
            new_src = ast.unparse(t2)
            compile(new_src, rel, "exec")
        except Exception:
            continue
        h = hash(new_src)
        if h in seen:
            continue
        seen.add(h)
        out.append({"file": rel, "func": fn, "line": line, "desc": desc, "src": new_src})
    return out


def _job(args):
    m, pids = args
    from selfval.mut import run_rules, violations
    res = {}
    for pid in pids:
        try:
            st, chk = run_rules(pid, {m["file"]: m["src"]})
        except Exception as e:
            res[pid] = f"crash:{type(e).__name__}"
            continue
        if st == "error":
            res[pid] = "error:" + getattr(chk, "error", "")[:80]
        elif violations(chk):
            v = violations(chk)[0]
            res[pid] = f"reported:{v['rule']}"
        else:
            nd = [o for o in chk.obligations if o["status"] == "undecided"
                  and str(o["detail"]).startswith("NOT DECIDED")]
            res[pid] = ("downgraded:" + nd[0]["rule"] + ": " + nd[0]["detail"][:160]) if nd \
                else "silent"
    return {k: v for k, v in m.items() if k != "src"}, res


def main():
    out = sys.argv[1]
    files = sys.argv[2:] or list(FILES)
    jobs = []
    for rel in files:
        ms = mutants_of(rel)
        print(rel, len(ms), "mutants", flush=True)
        for m in ms:
            jobs.append((m, FILES[rel]))
    with mp.Pool(16) as pool:
        results = pool.map(_job, jobs, chunksize=2)
    surv = []
    rep = 0
    for m, res in results:
        if any(v.startswith("reported") for v in res.values()):
            rep += 1
        else:
            surv.append({"mutant": m, "checks": res})
    json.dump({"total": len(results), "reported": rep, "survivors": surv}, open(out, "w"), indent=1)
    print(f"total {len(results)} reported {rep} survivors {len(surv)}")


if __name__ == "__main__":
    main()
