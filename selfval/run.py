"""Self-validation runner: every seeded mutant must be reported by the checks it is listed for,
no benign variant may be reported by any check.  Used by `check selftest` and by the thorough tier
of each check (restricted to that property)."""
import multiprocessing as mp
import os
import random
import sys
import time

HERE = os.path.dirname(os.path.dirname(os.path.abspath(__file__)))
sys.path.insert(0, HERE)
sys.setrecursionlimit(10000)

ALL = ["C01", "C02", "C03", "C04", "C05", "C06", "C07", "C08", "C09", "C10", "C11", "C12", "C13",
       "C14", "C15", "C16", "C17", "C18", "C19"]


def _job(args):
    kind, name, edits, pid = args
    from selfval.mut import build_overrides, run_rules, violations, overrides_from_patch
    try:
        ov = overrides_from_patch(edits) if isinstance(edits, str) else build_overrides(edits)
    except SyntaxError as e:
        return (kind, name, pid, "invalid", f"mutant does not compile: {e}")
    if ov is None:
        return (kind, name, pid, "skipped", "anchor text absent on this tree")
    try:
        st, chk = run_rules(pid, ov)
    except Exception as e:   # checker crash on a mutant = miss, reported
        return (kind, name, pid, "crash", f"{type(e).__name__}: {e}")
    v = violations(chk)
    if st == "error":
        return (kind, name, pid, "error", getattr(chk, "error", ""))
    if v:
        return (kind, name, pid, "reported", f"{v[0]['rule']}: {v[0]['construct'][:120]}")
    return (kind, name, pid, "silent", "")


def plan(pids):
    from selfval.catalogue import MUTANTS, BENIGN
    jobs = []
    for name, (edits, expect) in MUTANTS.items():
        for pid in expect:
            if pid in pids:
                jobs.append(("mutant", name, edits, pid))
    for name, edits in BENIGN.items():
        for pid in pids:
            jobs.append(("benign", name, edits, pid))
    # seeded changes from independent sub-agents (stored diffs) as regression mutants
    import glob
    import json
    for meta_p in sorted(glob.glob(os.path.join(HERE, "seeded", "*", "meta.json"))):
        try:
            meta = json.load(open(meta_p))
        except Exception:
            continue
        patch = os.path.join(os.path.dirname(meta_p), "patch.diff")
        for pid in meta.get("caught_by", []):
            if pid in pids:
                jobs.append(("mutant", "seeded/" + meta["id"], patch, pid))
    # behaviour-preserving refactorings written by independent sub-agents (stored diffs): no check
    # whose scope includes a touched file may report them
    for patch in sorted(glob.glob(os.path.join(HERE, "benign", "*", "patch.diff"))):
        name = "refactor/" + os.path.basename(os.path.dirname(patch))
        touched = [l[6:].strip() for l in open(patch) if l.startswith("+++ b/")]
        for pid in pids:
            if any(pid in SCOPE.get(f, ALL) for f in touched):
                jobs.append(("benign", name, patch, pid))
    return jobs


# which checks look at which file (a refactoring of a file is analysed by these)
SCOPE = {
    "nasim/envs/network.py": ["C01", "C02", "C03", "C04", "C05", "C06", "C07", "C12", "C13", "C14"],
    "nasim/envs/host_vector.py": ["C01", "C02", "C04", "C05", "C07", "C08", "C09", "C12", "C13",
                                  "C19"],
    "nasim/envs/state.py": ["C02", "C03", "C04", "C06", "C08", "C09", "C10", "C12", "C13", "C19"],
    "nasim/envs/observation.py": ["C08", "C09", "C10", "C12", "C13"],
    "nasim/envs/environment.py": ["C04", "C05", "C06", "C08", "C10", "C11", "C12", "C13", "C14",
                                  "C19"],
    "nasim/envs/action.py": ["C01", "C05", "C07", "C10", "C11", "C12", "C13"],
    "nasim/scenarios/scenario.py": ["C06", "C09", "C10", "C11", "C17", "C19"],
    "nasim/scenarios/loader.py": ["C02", "C09", "C14", "C17", "C18"],
    "nasim/scenarios/generator.py": ["C09", "C14", "C15", "C16", "C19"],
}


def run(pids, seed=0, procs=16):
    jobs = plan(pids)
    random.Random(seed).shuffle(jobs)
    if procs > 1 and len(jobs) > 1:
        with mp.Pool(min(procs, len(jobs))) as pool:
            res = pool.map(_job, jobs, chunksize=1)
    else:
        res = [_job(j) for j in jobs]
    out = {"mutants_total": 0, "mutants_caught": 0, "mutants_skipped": 0, "benign_total": 0,
           "benign_silent": 0, "misses": [], "false_alarms": [], "errors": [], "caught": []}
    for kind, name, pid, status, detail in sorted(res):
        if kind == "mutant":
            if status == "skipped":
                out["mutants_skipped"] += 1
                continue
            out["mutants_total"] += 1
            if status == "reported":
                out["mutants_caught"] += 1
                out["caught"].append({"mutant": name, "check": pid, "report": detail})
            elif status in ("error", "crash", "invalid"):
                out["errors"].append({"mutant": name, "check": pid, "status": status,
                                      "detail": detail})
            else:
                out["misses"].append({"mutant": name, "check": pid})
        else:
            if status == "skipped":
                continue
            out["benign_total"] += 1
            if status == "silent":
                out["benign_silent"] += 1
            elif status == "reported":
                out["false_alarms"].append({"variant": name, "check": pid, "report": detail})
            else:
                out["errors"].append({"variant": name, "check": pid, "status": status,
                                      "detail": detail})
    return out


def main(seed=0):
    t0 = time.time()
    out = run(ALL, seed=seed)
    print(f"[selftest] mutants {out['mutants_caught']}/{out['mutants_total']} caught "
          f"({out['mutants_skipped']} skipped), benign {out['benign_silent']}/"
          f"{out['benign_total']} silent, {len(out['errors'])} error(s), "
          f"{time.time() - t0:.1f}s")
    for m in out["misses"]:
        print(f"  MISS   {m['mutant']} not reported by {m['check']}")
    for f in out["false_alarms"]:
        print(f"  FALSE-ALARM {f['variant']} reported by {f['check']}: {f['report']}")
    for e in out["errors"]:
        print(f"  ERROR  {e.get('mutant') or e.get('variant')} / {e['check']}: {e['status']} "
              f"{e['detail'][:160]}")
    bad = out["misses"] or out["false_alarms"] or out["errors"]
    if bad:
        print("ANALYSIS-ERROR self-validation failed (the checker, not the repository, is at fault)")
        return 2
    return 0


if __name__ == "__main__":
    sys.exit(main())
