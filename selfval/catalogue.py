"""Self-validation catalogue: seeded mutants (text edits applied in memory to the freshly read
sources; each must still compile) that a named check MUST report, and benign variants that NO
check may report.  A mutant whose anchor text is absent on the tree under test is skipped."""

N = "nasim/envs/network.py"
H = "nasim/envs/host_vector.py"
S = "nasim/envs/state.py"
O = "nasim/envs/observation.py"
E = "nasim/envs/environment.py"
A = "nasim/envs/action.py"
SC = "nasim/scenarios/scenario.py"
L = "nasim/scenarios/loader.py"
G = "nasim/scenarios/generator.py"
HO = "nasim/scenarios/host.py"
SI = "nasim/scenarios/__init__.py"

# name -> (edits, [properties whose check must fire])
MUTANTS = {
    # ---------------------------------------------------------------- C01
    "exploit-drops-os-atom": ([(H, "if self.is_running_service(action.service) and \\\n               (action.os is None or self.is_running_os(action.os)):", "if self.is_running_service(action.service):")], ["C01"]),
    "exploit-drops-service-atom": ([(H, "if self.is_running_service(action.service) and \\\n               (action.os is None or self.is_running_os(action.os)):", "if (action.os is None or self.is_running_os(action.os)):")], ["C01"]),
    "privesc-access-ge": ([(H, "if not (self.compromised and action.req_access <= self.access):", "if not (self.compromised and action.req_access >= self.access):")], ["C01", "C02"]),
    "privesc-drops-compromised": ([(H, "if not (self.compromised and action.req_access <= self.access):", "if not (action.req_access <= self.access):")], ["C02"]),
    "privesc-drops-process-atom": ([(H, "if has_proc and has_os:", "if has_os:")], ["C01"]),
    "access-store-unguarded": ([(H, "                if not self.access == AccessLevel.ROOT:\n                    # ensure a machine is not rewarded twice\n                    # and access doesn't decrease\n                    next_state.access = action.access\n                    if action.access == AccessLevel.ROOT:\n                        value = self.value\n\n                result = ActionResult(\n                    True,\n                    value=value,\n                    services", "                next_state.access = action.access\n                if not self.access == AccessLevel.ROOT:\n                    if action.access == AccessLevel.ROOT:\n                        value = self.value\n\n                result = ActionResult(\n                    True,\n                    value=value,\n                    services")], ["C01", "C04"]),
    "service-scan-grants-access": ([(H, "        if action.is_service_scan():\n            result = ActionResult(True, 0, services=self.services)", "        if action.is_service_scan():\n            next_state.access = AccessLevel.USER\n            result = ActionResult(True, 0, services=self.services)")], ["C01"]),
    "update-host-other-address": ([(N, "next_state.update_host(action.target, next_host_state)", "next_state.update_host((action.target[0], 0), next_host_state)")], ["C01"]),
    "host-dispatch-no-copy": ([(H, "        next_state = self.copy()\n        if action.is_service_scan():", "        next_state = self\n        if action.is_service_scan():")], ["C01", "C13"]),
    "is-running-os-reads-services": ([(H, "        os_num = self.os_idx_map[os]\n        return bool(self.vector[self._get_os_idx(os_num)])", "        os_num = self.os_idx_map[os]\n        return bool(self.vector[self._get_service_idx(os_num)])")], ["C01", "C09"]),
    # ---------------------------------------------------------------- C02
    "g1-drops-discovered": ([(N, "        if not state.host_reachable(action.target) \\\n           or not state.host_discovered(action.target):", "        if not state.host_reachable(action.target):")], ["C02"]),
    "firewall-direction-swapped": ([(N, "return service in self.firewall[(src_subnet, dest_subnet)]", "return service in self.firewall[(dest_subnet, src_subnet)]")], ["C02"]),
    "permission-args-swapped": ([(N, "               not self.subnet_traffic_permitted(\n                   src_addr[0], action.target[0], action.service\n               ):", "               not self.subnet_traffic_permitted(\n                   action.target[0], src_addr[0], action.service\n               ):")], ["C02"]),
    "host-firewall-conjunct-dropped": ([(N, "            if self.host_traffic_permitted(src_addr, host_addr, service):\n                return True", "            return True")], ["C02"]),
    "pivot-compromised-dropped": ([(N, "        for src_addr in self.address_space:\n            if not state.host_compromised(src_addr):\n                continue\n            if action.is_scan() and \\", "        for src_addr in self.address_space:\n            if action.is_scan() and \\")], ["C02"]),
    "pivot-req-access-dropped": ([(N, "            if state.host_has_access(src_addr, action.req_access):\n                return True\n        return False", "            return True\n        return False")], ["C02"]),
    "subnet-scan-access-gate-dropped": ([(N, "        if not next_state.host_has_access(action.target, action.req_access):\n            result = ActionResult(False, 0.0, permission_error=True)\n            return next_state, result\n\n        discovered = {}", "        discovered = {}")], ["C02", "C03"]),
    "write-before-failure-return": ([(N, "        if action.is_privilege_escalation() and not host_compromised:\n            result = ActionResult(False, 0.0, connection_error=True)", "        if action.is_privilege_escalation() and not host_compromised:\n            next_state.set_host_discovered(action.target)\n            result = ActionResult(False, 0.0, connection_error=True)")], ["C02"]),
    "internet-rule-ignored-again": ([(N, "        if self.subnet_public(host_addr[0]) \\\n           and service in self.firewall[(INTERNET, host_addr[0])]:\n            return True", "        if self.subnet_public(host_addr[0]):\n            return True")], ["C02"]),
    "remote-permission-skipped-for-exploit": ([(N, "        return isinstance(self, (ServiceScan, OSScan, Exploit))", "        return isinstance(self, (ServiceScan, OSScan))".replace("self", "self"))], []),
    "host-firewall-raw-keys-again": ([(L, "                firewall=firewall,\n                value=value", "                firewall=h_cfg[u.HOST_FIREWALL],\n                value=value")], ["C02", "C17"]),
    # ---------------------------------------------------------------- C03
    "scan-discovers-without-connectivity": ([(N, "            if self.subnets_connected(target_subnet, h_addr[0]):\n                host = next_state", "            if True:\n                host = next_state")], ["C03", "C05"]),
    "update-reachable-removed": ([(N, "        self._update(next_state, action, action_obs)\n", "")], ["C03"]),
    "update-on-any-success": ([(N, "        if action.is_exploit() and action_obs.success:\n            self._update_reachable(state, action.target)", "        if action_obs.success:\n            self._update_reachable(state, action.target)")], ["C03"]),
    "update-reachable-wrong-address": ([(N, "            self._update_reachable(state, action.target)", "            self._update_reachable(state, (1, 0))")], ["C03"]),
    "reset-everything-reachable": ([(N, "            host.reachable = self.subnet_public(host_addr[0])", "            host.reachable = True")], ["C03", "C04"]),
    "reachable-transposed-topology": ([(N, "            if self.subnets_connected(comp_subnet, addr[0]):\n                state.set_host_reachable(addr)", "            if self.subnets_connected(addr[0], comp_subnet):\n                state.set_host_reachable(addr)")], ["C03"]),
    # ---------------------------------------------------------------- C04
    "reset-skips-access": ([(N, "            host.compromised = False\n            host.access = AccessLevel.NONE", "            host.compromised = False")], ["C04", "C03"]),
    "reset-sensitive-only": ([(N, "        next_state = state.copy()\n        for host_addr in self.address_space:", "        next_state = state.copy()\n        for host_addr in self.sensitive_addresses:")], ["C04", "C03"]),
    "status-store-false": ([(S, "        self.get_host(host_addr).reachable = True", "        self.get_host(host_addr).reachable = False")], ["C04", "C03"]),
    "exploit-writes-value-column": ([(H, "                next_state.compromised = True\n", "                next_state.compromised = True\n                next_state.vector[self._value_idx] = 0\n")], ["C04"]),
    "steps-reset-dropped": ([(E, "        super().reset(seed=seed, options=options)\n        self.steps = 0\n", "        super().reset(seed=seed, options=options)\n")], ["C04"]),
    # ---------------------------------------------------------------- C05
    "reward-plus-cost": ([(E, "reward = action_obs.value - action.cost", "reward = action_obs.value + action.cost")], ["C05"]),
    "value-paid-for-user-access": ([(H, "                    next_state.access = action.access\n                    if action.access == AccessLevel.ROOT:\n                        value = self.value\n\n                result = ActionResult(\n                    True,\n                    value=value,\n                    services", "                    next_state.access = action.access\n                    if action.access >= AccessLevel.USER:\n                        value = self.value\n\n                result = ActionResult(\n                    True,\n                    value=value,\n                    services")], ["C05"]),
    "discovery-value-for-all-connected": ([(N, "                if not host.discovered:\n                    newly_discovered[h_addr] = True\n                    host.discovered = True\n                    discovery_reward += host.discovery_value", "                discovery_reward += host.discovery_value\n                if not host.discovered:\n                    newly_discovered[h_addr] = True\n                    host.discovered = True")], ["C05"]),
    "failure-result-nonzero-value": ([(N, "        elif np.random.rand() > action.prob:\n            return next_state, ActionResult(False, 0.0, undefined_error=True)", "        elif np.random.rand() > action.prob:\n            return next_state, ActionResult(False, -1.0, undefined_error=True)")], ["C05", "C07"]),
    "noop-costs": ([(A, "                         target=(1, 0),\n                         cost=0,", "                         target=(1, 0),\n                         cost=1,")], ["C05", "C11"]),
    # ---------------------------------------------------------------- C06
    "goal-user-access": ([(N, "            if not state.host_has_access(host_addr, AccessLevel.ROOT):\n                return False", "            if not state.host_has_access(host_addr, AccessLevel.USER):\n                return False")], ["C06"]),
    "goal-any": ([(N, "        for host_addr in self.sensitive_addresses:\n            if not state.host_has_access(host_addr, AccessLevel.ROOT):\n                return False\n        return True", "        for host_addr in self.sensitive_addresses:\n            if state.host_has_access(host_addr, AccessLevel.ROOT):\n                return True\n        return False")], ["C06"]),
    "goal-compromised-only": ([(N, "            if not state.host_has_access(host_addr, AccessLevel.ROOT):\n                return False", "            if not state.host_compromised(host_addr):\n                return False")], ["C06"]),
    "goal-first-sensitive-only": ([(N, "        for host_addr in self.sensitive_addresses:\n            if not state.host_has_access", "        for host_addr in self.sensitive_addresses[:1]:\n            if not state.host_has_access")], ["C06"]),
    "limit-gt": ([(E, "and self.steps >= self.scenario.step_limit", "and self.steps > self.scenario.step_limit")], ["C06"]),
    "limit-before-increment": ([(E, "        self.steps += 1\n\n        step_limit_reached = (\n            self.scenario.step_limit is not None\n            and self.steps >= self.scenario.step_limit\n        )\n", "        step_limit_reached = (\n            self.scenario.step_limit is not None\n            and self.steps >= self.scenario.step_limit\n        )\n        self.steps += 1\n")], ["C06"]),
    "gstep-counts": ([(E, "        done = self.goal_reached(next_state)", "        done = self.goal_reached(next_state)\n        self.steps += 1")], ["C06", "C13", "C04"]),
    "done-on-input-state": ([(E, "done = self.goal_reached(next_state)", "done = self.goal_reached(state)")], ["C06"]),
    "access-compare-gt": ([(S, "return self.get_host(host_addr).access >= access_level", "return self.get_host(host_addr).access > access_level")], ["C06", "C01"]),
    # ---------------------------------------------------------------- C07
    "draw-inverted": ([(N, "elif np.random.rand() > action.prob:", "elif np.random.rand() < action.prob:")], ["C07"]),
    "second-draw": ([(N, "        if action.is_subnet_scan():\n            return self._perform_subnet_scan(next_state, action)", "        if action.is_subnet_scan():\n            if np.random.rand() > action.prob:\n                return next_state, ActionResult(False, 0.0, undefined_error=True)\n            return self._perform_subnet_scan(next_state, action)")], ["C07"]),
    "draw-hoisted-above-gates": ([(N, "        has_req_permission = self.has_required_remote_permission(state, action)", "        if np.random.rand() > action.prob:\n            return next_state, ActionResult(False, 0.0, undefined_error=True)\n        has_req_permission = self.has_required_remote_permission(state, action)")], ["C07"]),
    "chance-exit-connection-error": ([(N, "return next_state, ActionResult(False, 0.0, undefined_error=True)", "return next_state, ActionResult(False, 0.0, connection_error=True)")], ["C07"]),
    "reexploit-bypass-removed": ([(N, "        if action.is_exploit() and host_compromised:\n            # host already compromised so exploits don't fail due to randomness\n            pass\n        elif np.random.rand() > action.prob:", "        if np.random.rand() > action.prob:")], ["C07"]),
    "success-with-error-flag": ([(H, "            return next_state, ActionResult(True, 0, os=self.os)", "            return next_state, ActionResult(True, 0, os=self.os, permission_error=True)")], ["C07"]),
    "python-random-draw": ([(N, "import numpy as np\n\nfrom nasim.envs.action import ActionResult", "import random\nimport numpy as np\n\nfrom nasim.envs.action import ActionResult"), (N, "elif np.random.rand() > action.prob:", "elif random.random() > action.prob:")], ["C07", "C14"]),
    "prob-domain-loosened": ([(A, "        assert 0 <= prob <= 1.0\n", "        assert 0 <= prob <= 1.5\n")], ["C07"]),
    # ---------------------------------------------------------------- C08
    "service-scan-leaks-os": ([(S, '        elif action.is_service_scan():\n            obs_kwargs["services"] = True', '        elif action.is_service_scan():\n            obs_kwargs["services"] = True\n            obs_kwargs["os"] = True')], ["C08"]),
    "service-scan-drops-services": ([(S, '        elif action.is_service_scan():\n            obs_kwargs["services"] = True', '        elif action.is_service_scan():\n            pass')], ["C08"]),
    "observe-wrong-slice": ([(H, "            idxs = self._os_idx_slice()\n            obs[idxs] = self.vector[idxs]", "            idxs = self._os_idx_slice()\n            obs[idxs] = self.vector[self._service_idx_slice()]")], ["C08"]),
    "aux-indices-permuted": ([(O, "    _conn_error_idx = _success_idx + 1\n    _perm_error_idx = _conn_error_idx + 1", "    _perm_error_idx = _success_idx + 1\n    _conn_error_idx = _perm_error_idx + 1")], ["C08", "C09"]),
    "failure-not-silent": ([(S, "        if not action_result.success:\n            # action failed so no observation\n            return obs\n", "")], ["C08"]),
    "observe-input-state": ([(E, "        obs = next_state.get_observation(", "        obs = state.get_observation(")], ["C08"]),
    "discovery-value-unconditional": ([(S, "discovery_value=newly_discovered, **obs_kwargs", "discovery_value=True, **obs_kwargs")], ["C08"]),
    "value-revealed-by-scans": ([(S, "            value=False,\n", "            value=True,\n")], ["C08"]),
    "initial-obs-all-hosts": ([(S, "            if not host.reachable:\n                continue\n            host_obs = host.observe(address=True,", "            host_obs = host.observe(address=True,")], ["C08"]),
    "po-branch-full-state": ([(S, "        if action.is_noop():\n            return obs\n\n        if not action_result.success:", "        if action.is_noop():\n            obs.from_state(self)\n            return obs\n\n        if not action_result.success:")], ["C08"]),
    # ---------------------------------------------------------------- C09
    "service-start-off-by-one": ([(H, "cls._service_start_idx = cls._os_start_idx + cls.num_os", "cls._service_start_idx = cls._os_start_idx + cls.num_os - 1")], ["C09"]),
    "access-aliases-discovery-value": ([(H, "cls._access_idx = cls._discovery_value_idx + 1", "cls._access_idx = cls._discovery_value_idx")], ["C09"]),
    "getter-uses-sibling-index": ([(H, "    def reachable(self):\n        return self.vector[self._reachable_idx]", "    def reachable(self):\n        return self.vector[self._discovered_idx]")], ["C09", "C02"]),
    "state-dims-five-aux": ([(SC, "host_aux_features = 6", "host_aux_features = 5")], ["C09"]),
    "flatten-column-major": ([(O, "return self.tensor.flatten()", "return self.tensor.flatten(order='F')")], ["C09"]),
    "from-numpy-swapped-reshape": ([(O, "o_array = o_array.reshape(state_shape[0]+1, state_shape[1])", "o_array = o_array.reshape(state_shape[1], state_shape[0]+1)")], ["C09"]),
    "os-config-from-set": ([(L, "        for os_name in self.os:\n            os_cfg[os_name] = os_name == host_cfg[u.HOST_OS]", "        for os_name in set(self.os):\n            os_cfg[os_name] = os_name == host_cfg[u.HOST_OS]")], ["C09"]),
    "vectorize-value-swapped": ([(H, "vector[cls._value_idx] = host.value\n        vector[cls._discovery_value_idx] = host.discovery_value", "vector[cls._value_idx] = host.discovery_value\n        vector[cls._discovery_value_idx] = host.value")], ["C09"]),
    # ---------------------------------------------------------------- C10
    "bounds-drop-value-min": ([(O, "        obs_low = min(\n            0,\n            value_bounds[0],\n            discovery_bounds[0]\n        )", "        obs_low = min(\n            0,\n            discovery_bounds[0]\n        )")], ["C10"]),
    "bounds-user-instead-of-root": ([(O, "            AccessLevel.ROOT,\n", "            AccessLevel.USER,\n")], ["C10"]),
    "obs-float64": ([(O, "self.tensor = np.zeros(self.obs_shape, dtype=np.float32)", "self.tensor = np.zeros(self.obs_shape, dtype=np.float64)")], ["C10", "C09"]),
    "box-shape-from-state": ([(E, "            obs_shape = self.last_obs.shape()\n", "            obs_shape = self.current_state.shape()\n")], ["C10"]),
    "step-returns-four": ([(E, "        return obs, reward, done, step_limit_reached, info", "        return obs, reward, done or step_limit_reached, info")], ["C10", "C06"]),
    "flat-guard-int-only-again": ([(A, "assert isinstance(action_idx, (int, np.integer)), \\", "assert isinstance(action_idx, int), \\")], ["C10"]),
    "param-guard-no-ndarray": ([(A, "assert isinstance(action_vec, (list, tuple, np.ndarray)), \\", "assert isinstance(action_vec, (list, tuple)), \\")], ["C10"]),
    # ---------------------------------------------------------------- C11
    "append-conditional": ([(A, "        action_list.append(\n            OSScan(address, scenario.os_scan_cost)\n        )", "        if address[1] == 0:\n            action_list.append(\n                OSScan(address, scenario.os_scan_cost)\n            )")], ["C11"]),
    "append-duplicated": ([(A, "            action_list.append(exploit)\n", "            action_list.append(exploit)\n            action_list.append(exploit)\n")], ["C11"]),
    "scan-costs-crossed": ([(A, "            ServiceScan(address, scenario.service_scan_cost)", "            ServiceScan(address, scenario.os_scan_cost)")], ["C11"]),
    "size-three-scans": ([(SC, "        num_scans = 4\n", "        num_scans = 3\n")], ["C11"]),
    "action-types-reordered": ([(A, "        Exploit,\n        PrivilegeEscalation,\n        ServiceScan,\n        OSScan,", "        Exploit,\n        PrivilegeEscalation,\n        OSScan,\n        ServiceScan,")], ["C11"]),
    "decode-os-no-offset": ([(A, "os = None if action_vec[3] == 0 else self.scenario.os[action_vec[3]-1]", "os = None if action_vec[3] == 0 else self.scenario.os[action_vec[3]]")], ["C11"]),
    "nvec-os-without-none-slot": ([(A, "            self.scenario.num_os+1,\n", "            self.scenario.num_os,\n")], ["C11"]),
    "mask-reads-reachable": ([(E, "            if self.current_state.host_discovered(action.target):", "            if self.current_state.host_reachable(action.target):")], ["C11"]),
    "mask-on-network-again": ([(E, "            if self.current_state.host_discovered(action.target):", "            if self.network.host_discovered(action.target):")], ["C11"]),
    "exploit-map-last-wins-cost": ([(SC, "                        u.EXPLOIT_COST: e_def[u.EXPLOIT_COST],", "                        u.EXPLOIT_COST: e_def[u.EXPLOIT_PROB],")], ["C11"]),
    # ---------------------------------------------------------------- C12
    "reward-depends-on-fully-obs": ([(E, "        reward = action_obs.value - action.cost", "        reward = action_obs.value - action.cost\n        if self.fully_obs:\n            reward = reward - 0.1")], ["C12", "C05"]),
    "limit-depends-on-flat-obs": ([(E, "            and self.steps >= self.scenario.step_limit", "            and self.steps >= self.scenario.step_limit + int(self.flat_obs)")], ["C12", "C06"]),
    "mode-passed-to-network": ([(E, "        next_state, action_obs = self.network.perform_action(\n            state, action\n        )", "        next_state, action_obs = self.network.perform_action(\n            state, action, self.fully_obs\n        )"), (N, "    def perform_action(self, state, action):", "    def perform_action(self, state, action, fully_obs=False):")], ["C12"]),   # (C13.inputs: an argument for a parameter the reference signature lacks is "extended" -> not decided there, E.7 round nine)
    "state-write-under-fully-obs": ([(S, "        if fully_obs:\n            obs.from_state(self)\n            return obs\n\n        if action.is_noop():", "        if fully_obs:\n            obs.from_state(self)\n            self.tensor[0][0] = 1\n            return obs\n\n        if action.is_noop():")], ["C12"]),
    # ---------------------------------------------------------------- C13
    "next-state-aliases-input": ([(N, "        next_state = state.copy()\n\n        if action.is_noop():", "        next_state = state\n\n        if action.is_noop():")], ["C13", "C02"]),
    "state-copy-aliases-tensor": ([(S, "        new_tensor = np.copy(self.tensor)", "        new_tensor = self.tensor")], ["C13", "C04"]),
    "from-state-aliases": ([(O, "        self.tensor[:self.aux_row] = state.tensor", "        self.tensor = state.tensor")], ["C13"]),
    "step-bypasses-generative-step": ([(E, "        next_state, obs, reward, done, info = self.generative_step(\n            self.current_state,\n            action\n        )", "        next_state, obs, reward, done, info = self.generative_step(\n            self.current_state.copy(),\n            action\n        )")], ["C13"]),
    "subnet-scan-on-input-state": ([(N, "            return self._perform_subnet_scan(next_state, action)", "            return self._perform_subnet_scan(state, action)")], ["C13", "C02"]),
    # ---------------------------------------------------------------- C14
    "draw-before-seed": ([(G, "        if seed is not None:\n            np.random.seed(seed)\n\n        if num_exploits is None:", "        jitter = np.random.rand()\n        if seed is not None:\n            np.random.seed(seed)\n\n        if num_exploits is None:")], ["C14"]),
    "firewall-choice-from-set-again": ([(G, "dest_allowed = np.random.choice(sorted(dest_avail))", "dest_allowed = np.random.choice(list(dest_avail))")], ["C14"]),
    "seed-unconditional-none": ([(G, "        if seed is not None:\n            np.random.seed(seed)\n", "        np.random.seed(seed)\n")], ["C14"]),
    "private-generator": ([(G, "            srv = np.random.choice(self.services)\n            os = np.random.choice(possible_os)", "            srv = np.random.default_rng().choice(self.services)\n            os = np.random.choice(possible_os)")], ["C14"]),
    "loop-over-set-draws": ([(G, "            for e_def in self.exploits.values():\n                if self._host_is_vulnerable_to_exploit(host, e_def):\n                    subnet_services[subnet].add(e_def[u.EXPLOIT_SERVICE])", "            for e_def in self.exploits.values():\n                if self._host_is_vulnerable_to_exploit(host, e_def):\n                    subnet_services[subnet].add(e_def[u.EXPLOIT_SERVICE])\n            for srv_name in subnet_services[subnet]:\n                if np.random.rand() < 0.0:\n                    break")], ["C14"]),
    "generator-carries-state": ([(G, "        self._generate_subnets(num_hosts)\n        self._generate_topology()", "        if not hasattr(self, 'subnets') or num_hosts:\n            self._generate_subnets(num_hosts)\n        self.calls = self.calls + 1 if num_hosts < 0 else 0\n        self._generate_topology()")], ["C14"]),
    # ---------------------------------------------------------------- C15
    "head-guard-removed": ([(G, "        assert 0 < num_os\n", "")], ["C15"]),
    "division-by-host-num-minus-two": ([(G, "alpha_H / (alpha_H + host_num - 1)", "alpha_H / (host_num - 1)")], ["C15"]),
    "exploit-service-from-processes": ([(G, "            srv = np.random.choice(self.services)\n            os = np.random.choice(possible_os)", "            srv = np.random.choice(self.processes)\n            os = np.random.choice(possible_os)")], ["C15"]),
    "privesc-grants-user": ([(G, "                    u.PRIVESC_ACCESS: u.ROOT_ACCESS\n", "                    u.PRIVESC_ACCESS: u.USER_ACCESS\n")], ["C15"]),
    "prob-guard-loosened": ([(G, "            assert 0.0 < action_probs <= 1.0, \\", "            assert 0.0 <= action_probs <= 1.0, \\")], ["C15"]),
    "os-map-all-true": ([(G, "            os_map[os_name] = os_name == os\n", "            os_map[os_name] = True\n")], ["C15"]),
    "firewall-for-unconnected-pairs": ([(G, "                if src == dest or not self.topology[src][dest]:", "                if src == dest:")], ["C15"]),
    "user-rule-sampled": ([(G, "                    allowed = set(self.services)\n                    firewall[(src, dest)] = allowed", "                    allowed = set(self.services[:1])\n                    firewall[(src, dest)] = allowed")], ["C15"]),
    "exploit-counter-always": ([(G, "                    u.EXPLOIT_ACCESS: al\n                }\n                exploits_added += 1", "                    u.EXPLOIT_ACCESS: al\n                }\n            exploits_added += 1")], ["C15"]),
    "sensitive-host-value-swapped": ([(G, "        sensitive_hosts[(SENSITIVE, 0)] = r_sensitive", "        sensitive_hosts[(SENSITIVE, 0)] = r_user")], ["C15"]),
    "dmz-not-self-connected": ([(G, "                if row > DMZ and col == u.INTERNET:\n                    continue", "                if row > DMZ and col == u.INTERNET:\n                    continue\n                if row == DMZ and col == DMZ:\n                    continue")], ["C15"]),
    # ---------------------------------------------------------------- C16
    "firewall-before-vulnerability": ([(G, "        self._ensure_host_vulnerability()\n        self._generate_firewall(restrictiveness)", "        self._generate_firewall(restrictiveness)\n        self._ensure_host_vulnerability()")], ["C16"]),
    "ensure-vulnerability-removed": ([(G, "        self._ensure_host_vulnerability()\n", "")], ["C16"]),
    "sensitive-patched-at-user": ([(G, "                if not self._host_is_vulnerable(host, u.ROOT_ACCESS):\n                    self._update_host_to_vulnerable(host, u.ROOT_ACCESS)", "                if not self._host_is_vulnerable(host, u.ROOT_ACCESS):\n                    self._update_host_to_vulnerable(host, u.USER_ACCESS)")], ["C16"]),
    "subnet-loop-skips": ([(G, "        for subnet, size in enumerate(self.subnets):\n            if subnet in vulnerable_subnets or subnet == u.INTERNET:\n                continue\n            host_num = np.random.randint(size)", "        for subnet, size in enumerate(self.subnets[:-1]):\n            if subnet in vulnerable_subnets or subnet == u.INTERNET:\n                continue\n            host_num = np.random.randint(size)")], ["C16"]),
    "privesc-patch-may-change-os": ([(G, "            success, pe_def = self._update_host_privesc_vulnerability(\n                host, True\n            )", "            success, pe_def = self._update_host_privesc_vulnerability(\n                host, False\n            )")], ["C16"]),
    "os-choices-any": ([(G, "                   or all([os in os_choices for os in self.os]):", "                   or any([os in os_choices for os in self.os]):")], ["C16"]),
    "cross-zone-from-all-services": ([(G, "                dest_avail = subnet_services[dest].copy()", "                dest_avail = set(self.services)")], ["C16"]),
    "vulnerable-ignores-os": ([(G, "        if not host.services[e_srv]:\n            return False\n        return e_os is None or host.os[e_os]", "        return bool(host.services[e_srv])")], ["C16"]),
    # ---------------------------------------------------------------- C17
    "scan-costs-crossed-in-loader": ([(L, "scenario_dict[u.OS_SCAN_COST] = self.os_scan_cost", "scenario_dict[u.OS_SCAN_COST] = self.service_scan_cost")], ["C17"]),
    "internet-subnet-size-zero": ([(L, "        subnets.insert(0, 1)", "        subnets.insert(0, 0)")], ["C17"]),
    "access-map-root-is-user": ([(L, '    "root": u.ROOT_ACCESS\n', '    "root": u.USER_ACCESS\n')], ["C17"]),
    "host-value-wrong-key": ([(L, "return float(host_cfg.get(u.HOST_VALUE, u.DEFAULT_HOST_VALUE))", "return float(host_cfg.get(u.HOST_OS, u.DEFAULT_HOST_VALUE))")], ["C17"]),
    "firewall-keys-left-raw": ([(L, "            self.firewall[eval(connect)] = v", "            self.firewall[connect] = v")], ["C17"]),
    "services-config-all-true": ([(L, "services_cfg[service] = service in host_cfg[u.HOST_SERVICES]", "services_cfg[service] = True")], ["C17"]),
    "exploit-prob-open-again": ([(L, "        assert 0 <= e[u.EXPLOIT_PROB] <= 1, \\", "        assert 0 <= e[u.EXPLOIT_PROB] < 1, \\")], ["C17"]),
    "privescs-must-be-nonempty": ([(L, "    def _validate_privescs(self, privescs):\n", "    def _validate_privescs(self, privescs):\n        assert len(privescs) > 0\n")], ["C17"]),
    "host-value-must-be-positive": ([(L, "            assert isinstance(host_value, (int, float)), \\", "            assert isinstance(host_value, (int, float)) and host_value >= 0, \\")], ["C17"]),
    "step-limit-dropped": ([(L, "        scenario_dict[u.STEP_LIMIT] = self.step_limit\n        return Scenario(\n            scenario_dict, name=self.name, generated=False", "        return Scenario(\n            scenario_dict, name=self.name, generated=False")], ["C17"]),
    "scenario-property-wrong-key": ([(SC, "    def os_scan_cost(self):\n        return self.scenario_dict[u.OS_SCAN_COST]", "    def os_scan_cost(self):\n        return self.scenario_dict[u.SERVICE_SCAN_COST]")], ["C17"]),
    # ---------------------------------------------------------------- C18
    "topology-cell-guard-removed": ([(L, "            for col in row:\n                assert isinstance(col, int) and (col == 1 or col == 0), \\\n                    (\"Subnet_connections adjaceny matrix must contain only\"\n                     f\" 1 (connected) or 0 (not connected): {col} invalid\")\n", "")], ["C18"]),
    "subnet-loop-narrowed": ([(L, "        for subnet_size in subnets:\n            assert type(subnet_size) is int", "        for subnet_size in subnets[1:]:\n            assert type(subnet_size) is int")], ["C18"]),
    "validate-call-removed": ([(L, "        os = self.yaml_dict[u.OS]\n        self._validate_os(os)\n", "        os = self.yaml_dict[u.OS]\n")], ["C18"]),
    "early-return-before-guard": ([(L, "        assert e[u.EXPLOIT_COST] > 0, f\"{e_name}. Exploit cost must be > 0.\"", "        if e[u.EXPLOIT_PROB] == 1:\n            return\n        assert e[u.EXPLOIT_COST] > 0, f\"{e_name}. Exploit cost must be > 0.\"")], ["C18"]),
    "cost-ge-zero": ([(L, "        assert pe[u.PRIVESC_COST] > 0, \\", "        assert pe[u.PRIVESC_COST] >= 0, \\")], ["C18"]),
    "sensitive-value-or": ([(L, "            assert isinstance(value, (float, int)) and value > 0, \\", "            assert isinstance(value, (float, int)) or value > 0, \\")], ["C18"]),
    "guard-swallowed": ([(L, "        for e_name, e in exploits.items():\n            self._validate_single_exploit(e_name, e)", "        for e_name, e in exploits.items():\n            try:\n                self._validate_single_exploit(e_name, e)\n            except AssertionError:\n                pass")], ["C18"]),
    "duplicate-check-dropped": ([(L, "        for i, x in enumerate(f):\n            for j, y in enumerate(f):\n                if i != j and x == y:\n                    return False\n        return True", "        return True")], ["C18"]),
    "sensitive-check-shadowed-again": ([(L, "            if eval(addr) in self.sensitive_hosts:\n                sh_value = self.sensitive_hosts[eval(addr)]", "            if addr in self.sensitive_hosts:\n                sh_value = self.sensitive_hosts[addr]")], ["C18"]),
    "step-limit-zero-ok": ([(L, "            assert step_limit > 0, \\", "            assert step_limit >= 0, \\")], ["C18"]),
    "unknown-keys-accepted": ([(L, "            assert k in VALID_CONFIG_KEYS or k in OPTIONAL_CONFIG_KEYS, \\\n                f\"{k} not a valid config file key\"\n", "")], ["C18"]),
    "firewall-pairs-one-direction": ([(L, "                if col == 1 and (str((src, dest)) not in firewall\n                                 or str((dest, src)) not in firewall):", "                if col == 1 and (str((src, dest)) not in firewall):")], ["C18"]),
    # ---------------------------------------------------------------- C19
    "module-level-action-cache": ([(A, "def load_action_list(scenario):\n", "_ACTION_CACHE = {}\n\n\ndef load_action_list(scenario):\n"), (A, "    action_list = []\n    for address in scenario.address_space:", "    if scenario.name in _ACTION_CACHE:\n        return _ACTION_CACHE[scenario.name]\n    action_list = []\n    _ACTION_CACHE[scenario.name] = action_list\n    for address in scenario.address_space:")], ["C19"]),
    "observation-class-attr-written": ([(O, "        self.aux_row = self.obs_shape[0]-1\n", "        self.aux_row = self.obs_shape[0]-1\n        Observation._success_idx = 0\n")], ["C19"]),
    "scenario-memo-at-class-level": ([(SC, "class Scenario:\n", "class Scenario:\n\n    _maps = {}\n"), (SC, "            self._e_map = e_map\n", "            self._e_map = e_map\n            Scenario._maps[self.name] = e_map\n")], ["C19"]),
    "state-map-class-attribute": ([(S, "        self.tensor = network_tensor\n        self.host_num_map = host_num_map", "        self.tensor = network_tensor\n        State.host_num_map = host_num_map")], ["C19"]),
    "mutated-default-argument": ([(SC, "    def __init__(self, scenario_dict, name=None, generated=False):", "    def __init__(self, scenario_dict, name=None, generated=False, seen=[]):\n        seen.append(name)")], ["C19"]),
}
MUTANTS.pop("remote-permission-skipped-for-exploit")

# name -> edits ; no check may report these
BENIGN = {
    "g1-split-into-two-ifs": [(N, "        if not state.host_reachable(action.target) \\\n           or not state.host_discovered(action.target):\n            result = ActionResult(False, 0.0, connection_error=True)\n            return next_state, result", "        if not state.host_reachable(action.target):\n            return next_state, ActionResult(False, 0.0, connection_error=True)\n        if not state.host_discovered(action.target):\n            result = ActionResult(False, 0.0, connection_error=True)\n            return next_state, result")],
    "goal-as-all": [(N, "        for host_addr in self.sensitive_addresses:\n            if not state.host_has_access(host_addr, AccessLevel.ROOT):\n                return False\n        return True", "        return all(state.host_has_access(a, AccessLevel.ROOT) for a in self.sensitive_addresses)")],
    "reward-operands-reordered": [(E, "reward = action_obs.value - action.cost", "reward = -action.cost + action_obs.value")],
    "obs-kwargs-update": [(S, '        elif action.is_os_scan():\n            obs_kwargs["os"] = True', '        elif action.is_os_scan():\n            obs_kwargs.update(os=True)')],
    "layout-offset-rewritten": [(H, "cls._reachable_idx = cls._compromised_idx + 1", "cls._reachable_idx = cls._host_address_idx + cls.address_space_bounds[1] + 1")],
    "os-atom-named": [(H, "            if self.is_running_service(action.service) and \\\n               (action.os is None or self.is_running_os(action.os)):", "            os_ok = action.os is None or self.is_running_os(action.os)\n            if self.is_running_service(action.service) and os_ok:")],
    "access-guard-as-ne": [(H, "                if not self.access == AccessLevel.ROOT:\n                    # ensure a machine is not rewarded twice\n                    # and access doesn't decrease\n                    next_state.access = action.access\n                    if action.access == AccessLevel.ROOT:\n                        value = self.value\n\n                result = ActionResult(\n                    True,\n                    value=value,\n                    services", "                if self.access != AccessLevel.ROOT:\n                    next_state.access = action.access\n                    if action.access == AccessLevel.ROOT:\n                        value = self.value\n\n                result = ActionResult(\n                    True,\n                    value=value,\n                    services")],
    "pivot-loop-nested-ifs": [(N, "            if state.host_has_access(src_addr, action.req_access):\n                return True\n        return False\n\n    def traffic_permitted", "            if not state.host_has_access(src_addr, action.req_access):\n                continue\n            return True\n        return False\n\n    def traffic_permitted")],
    "reset-stores-reordered": [(N, "            host.compromised = False\n            host.access = AccessLevel.NONE\n            host.reachable = self.subnet_public(host_addr[0])", "            host.access = AccessLevel.NONE\n            host.compromised = False\n            host.reachable = self.subnet_public(host_addr[0])")],
    "step-limit-cached-local": [(E, "        step_limit_reached = (\n            self.scenario.step_limit is not None\n            and self.steps >= self.scenario.step_limit\n        )", "        limit = self.scenario.step_limit\n        step_limit_reached = (\n            limit is not None\n            and self.steps >= limit\n        )")],
    "loader-assert-as-if-raise": [(L, "        assert len(subnets) > 0, \"Subnets cannot be empty list\"", "        if not len(subnets) > 0:\n            raise ValueError(\"Subnets cannot be empty list\")")],
    "loader-conjunction-split": [(L, "            assert type(subnet_size) is int and subnet_size > 0, \\\n                f\"{subnet_size} invalid subnet size, must be positive int\"", "            assert type(subnet_size) is int, f\"{subnet_size} invalid\"\n            assert subnet_size > 0, f\"{subnet_size} invalid\"")],
    "loader-validators-reordered": [(L, "        self._parse_os()\n        self._parse_services()\n        self._parse_processes()", "        self._parse_processes()\n        self._parse_services()\n        self._parse_os()")],
    "extra-defensive-copy": [(E, "        next_state, action_obs = self.network.perform_action(\n            state, action\n        )", "        next_state, action_obs = self.network.perform_action(\n            state.copy(), action\n        )")],
    "generator-sorted-services": [(G, "                    allowed = set(self.services)\n                    firewall[(src, dest)] = allowed", "                    allowed = set(sorted(self.services))\n                    firewall[(src, dest)] = allowed")],
    "mask-local-target": [(E, "            action = self.action_space.get_action(a_idx)\n            if self.current_state.host_discovered(action.target):", "            action = self.action_space.get_action(a_idx)\n            tgt = action.target\n            if self.current_state.host_discovered(tgt):")],
    "comment-and-docstring-only": [(N, "        \"\"\"Reset the network state to initial state \"\"\"", "        \"\"\"Reset the network state to the initial state.\"\"\"\n        # (comment added)")],
    "rename-local-next-state": [(H, "        next_state = self.copy()\n        if action.is_service_scan():\n            result = ActionResult(True, 0, services=self.services)\n            return next_state, result", "        next_state = self.copy()\n        if action.is_service_scan():\n            res = ActionResult(True, 0, services=self.services)\n            return next_state, res")],
}

BENIGN.update({
    "pivot-loop-as-any": [(N, """        for src_addr in self.address_space:
            if not state.host_compromised(src_addr):
                continue
            if action.is_scan() and \\
               not self.subnets_connected(src_addr[0], action.target[0]):
                continue
            if action.is_exploit() and \\
               not self.subnet_traffic_permitted(
                   src_addr[0], action.target[0], action.service
               ):
                continue
            if state.host_has_access(src_addr, action.req_access):
                return True
        return False
""", """        return any(
            state.host_compromised(src_addr)
            and (not action.is_scan()
                 or self.subnets_connected(src_addr[0], action.target[0]))
            and (not action.is_exploit()
                 or self.subnet_traffic_permitted(
                     src_addr[0], action.target[0], action.service))
            and state.host_has_access(src_addr, action.req_access)
            for src_addr in self.address_space
        )
""")],
    "exploit-branch-extracted": [(H, """        if action.is_exploit():
            if self.is_running_service(action.service) and \\
               (action.os is None or self.is_running_os(action.os)):""", """        if action.is_exploit():
            if self._exploitable_by(action):"""), (H, """    def observe(self,
                address=False,""", """    def _exploitable_by(self, action):
        return self.is_running_service(action.service) and \\
            (action.os is None or self.is_running_os(action.os))

    def observe(self,
                address=False,""")],
    "loader-check-helper": [(L, """        assert len(subnets) > 0, "Subnets cannot be empty list\"""" + "", """        self._require(len(subnets) > 0, "Subnets cannot be empty list")"""), (L, """    def _parse_topology(self):""", """    def _require(self, cond, msg):
        assert cond, msg

    def _parse_topology(self):""")],
    "print-logging-added": [(N, "        next_state = state.copy()\n\n        if action.is_noop():", "        next_state = state.copy()\n        if False:\n            print('performing', action)\n\n        if action.is_noop():")],
    "action-result-keywords": [(N, "            result = ActionResult(False, 0.0, permission_error=True)\n            return next_state, result\n\n        if action.is_exploit() \\", "            result = ActionResult(success=False, value=0.0,\n                                  permission_error=True)\n            return next_state, result\n\n        if action.is_exploit() \\")],
    "type-hints-added": [(S, "    def host_has_access(self, host_addr, access_level):", "    def host_has_access(self, host_addr: tuple, access_level: int) -> bool:")],
})

# ---- mode flow outside generative_step/step (C12.roles on abstract values)
MUTANTS.update({
    "reset-skips-step-counter-when-flat": ([(E, "        super().reset(seed=seed, options=options)\n        self.steps = 0", "        super().reset(seed=seed, options=options)\n        if not self.flat_obs:\n            self.steps = 0")], ["C12"]),
    "goal-depends-on-fully-obs": ([(E, "        return self.network.all_sensitive_hosts_compromised(state)", "        return self.network.all_sensitive_hosts_compromised(state) and not self.fully_obs")], ["C12"]),
    "reset-state-depends-on-flat-actions": ([(E, "        self.current_state = self.network.reset(self.current_state)\n        self.last_obs", "        if self.flat_actions:\n            self.current_state = self.network.reset(self.current_state)\n        self.last_obs")], ["C12"]),
})
