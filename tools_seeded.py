#!/venv/bin/python
"""Confirm candidate seeded changes and run the checks against them.

  tools_seeded.py verify <candidate dir> ...   # each dir holds patch.diff, demo.py, meta.json
      - in a scratch worktree (outside /repo and /verif): apply the patch, run the pinned suite
        (must not lose a stable test), run demo.py (must exit 1), revert, run demo.py (must exit 0)
  tools_seeded.py check <candidate dir> ...
      - apply the patch to /repo (git apply), run every check's quick command, undo (git checkout)
Results are written to <candidate dir>/result.json.
"""
import json
import os
import subprocess
import sys

REPO = "/repo"
WT = "/tmp/wt/verify"
PY = "/venv/bin/python"
HERE = os.path.dirname(os.path.abspath(__file__))
ALL = [f"C{i:02d}" for i in range(1, 20)]


def sh(cmd, cwd=None, env=None, timeout=900):
    e = dict(os.environ)
    if env:
        e.update(env)
    try:
        r = subprocess.run(cmd, cwd=cwd, env=e, capture_output=True, text=True, timeout=timeout)
        return r.returncode, r.stdout + r.stderr
    except subprocess.TimeoutExpired:
        return 124, "TIMEOUT"


def ensure_wt():
    if not os.path.isdir(WT):
        rc, out = sh(["git", "-C", REPO, "worktree", "add", "-q", WT, "HEAD"])
        if rc:
            raise SystemExit(out)
    sh(["git", "-C", WT, "checkout", "-q", "--detach", "HEAD"])
    sh(["git", "-C", WT, "checkout", "--", "."])
    # follow /repo's HEAD
    head = subprocess.check_output(["git", "-C", REPO, "rev-parse", "HEAD"], text=True).strip()
    sh(["git", "-C", WT, "checkout", "-q", "--detach", head])


def verify(d):
    ensure_wt()
    patch = os.path.join(d, "patch.diff")
    demo = os.path.join(d, "demo.py")
    res = {"dir": d}
    rc, out = sh(["git", "-C", WT, "apply", "--check", patch])
    res["applies"] = rc == 0
    if rc:
        res["error"] = out[-400:]
        return res
    sh(["git", "-C", WT, "apply", patch])
    rc, out = sh([PY, os.path.join(HERE, "tools_baseline.py"), WT])
    res["baseline"] = out.strip().splitlines()[0] if out.strip() else ""
    res["baseline_ok"] = rc == 0
    rc, out = sh(["timeout", "600", PY, demo], cwd=WT, env={"PYTHONPATH": WT})
    res["demo_with_change"] = rc
    res["demo_output"] = out[-600:]
    sh(["git", "-C", WT, "checkout", "--", "."])
    rc, out = sh(["timeout", "600", PY, demo], cwd=WT, env={"PYTHONPATH": WT})
    res["demo_without_change"] = rc
    res["confirmed"] = bool(res["baseline_ok"] and res["demo_with_change"] == 1
                            and res["demo_without_change"] == 0)
    return res


def check(d, pids=ALL):
    patch = os.path.join(d, "patch.diff")
    res = {}
    rc, out = sh(["git", "-C", REPO, "status", "--porcelain"])
    if out.strip():
        raise SystemExit("/repo has uncommitted changes; refusing to apply a seeded patch")
    rc, out = sh(["git", "-C", REPO, "apply", patch])
    if rc:
        return {"error": out[-400:]}
    try:
        from concurrent.futures import ThreadPoolExecutor

        def one(pid):
            rc, out = sh([PY, os.path.join(HERE, "check"), pid, "--tier", "quick"], cwd=HERE)
            viol = [l for l in out.splitlines() if l.startswith("  violated rule")]
            return pid, {"rc": rc, "violations": [v.strip()[:300] for v in viol][:4],
                         "error": [l for l in out.splitlines() if "ANALYSIS-ERROR" in l][:1]}
        with ThreadPoolExecutor(16) as ex:
            for pid, r in ex.map(one, pids):
                res[pid] = r
    finally:
        sh(["git", "-C", REPO, "checkout", "--", "."])
    return res


def main():
    mode, dirs = sys.argv[1], sys.argv[2:]
    for d in dirs:
        rp = os.path.join(d, "result.json")
        old = json.load(open(rp)) if os.path.exists(rp) else {}
        if mode == "benign":
            old["checks"] = check(d)
            bad = {p: r for p, r in old["checks"].items() if isinstance(r, dict) and r.get("rc") != 0}
            print(f"{os.path.basename(d)}: " + ("all 19 checks silent" if not bad else
                  "ALARMS " + str({p: (r['violations'] or r['error'])[:2] for p, r in bad.items()})[:700]))
        elif mode == "verify":
            old["verify"] = verify(d)
            v = old["verify"]
            print(f"{os.path.basename(d)}: confirmed={v.get('confirmed')} applies={v.get('applies')} "
                  f"baseline_ok={v.get('baseline_ok')} demo={v.get('demo_with_change')}/"
                  f"{v.get('demo_without_change')}")
        else:
            old["checks"] = check(d)
            caught = [p for p, r in old["checks"].items() if isinstance(r, dict) and r.get("rc") == 1]
            errs = [p for p, r in old["checks"].items() if isinstance(r, dict) and r.get("rc") == 2]
            print(f"{os.path.basename(d)}: caught by {caught or 'NONE'}"
                  + (f" analysis-errors {errs}" if errs else ""))
        json.dump(old, open(rp, "w"), indent=1)
    # restore evidence written against patched trees
    if mode in ("check", "benign"):
        for pid in ALL:
            sh([PY, os.path.join(HERE, "check"), pid, "--tier", "quick"], cwd=HERE)


if __name__ == "__main__":
    main()
